#!/bin/bash
# tools/remeta_seed.sh <PROPERTY> <name>: re-runs the property's quick check against a fresh worktree of
# /repo's HEAD with seeded/<name>/patch.diff applied and records the verdict lines in seeded/<name>/meta.json
# (fields check_exit, check_verdict_lines, detected, checked_on).
id=$1; name=$2
wt=$(mktemp -d /tmp/reseed-XXXX); rmdir $wt
git -C /repo worktree add -q $wt HEAD || exit 2
(cd $wt && git apply /verif/seeded/$name/patch.diff) || { echo "patch does not apply"; git -C /repo worktree remove --force $wt; exit 2; }
out=$(mktemp -d /tmp/reseedout-XXXX)
cd /verif && ./check $id --tier quick --repo $wt --out $out > /verif/seeded/$name/check_output.txt 2>&1; code=$?
rm -rf $out
git -C /repo worktree remove --force $wt
python3 - "$id" "$name" "$code" "$(git -C /repo log --format=%h -1)" <<'PY'
import json,sys,re
id,name,code,head=sys.argv[1:5]
out='/verif/seeded/'+name
lines=open(out+'/check_output.txt').read().splitlines()
m=json.load(open(out+'/meta.json'))
m['check_exit']=int(code)
m['check_verdict_lines']=[re.sub(r'/tmp/reseedout-\w+/','',l)[:300] for l in lines if l.split(' ')[0].rstrip(':') in ('VIOLATION','UNCONFIRMED','INCONCLUSIVE','HOLDS','KNOWN-FINDING','ENGINE-ERROR')][:12]
m['detected']=int(code)==1
m['checked_on']='/repo HEAD '+head+' + this patch'
json.dump(m,open(out+'/meta.json','w'),indent=1)
print(name, 'detected' if m['detected'] else 'MISSED', code)
PY
