#!/usr/bin/env python3
"""Regenerates /verif/seeded/README.md from the meta.json files."""
import json,glob,os
rows=[]
for f in sorted(glob.glob('/verif/seeded/*/meta.json')):
    m=json.load(open(f))
    v=[l for l in m.get('check_verdict_lines',[]) if l.startswith('VIOLATION')]
    caught=', '.join(sorted(set(l.split('replay=')[1].split('/')[-1].rsplit('-',1)[0] for l in v))) if v else '-'
    rows.append((m['name'],m['property'],'yes' if m.get('detected') else 'NO',m.get('needs',''),caught,m.get('note','')))
out=["# Seeded changes","",
"Each directory holds `patch.diff` (the change to safing/portbase), the demonstration test written by the author of the change (`*_test.go.txt`; fails with the change, passes without), `check_output.txt` and `meta.json`.",
"Changes were written by independent sub-agents that saw only the property text and a scratch worktree; each was re-verified here (existing tests pass with the change, demo fails with it and passes without it) and then checked with the property's quick command against a fresh scratch worktree of /repo's HEAD with the patch applied (`tools/eval_seed.sh`, `tools/remeta_seed.sh`; the worktree is removed afterwards).","",
"| change | property | caught by the check | what it needs to manifest | harness/obligation that caught it | note |","|---|---|---|---|---|---|"]
for r in rows:
    out.append("| %s | %s | %s | %s | %s | %s |"%r)
open('/verif/seeded/README.md','w').write('\n'.join(out)+'\n')
print('\n'.join(out[-len(rows):]))
