#!/bin/bash
# tools/recheck_seed.sh <PROPERTY> <name> [check args...]: applies seeded/<name>/patch.diff to a fresh
# worktree of /repo's HEAD, runs the property's quick check against it, removes the worktree.
id=$1; name=$2; shift 2
wt=$(mktemp -d /tmp/reseed-XXXX); rmdir $wt
git -C /repo worktree add -q $wt HEAD || exit 2
(cd $wt && git apply /verif/seeded/$name/patch.diff) || { echo "patch does not apply"; git -C /repo worktree remove --force $wt; exit 2; }
out=$(mktemp -d /tmp/reseedout-XXXX)
cd /verif && ./check $id --tier quick --repo $wt --out $out "$@" 2>&1 | grep -E "^(VIOLATION|UNCONFIRMED|INCONCLUSIVE|HOLDS|KNOWN-FINDING|ENGINE-ERROR)" | cut -c1-220
rm -rf $out
git -C /repo worktree remove --force $wt
