#!/bin/bash
# tools/verify_seed_demos.sh: for every seeded change, in a fresh worktree of /repo's HEAD:
# the patch applies, the demonstration fails with it and passes without it.
export GOFLAGS=-mod=mod GOPROXY=off GOSUMDB=off GOTOOLCHAIN=local
one() {
  n=$1; d=/verif/seeded/$n
  wt=$(mktemp -d /tmp/vseed-XXXX); rmdir $wt
  git -C /repo worktree add -q --detach $wt HEAD 2>/dev/null || { echo "$n WORKTREE-FAIL"; return; }
  demo=$(ls $d/*_test.go.txt 2>/dev/null | head -1)
  pkgline=$(grep -m1 '^package ' $demo | awk '{print $2}' | sed 's/_test$//')
  # the package directory: the one touched by the patch whose package name matches, else first touched dir
  dir=""
  for f in $(grep '^+++ b/' $d/patch.diff | sed 's|+++ b/||'); do
    dd=$(dirname $f)
    if [ -n "$(grep -l "^package $pkgline\$" $wt/$dd/*.go 2>/dev/null | head -1)" ]; then dir=$dd; break; fi
  done
  if [ -z "$dir" ]; then dir=$(grep -rl --include=*.go "^package $pkgline\$" $wt | grep -v _test | head -1 | xargs dirname | sed "s|$wt/||"); fi
  cp $demo $wt/$dir/zz_seed_demo_test.go
  without=$(cd $wt && go test -vet=off -count=1 -run SeedDemo ./$dir 2>&1 | grep -E "^(ok|FAIL|---)" | head -1 | cut -c1-20)
  (cd $wt && git apply $d/patch.diff 2>/dev/null) || { echo "$n NOAPPLY"; git -C /repo worktree remove --force $wt; return; }
  with=$(cd $wt && go test -vet=off -count=1 -run SeedDemo ./$dir 2>&1 | grep -E "^(ok|FAIL|---)" | head -1 | cut -c1-20)
  echo "$n dir=$dir without=[$without] with=[$with]"
  git -C /repo worktree remove --force $wt
}
export -f one
ls /verif/seeded | grep '^C' | xargs -P 6 -I{} bash -c 'one {}'
