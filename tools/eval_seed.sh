#!/bin/bash
# Evaluates a seeded change: tools/eval_seed.sh <PROPERTY> <worktree> <name> [packages...]
# 1. extracts patch (library change) and demo from the scratch worktree
# 2. confirms: existing tests pass with the change, demo fails with it and passes without
# 3. applies the patch to /repo, runs the property's quick check, reverts /repo
# 4. stores everything under /verif/seeded/<name>/ and restores the committed evidence
export GOFLAGS=-mod=mod GOPROXY=off GOSUMDB=off GOTOOLCHAIN=local
id=$1; wt=$2; name=$3; shift 3; pkgs="$@"
out=/verif/seeded/$name; mkdir -p $out
cd $wt || exit 2
demo=$(git status --short | grep zz_seed_demo_test.go | awk '{print $2}')
git diff -- . ":(exclude)$demo" > $out/patch.diff
cp $demo $out/$(basename $demo).txt
dpkg=./$(dirname $demo)
[ -z "$pkgs" ] && pkgs=$dpkg
# with change: existing tests (demo skipped)
with_existing=$(go test -vet=off -count=1 -skip 'SeedDemo|TestMicroTask' $pkgs 2>&1 | grep -E "^(ok|FAIL|---)" | tr '\n' ';')
with_demo=$(go test -vet=off -count=1 -run 'SeedDemo' $dpkg 2>&1 | grep -E "^(ok|FAIL)" | head -1)
git apply -R $out/patch.diff
without_demo=$(go test -vet=off -count=1 -run 'SeedDemo' $dpkg 2>&1 | grep -E "^(ok|FAIL)" | head -1)
git apply $out/patch.diff
# the patch must apply cleanly to /repo's HEAD. Evidence goes to a scratch directory.
(cd /repo && git apply --check $out/patch.diff) || { echo "patch does not apply to /repo"; exit 2; }
# The check runs against a fresh worktree of /repo's current HEAD with the patch applied (not against
# the agent's scratch tree, whose base may predate repairs: its own defects would count as detections).
scratch=$(mktemp -d /tmp/seedout-XXXX)
fresh=$(mktemp -d /tmp/seedwt-XXXX); rmdir $fresh
git -C /repo worktree add -q --detach $fresh HEAD || exit 2
(cd $fresh && git apply $out/patch.diff) || { git -C /repo worktree remove --force $fresh; exit 2; }
cd /verif && ./check $id --tier quick --repo $fresh --out $scratch > $out/check_output.txt 2>&1; code=$?
rm -rf $scratch
git -C /repo worktree remove --force $fresh
python3 - "$id" "$name" "$code" "$with_existing" "$with_demo" "$without_demo" <<'PY'
import json,sys
id,name,code,we,wd,wod=sys.argv[1:7]
out='/verif/seeded/'+name
lines=open(out+'/check_output.txt').read().splitlines()
meta={"property":id,"name":name,"existing_tests_with_change":we,"demo_with_change":wd,"demo_without_change":wod,
 "check_cmd":"./check %s --tier quick"%id,"check_exit":int(code),
 "check_verdict_lines":[l[:300] for l in lines if l.split(' ')[0].rstrip(':') in ('VIOLATION','UNCONFIRMED','INCONCLUSIVE','HOLDS','KNOWN-FINDING','ENGINE-ERROR')][:12],
 "detected": int(code)==1}
try:
    old=json.load(open(out+'/meta.json')); meta['needs']=old.get('needs','')
except Exception: pass
json.dump(meta,open(out+'/meta.json','w'),indent=1)
print(json.dumps(meta,indent=1))
PY
