#!/bin/sh
# Re-runs every claimed check (quick tier by default) on the current /repo tree and
# validates the evidence files. Usage: tools/run_all.sh [quick|thorough]
tier=${1:-quick}
cd /verif || exit 2
ids=$(python3 -c "import json;print(' '.join(c['property_id'] for c in json.load(open('MANIFEST.json'))['checks']))")
rc=0
for id in $ids; do
  start=$(date +%s)
  out=$(./check $id --tier $tier 2>&1); code=$?
  end=$(date +%s)
  echo "== $id exit=$code $((end-start))s: $(echo "$out" | tail -1 | cut -c1-200)"
  echo "$out" | grep -E "^(VIOLATION|INCONCLUSIVE|UNCONFIRMED|ENGINE-ERROR|KNOWN-FINDING)" | cut -c1-220
  [ $code -ne 0 ] && rc=1
done
python3-vt - <<'PY'
import json,jsonschema,glob
s=json.load(open('/root/.vp/EVIDENCE.schema.json'))
m=json.load(open('/verif/MANIFEST.json'))
jsonschema.validate(m,json.load(open('/root/.vp/MANIFEST.schema.json')))
for c in m['checks']:
    jsonschema.validate(json.load(open(c['evidence_file'])),s)
print('manifest and evidence validate')
PY
exit $rc
