#!/usr/bin/env python3
"""Regenerates /verif/MANIFEST.json from the table below (claimed checks) and
properties.jsonl (everything else goes to not_applicable with its reason)."""
import json, os
V = '/verif'
props = [json.loads(l) for l in open(f'{V}/properties.jsonl')]
TECH = "bounded symbolic execution of go/ssa (symgo) + SMT (z3 QF_BV); native replay of counterexamples"
CLAIMED = {
 'C10': ("Bounded symbolic model checking of the real varint code: every value of each width and every byte string up to 12 bytes is covered by path-complete symbolic execution of the go/ssa built from /repo; each obligation is an SMT query; counterexamples are replayed natively before being reported.",
         "Trusted: go/ssa, the symgo engine, z3 4.8.12; the harness reference decoder is the specification; byte strings > 12 bytes are outside the claim."),
 'C16': ("Bounded symbolic model checking of container.Container against a byte-queue model: one inductive step from every invariant-satisfying representation (<= 3/4 compartments of 0..2 symbolic bytes) with each of the 29 operations and fully symbolic arguments (all int64 lengths, all uint64 numbers), plus constructor-based histories and 9..11 byte length prefixes.",
         "Trusted: go/ssa, symgo, z3; the byte-queue model and the representation invariant (asserted as post-condition of every step); compartments > 2 bytes and > 4 compartments are outside the claim."),
}
CLAIMED['C08'] = ("Bounded symbolic model checking of the stored-record format: wrapper round trip over fully symbolic metadata (4 x int64, 2 flags), all 256 format ids and 0..4 payload bytes; typed-record round trip with the JSON codec as a contract stub; decoder totality (no panic, no out-of-bounds read, data is a suffix of the input) for every byte string up to 6 (quick) / 12 (thorough) bytes, for 37..40-byte inputs carrying a full GenCode meta block, and for every truncation / single-byte corruption of a valid encoding.",
         "Trusted: go/ssa, symgo, z3; codec (json/yaml/cbor/msgpack/gzip) contract stubs; value-level JSON fidelity is outside the claim.")
CLAIMED['C09'] = ("Bounded symbolic model checking of dsd dump/load dispatch: all 256 serialization ids x 256 compression ids symbolically, AUTO resolution, GenCode and RAW with real code, HTTP request/response content-type coherence, Accept parsing for canonical headers and every ASCII string up to 3 (quick) / 5 (thorough) bytes, and Load totality on every byte string up to 4 / 6 bytes; third-party codecs and gzip are contract stubs.",
         "Trusted: go/ssa, symgo, z3; codec and gzip contract stubs (value-level fidelity of JSON/CBOR/MsgPack/YAML and real gzip are outside the claim); http.Header modelled as a map.")
CLAIMED['C18'] = ("Bounded symbolic model checking of every name-to-path computation (fstree keys and query prefixes, DirStructure paths, updater scan roots and archive entry names) with the real path/filepath code: every name up to 6 (quick) / 8-9 (thorough) bytes; all file-system calls are recording stubs and the oracle is on the recorded paths; counterexamples are confirmed on real system calls (native replay in a sandbox under strace).",
         "Trusted: go/ssa, symgo, z3, the os/filepath.Walk/zip stubs; symlinks, Windows paths and the api bridge are outside the claim.")
CLAIMED['C12'] = ("Bounded symbolic model checking of the API permission gate (authenticateRequest, checkAuth, checkAPIKey, checkSessionCookie, getEffectiveMethod): declared and granted permissions range over all int8 values, credential sources over 8 scenarios with symbolic header bytes and a symbolic clock; oracle is a reference decision procedure in the harness; refusals must produce exactly one 401/403/404/405/500 reply.",
         "Trusted: go/ssa, symgo, z3; http.Header/Cookie/BasicAuth/rng/log stubs. mainHandler.handle (gorilla/mux, Origin/CORS), key-config parsing and server liveness are outside the claim.")
CLAIMED['C19'] = ("Bounded symbolic model checking of updater version selection, blacklisting and purge: every combination of per-version flags and registry flags is symbolic, version order is chosen by the harness, the oracle is the documented cascade written as fork-free terms; purge obligations are checked on the recorded os.Remove trace (and on real files in the native replay).",
         "Trusted: go/ssa, symgo, z3; semver parsing stub for numeric versions, os stubs. Real semver ordering, file-name round trip and downloads are outside the claim.")
CLAIMED['C11'] = ("Bounded symbolic model checking of the query tokenizer, parser and printer: tokenizer totality on every byte string up to 4/6 bytes with exact UTF-8 semantics, token preservation for every value/key up to 3/4 bytes, print->parse->print plus equal matching on a symbolic accessor for single conditions and nested groups, acceptance of documented queries and parser totality over bounded token sequences.",
         "Trusted: go/ssa, symgo, z3; hand model of the single regexp use; Sprintf model. Float/regex operand semantics and longer strings are outside the claim. One known finding (reserved-word keys).")
CLAIMED['C17'] = ("Bounded symbolic model checking of the atomic-replace primitives at mechanism level: every os/file call is a recording stub that fails by a symbolic bit, so every fault schedule is explored; an automaton over the recorded call trace checks that the destination is only ever named by the publishing rename, that the renamed file is the primitive's own temp file in an admissible directory, that write* -> fsync -> close precede the rename, that success is reported iff published and that temp files are renamed or removed. Counterexamples are confirmed on real system calls (strace).",
         "Trusted: go/ssa, symgo, z3, os stubs, and the POSIX rename/fsync assumption that turns the call-order automaton into old-or-new atomicity; the real file system, crashes and concurrent readers are outside the claim.")
CLAIMED['C01'] = ("Bounded symbolic model checking of the module lifecycle: gate predicates as lemmas over fully symbolic status/flag state, and the real prepare/start/stop/manage passes with goroutines, channels and contexts executed by the engine's scheduler over every DAG shape on <= 3 modules, every order of overlapping callbacks and every position of one failing (error/panic) callback; oracle on the recorded callback trace and final statuses.",
         "Trusted: go/ssa, symgo (sequentially consistent sync/atomic intrinsics, G1 yield-only scheduling), z3. Finer interleavings, >3 modules, >1 failure and the Start() wrapper are outside the claim.")
CLAIMED['C15'] = ("Bounded symbolic model checking of the microtask scheduler and its accounting with the engine's goroutine scheduler: every variant x outcome leaves the global and per-module counters at their previous values, runs the function exactly once and returns its error (or a panic error); done() is idempotent; with threshold 2 and three concurrent medium/low submitters no more than 2 functions run at once in any order of the function bodies, counters return to zero and a later microtask is admitted.",
         "Trusted: go/ssa, symgo (SC atomics, G1 yield-only scheduling), z3. Max-delay expiry, larger thresholds and finer interleavings are outside the claim.")
CLAIMED['C05'] = ("Bounded symbolic model checking of the stop protocol: the completion decision as a lemma over fully symbolic flags and counters, worker accounting (count, decrement, completion check order), and the real stop sequence run with the engine's goroutine scheduler for a module with up to 2 running work items and a stop routine returning or panicking at an arbitrary point, exploring every scheduling choice at blocking points; a lost completion appears as a deadlock and is reported as a violation.",
         "Trusted: go/ssa, symgo (SC atomics/locks, G1 scheduling), z3. More than 2 items, tasks/event hooks as running items, real timeouts and finer preemption are outside the claim.")
CLAIMED['C06'] = ("Bounded symbolic model checking of the recover paths of managed executions (RunWorker/StartWorker, service worker with restart, microtask, task body, prep/start/stop routines through the real passes, a panicking worker among healthy ones) for five kinds of panic value: no panic escapes any goroutine (an escaping panic is the event 'process terminated'), the error identifies as a panic with value and stack trace, it reaches the reporting channel, counters are restored, the service worker restarts, the task can run again and the module can be stopped.",
         "Trusted: go/ssa, symgo (defer/recover semantics per Go spec, G1 scheduling, virtual timers), z3. API request handlers and event hooks are outside the claim.")
NA = {}
def check(pid):
    text, note = CLAIMED[pid]
    return {"property_id": pid, "quick_cmd": f"./check {pid} --tier quick", "thorough_cmd": f"./check {pid} --tier thorough",
            "evidence_file": f"/verif/evidence/{pid}.json", "replay_cmd_template": f"./check {pid} --replay {{path}}",
            "engine": "symgo", "level_claimed": {"category": "model_checking", "text": text, "design_ref": f"DESIGN.md §3 {pid}"},
            "level_note": note, "technique": TECH}
na_file = f'{V}/tools/not_applicable.json'
if os.path.exists(na_file):
    NA = json.load(open(na_file))
m = {"version": 1,
 "setup_cmd": "cd /verif/engine && GOFLAGS=-mod=mod GOPROXY=off GOSUMDB=off GOTOOLCHAIN=local go build -o symgo .",
 "hooks": {"guard": "verif", "enable": "harnesses and the zz_verifrt runtime are injected as go/packages and `go test -overlay` overlays; nothing is written into /repo", "baseline_off_cmd": "cd /repo && GOFLAGS=-mod=mod GOPROXY=off go test -vet=off -count=1 -timeout 25m ./...", "source_commits": [], "add_only": True},
 "engines": [{"name": "symgo", "path": "/verif/engine", "serves_properties": sorted(CLAIMED), "kind_free_text": "symbolic executor for go/ssa (concrete shape, symbolic content, path forking by re-execution, goroutine scheduler) with an SMT-LIB2 back end (z3 -in); native replay via go test -overlay"}],
 "checks": [check(p) for p in sorted(CLAIMED)],
 "not_applicable": [{"property_id": p['id'], "reason": NA.get(p['id'], "check not built yet (build in progress; see DESIGN.md §6 build order)")} for p in props if p['id'] not in CLAIMED],
 "notes": "see DESIGN.md; known findings and fixed defects in known_findings.json"}
json.dump(m, open(f'{V}/MANIFEST.json', 'w'), indent=1)
print("claimed:", sorted(CLAIMED))
