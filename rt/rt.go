// Package zz_verifrt is the harness runtime. It exists only as an overlay
// (never written into /repo). Under the symbolic engine the primitive
// functions (marked INTRINSIC) are intercepted by name and their bodies are
// never executed; compiled natively (replay) they read the recorded
// counterexample. Everything else is plain Go that is executed both ways.
package zz_verifrt

import (
	"encoding/json"
	"fmt"
	"io"
	"os"
	"path/filepath"
	"sync"
	"sync/atomic"
	"time"
)

var errEOF = io.EOF

// nativeTimeoutNs bounds a native replay run (default 20 s); a harness that
// needs real time (eg. the one-minute minimum of repeating tasks) raises it
// with NativeTimeout.
var nativeTimeoutNs int64 = int64(20 * time.Second)

// NativeTimeout (INTRINSIC: no-op under the engine) raises the time limit of
// the native replay of this harness (at most 110 s: the replay test binary
// runs with a 120 s deadline).
func NativeTimeout(d time.Duration) {
	if d > 110*time.Second {
		d = 110 * time.Second
	}
	atomic.StoreInt64(&nativeTimeoutNs, int64(d))
}

func timeoutChan() <-chan time.Time {
	out := make(chan time.Time, 1)
	start := time.Now()
	go func() {
		for time.Since(start) < time.Duration(atomic.LoadInt64(&nativeTimeoutNs)) {
			time.Sleep(100 * time.Millisecond)
		}
		out <- time.Now()
	}()
	return out
}

// ---------- replay table (native only) ----------

var (
	mu       sync.Mutex
	vals     map[string]uint64
	occ      = map[string]int{}
	Failed   []string // assertion ids that failed natively
	Reached  []string
	observed []string
	loaded   bool
)

type ReplayFile struct {
	Property string            `json:"property"`
	Harness  string            `json:"harness"`
	Package  string            `json:"package"`
	Assert   string            `json:"assert"`
	Kind     string            `json:"kind"`
	Msg      string            `json:"msg"`
	Known    string            `json:"known,omitempty"`
	Site     string            `json:"site,omitempty"`
	Model    map[string]uint64 `json:"model"`
	Tier     string            `json:"tier"`
}

var Current ReplayFile

// LoadReplay reads the counterexample named by $VERIF_REPLAY.
func LoadReplay() error {
	path := os.Getenv("VERIF_REPLAY")
	if path == "" {
		return fmt.Errorf("VERIF_REPLAY not set")
	}
	b, err := os.ReadFile(path)
	if err != nil {
		return err
	}
	if err := json.Unmarshal(b, &Current); err != nil {
		return err
	}
	mu.Lock()
	vals = Current.Model
	occ = map[string]int{}
	Failed = nil
	loaded = true
	mu.Unlock()
	return nil
}

// SetModel installs a model directly (selfcheck).
func SetModel(m map[string]uint64) {
	mu.Lock()
	vals = m
	occ = map[string]int{}
	Failed = nil
	Reached = nil
	observed = nil
	loaded = true
	mu.Unlock()
}

func input(name string) uint64 {
	mu.Lock()
	defer mu.Unlock()
	k := occ[name]
	occ[name] = k + 1
	key := name
	if k > 0 {
		key = fmt.Sprintf("%s#%d", name, k)
	}
	return vals[key]
}

// ---------- primitives (INTRINSIC under the engine) ----------

func U8(name string) uint8   { return uint8(input(name)) }
func U16(name string) uint16 { return uint16(input(name)) }
func U32(name string) uint32 { return uint32(input(name)) }
func U64(name string) uint64 { return input(name) }
func Bool(name string) bool  { return input(name) != 0 }

// Concretize forks the engine once per feasible value of x.
func Concretize(x uint64) uint64 { return x }

// Assume restricts the explored inputs. Natively a false assumption means the
// replay file does not belong to this harness.
func Assume(c bool) {
	if !c {
		panic("zz_verifrt: ASSUME-FALSE (replay does not satisfy harness assumptions)")
	}
}

// Assert states an obligation with a stable id.
func Assert(c bool, id string) {
	if !c {
		mu.Lock()
		Failed = append(Failed, id)
		mu.Unlock()
		fmt.Printf("VERIF-ASSERT-FAILED %s\n", id)
	}
}

// Reach is a vacuity witness: the engine requires every id to be reachable.
func Reach(id string) {
	mu.Lock()
	Reached = append(Reached, id)
	mu.Unlock()
}

// Region declares the input region of a known finding (see known_findings.json).
func Region(id string, c bool) {}

// Yield is a scheduling point (G2). Natively it is a no-op unless a schedule
// controller is installed.
func Yield() {
	if YieldHook != nil {
		YieldHook()
		return
	}
	// natively: give every other goroutine ample opportunity to run
	time.Sleep(5 * time.Millisecond)
}

var YieldHook func()

// SetUnwind sets the per-frame block visit bound for this path.
func SetUnwind(n int) {}

// NoTimers: virtual timers never fire on this path.
func NoTimers() {}

// TimersFireTogether: all virtual timers that are due at the same instant
// fire before any goroutine runs again (default: one at a time, in creation
// order, each followed by running everything to quiescence).
func TimersFireTogether(on bool) {}

// AnyMapOrder makes map iteration explore every order (<= 4 entries).
func AnyMapOrder(on bool) {}

// Observe records a value for translation validation.
func Observe(name string, v uint64) {
	mu.Lock()
	observed = append(observed, fmt.Sprintf("%s=%d", name, v))
	mu.Unlock()
}

// ObserveBool records a boolean as 0/1.
func ObserveBool(name string, v bool) {
	if v {
		Observe(name, 1)
	} else {
		Observe(name, 0)
	}
}

func Observed() []string { return observed }

// Symbolic reports whether the harness runs under the engine.
func Symbolic() bool { return false }

// CodecFaults(false) makes the engine's marshal stubs (JSON, CBOR, ...) always
// succeed: the harness assumes that encoding its values does not fail.
func CodecFaults(on bool) {}

// NativePause widens a race window in native replays (no effect under the
// engine, where the scheduler explores the interleaving itself).
func NativePause() {
	if Symbolic() {
		return
	}
	time.Sleep(100 * time.Millisecond)
}

// Unit is the time unit of timing harnesses: one minute on the engine's
// virtual clock, 100ms in a native replay (so that replays finish in seconds).
// Only durations the harness controls may be expressed in it.
func Unit() time.Duration {
	if Symbolic() {
		return time.Minute
	}
	return 100 * time.Millisecond
}

// ---------- derived helpers (plain Go, executed both ways) ----------

func I64(name string) int64 { return int64(U64(name)) }
func Int(name string) int   { return int(U64(name)) }
func I32(name string) int32 { return int32(U32(name)) }
func I8(name string) int8   { return int8(U8(name)) }

func itoa(i int) string {
	if i == 0 {
		return "0"
	}
	var b [20]byte
	p := len(b)
	for i > 0 {
		p--
		b[p] = byte('0' + i%10)
		i /= 10
	}
	return string(b[p:])
}

// Bytes returns n symbolic bytes named name.0 .. name.(n-1).
func Bytes(name string, n int) []byte {
	b := make([]byte, n)
	for i := 0; i < n; i++ {
		b[i] = U8(name + "." + itoa(i))
	}
	return b
}

func Str(name string, n int) string { return string(Bytes(name, n)) }

// Len returns a fresh symbolic integer in [lo,hi], concretised (one fork per
// value; INTRINSIC: needs no solver call because the variable is fresh).
func Len(name string, lo, hi int) int {
	v := int(U64(name))
	if v < lo || v > hi {
		panic("zz_verifrt: ASSUME-FALSE (Len out of range)")
	}
	return v
}

// Choice returns a value in [0,n), one fork per value.
func Choice(name string, n int) int { return Len(name, 0, n-1) }

// Error is the opaque error produced by Err.
type Error struct{ Name string }

func (e *Error) Error() string { return "zz_verifrt error " + e.Name }

// Err returns nil or a distinct non-nil error.
func Err(name string) error {
	if Bool(name) {
		return &Error{name}
	}
	return nil
}

// BytesN returns a byte slice with symbolic length in [lo,hi] and symbolic content.
func BytesN(name string, lo, hi int) []byte {
	return Bytes(name, Len(name+".len", lo, hi))
}

func StrN(name string, lo, hi int) string { return string(BytesN(name, lo, hi)) }

// Thorough reports whether the thorough tier is running (INTRINSIC; natively
// taken from the replay file).
func Thorough() bool { return Current.Tier == "thorough" }

// AllowPanic: an escaping panic is not a violation on this path (INTRINSIC).
func AllowPanic() {}

// RunReplay runs the harness named in $VERIF_REPLAY natively and prints
// markers the driver parses.
func RunReplay(fns map[string]func()) {
	if err := LoadReplay(); err != nil {
		fmt.Println("VERIF-REPLAY-ERROR", err)
		return
	}
	fn := fns[Current.Harness]
	if fn == nil {
		fmt.Println("VERIF-REPLAY-ERROR unknown harness", Current.Harness)
		return
	}
	fmt.Println("VERIF-REPLAY-BEGIN", Current.Harness)
	done := make(chan struct{})
	go func() {
		defer close(done)
		defer func() {
			if r := recover(); r != nil {
				fmt.Printf("VERIF-REPLAY-PANIC %v\n", r)
			}
		}()
		fn()
	}()
	select {
	case <-done:
	case <-timeoutChan():
		fmt.Println("VERIF-REPLAY-TIMEOUT")
	}
	fmt.Println("VERIF-REPLAY-END failed:", len(Failed))
}

// ---------- fork-free boolean helpers (INTRINSIC: build one term) ----------

// All is conjunction without short-circuit forks.
func All(cs ...bool) bool {
	for _, c := range cs {
		if !c {
			return false
		}
	}
	return true
}

// Any is disjunction without short-circuit forks.
func Any(cs ...bool) bool {
	for _, c := range cs {
		if c {
			return true
		}
	}
	return false
}

// Implies is (!a || b) without forks.
func Implies(a, b bool) bool { return !a || b }

// EqBytes compares two byte slices without forking per byte.
func EqBytes(a, b []byte) bool {
	if len(a) != len(b) {
		return false
	}
	for i := range a {
		if a[i] != b[i] {
			return false
		}
	}
	return true
}

// EqStr compares two strings without forking per byte.
func EqStr(a, b string) bool { return a == b }

// IteU64 selects without forking.
func IteU64(c bool, a, b uint64) uint64 {
	if c {
		return a
	}
	return b
}

// ---------- file-system trace (engine only; natively the trace is empty) ----------

func FsReset()             {}
func FsLen() int           { return 0 }
func FsOp(i int) string    { return "" }
func FsPath(i int) string  { return "" }
func FsPath2(i int) string { return "" }
func FsOK(i int) bool      { return false }

// WalkEntry registers a candidate directory entry for the engine's
// filepath.Walk stub (natively a no-op: the real file system is walked).
func WalkEntry(path string, isDir bool) {}

// FsFile registers the content of a file for the engine's os.ReadFile stub
// (a read of exactly this path succeeds and returns a copy of data); natively
// the file is really written.
func FsFile(path string, data []byte) {
	_ = os.MkdirAll(filepath.Dir(path), 0o700)
	_ = os.WriteFile(path, data, 0o600)
}

// FsFaults bounds how many file-system calls may fail on a path
// (-1 = any number, 0 = none). Engine only.
func FsFaults(n int) {}

// ZipEntry registers an archive entry for the engine's zip.OpenReader stub.
func ZipEntry(name string) { zipNames = append(zipNames, name) }

// ZipEntryDamaged registers an archive entry whose content cannot be read to
// its end: kind 1 = the data breaks off (io.ErrUnexpectedEOF), kind 2 = wrong
// checksum (zip.ErrChecksum), kind 0 = intact.
func ZipEntryDamaged(name string, kind int) {
	zipNames = append(zipNames, name)
	if zipDamage == nil {
		zipDamage = map[string]int{}
	}
	zipDamage[name] = kind
}

var zipDamage map[string]int

// (natively the real zip reader reports the real zip.ErrChecksum)
var zipErrChecksum = fmt.Errorf("zip: checksum error")

// NopReader is the io.ReadCloser of stubbed archive entries: empty, or failing
// like a damaged entry (see ZipEntryDamaged).
type NopReader struct{ Kind int }

func (r *NopReader) Read(p []byte) (int, error) {
	switch r.Kind {
	case 1:
		return 0, io.ErrUnexpectedEOF
	case 2:
		return 0, zipErrChecksum
	}
	return 0, errEOF
}
func (*NopReader) Close() error { return nil }

// PreemptedRunLast (engine only, with SchedYieldOnly and Preemptions): a
// goroutine that was preempted is not picked again by the deterministic
// run-to-block policy while another goroutine can run - the preemption gives the
// others time to finish what they are doing, not just one step.
func PreemptedRunLast(on bool) {}

// SpinLimit (engine only): a goroutine other than the harness' main one that
// passes n times through one basic block without handing over to another
// goroutine is taken for a livelock and parked for good; the harness'
// obligations then see what the rest of the system does without it. A path on
// which this happened and no obligation failed is reported as inconclusive.
func SpinLimit(n int) {}

// FsFaultOps restricts which file-system operations may fail (comma list of
// op names as they appear in the trace). Engine only.
func FsFaultOps(ops string) {}

// FsStatDirs: successful os.Stat calls report an existing directory with mode
// 0755 instead of an arbitrary file (engine only; cuts forks that do not
// matter for the property at hand).
func FsStatDirs(on bool) {}

// FsStatFromWalk: os.Stat/Lstat succeed exactly for the paths registered with
// WalkEntry (with their kind); every other path does not exist.
func FsStatFromWalk(on bool) {}

func I16(name string) int16 { return int16(U16(name)) }

// SchedYieldOnly selects the scheduling granularity of the engine: when on,
// goroutines run until they block and the next one is chosen deterministically
// (creation order); every runnable goroutine may be chosen only at Yield()
// points. When off (default) every blocking point is a choice point.
func SchedYieldOnly(on bool) {}

func I32s(name string) int32 { return int32(U32(name)) }

// AllowDeadlock: a path on which every goroutine ends up blocked is not a
// violation (INTRINSIC).
func AllowDeadlock() {}

// Quiesce waits until the rest of the program has come to rest: under the
// engine a sleep of d on the virtual clock (which only advances when every
// goroutine is blocked), natively a short real sleep.
func Quiesce(d time.Duration) {
	if Symbolic() {
		time.Sleep(d)
		return
	}
	// natively: 300 ms per requested second, at most 1.5 s
	n := int(d / time.Second)
	if n < 1 {
		n = 1
	}
	if n > 5 {
		n = 5
	}
	time.Sleep(time.Duration(n) * 300 * time.Millisecond)
}

// CallerFile declares what runtime.Caller reports under the engine (natively
// the real call site is reported).
func CallerFile(file string, line int) {}

// Preemptions sets the preemption budget (G2): besides the free context
// switches at blocking points, the running goroutine may be preempted up to n
// times at synchronisation operations (locks, atomics, channel operations).
func Preemptions(n int) {}

// Debug prints values (engine: symbolic rendering) - harness development aid.
func Debug(args ...interface{}) { fmt.Println(append([]interface{}{"RT-DEBUG:"}, args...)...) }

// ObserveStr / ObserveBytes record values for translation validation.
func ObserveStr(name string, v string) {
	mu.Lock()
	observed = append(observed, fmt.Sprintf("%s=%x", name, []byte(v)))
	mu.Unlock()
}

func ObserveBytes(name string, v []byte) {
	mu.Lock()
	observed = append(observed, fmt.Sprintf("%s=%x", name, v))
	mu.Unlock()
}

// SelfcheckFile is the input of RunSelfcheck.
type SelfcheckFile struct {
	Harness string `json:"harness"`
	Tier    string `json:"tier"`
	Samples []struct {
		Model map[string]uint64 `json:"model"`
	} `json:"samples"`
}

// RunSelfcheck runs the harness natively once per recorded sample and prints
// the observations, which the driver compares with the engine's values.
func RunSelfcheck(fns map[string]func()) {
	b, err := os.ReadFile(os.Getenv("VERIF_SELFCHECK"))
	if err != nil {
		fmt.Println("VERIF-SELFCHECK-ERROR", err)
		return
	}
	var sf SelfcheckFile
	if err := json.Unmarshal(b, &sf); err != nil {
		fmt.Println("VERIF-SELFCHECK-ERROR", err)
		return
	}
	fn := fns[sf.Harness]
	if fn == nil {
		fmt.Println("VERIF-SELFCHECK-ERROR unknown harness", sf.Harness)
		return
	}
	Current.Tier = sf.Tier
	for i, s := range sf.Samples {
		SetModel(s.Model)
		func() {
			defer func() {
				if r := recover(); r != nil {
					fmt.Printf("VERIF-SAMPLE-PANIC %d %v\n", i, r)
				}
			}()
			fn()
		}()
		fmt.Printf("VERIF-SAMPLE %d %d\n", i, len(Failed))
		for _, o := range Observed() {
			fmt.Println("VERIF-OBSERVE", i, o)
		}
	}
}
