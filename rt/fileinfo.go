package zz_verifrt

import (
	"io/fs"
	"time"
)

// FileInfo is the fs.FileInfo the engine's os.Stat stub returns.
type FileInfo struct {
	N   string
	Dir bool
	M   uint32
}

func (f *FileInfo) Name() string       { return f.N }
func (f *FileInfo) Size() int64        { return 0 }
func (f *FileInfo) Mode() fs.FileMode  { return fs.FileMode(f.M) }
func (f *FileInfo) ModTime() time.Time { return time.Time{} }
func (f *FileInfo) IsDir() bool        { return f.Dir }
func (f *FileInfo) Sys() any           { return nil }
