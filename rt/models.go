package zz_verifrt

// Go models of standard-library functions whose real bodies use lookup tables
// or assembly; the engine redirects calls by name (strings.TrimSpace ->
// Model_strings_TrimSpace) and executes these bodies symbolically. Each model
// is validated against the real function natively (see rt/models_test).

func isSpaceASCII(c byte) bool {
	return c == ' ' || c == '\t' || c == '\n' || c == '\v' || c == '\f' || c == '\r'
}

// Model_strings_TrimSpace: ASCII white space plus the two-byte encodings of
// U+0085 and U+00A0; other non-ASCII spaces (U+1680, U+2000.., U+3000) are
// handled as in unicode.IsSpace for the three-byte range.
func Model_strings_TrimSpace(s string) string {
	start := 0
	for start < len(s) {
		c := s[start]
		if isSpaceASCII(c) {
			start++
			continue
		}
		if c >= 0x80 {
			w := spaceRuneAt(s[start:])
			if w > 0 {
				start += w
				continue
			}
		}
		break
	}
	stop := len(s)
	for stop > start {
		c := s[stop-1]
		if isSpaceASCII(c) {
			stop--
			continue
		}
		if c >= 0x80 {
			w := spaceRuneBefore(s[start:stop])
			if w > 0 {
				stop -= w
				continue
			}
		}
		break
	}
	return s[start:stop]
}

// spaceRuneAt returns the width of a non-ASCII Unicode space at the start of s, or 0.
func spaceRuneAt(s string) int {
	if len(s) >= 2 && s[0] == 0xC2 && (s[1] == 0x85 || s[1] == 0xA0) {
		return 2
	}
	if len(s) >= 3 {
		if s[0] == 0xE1 && s[1] == 0x9A && s[2] == 0x80 { // U+1680
			return 3
		}
		if s[0] == 0xE2 && s[1] == 0x80 && ((s[2] >= 0x80 && s[2] <= 0x8A) || s[2] == 0xA8 || s[2] == 0xA9 || s[2] == 0xAF) {
			return 3
		}
		if s[0] == 0xE2 && s[1] == 0x81 && s[2] == 0x9F { // U+205F
			return 3
		}
		if s[0] == 0xE3 && s[1] == 0x80 && s[2] == 0x80 { // U+3000
			return 3
		}
	}
	return 0
}

func spaceRuneBefore(s string) int {
	if len(s) >= 2 && spaceRuneAt(s[len(s)-2:]) == 2 {
		return 2
	}
	if len(s) >= 3 && spaceRuneAt(s[len(s)-3:]) == 3 {
		return 3
	}
	return 0
}

// Model_encoding_hex_Dump: one line whose length depends on the input length
// only (hex dumps appear in error messages; harnesses never assert on them).
// The callers' own slicing of the data runs as real code.
func Model_encoding_hex_Dump(data []byte) string {
	s := "00000000  "
	for range data {
		s += "00 "
	}
	return s + "\n"
}
