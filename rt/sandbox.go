package zz_verifrt

// Native-replay sandbox for path-containment harnesses: Root maps the
// harness' abstract root (e.g. "/r/db") into a fresh temporary directory that
// also holds sibling sentinels; NativeEscapes reports whether anything outside
// the root changed. Under the engine Root is the identity and NativeEscapes is
// false (the engine checks the recorded file-system trace instead).

import (
	"archive/zip"
	"fmt"
	"hash/crc32"
	"io/fs"
	"os"
	"path/filepath"
	"strings"
)

var (
	sandboxDir  string
	sandboxRoot string
	sandboxSnap map[string]string
)

// Root (INTRINSIC: identity under the engine).
func Root(abstract string) string {
	dir, err := os.MkdirTemp("", "verif-sandbox-")
	if err != nil {
		panic(err)
	}
	sandboxDir = dir
	sandboxRoot = filepath.Join(dir, filepath.FromSlash(abstract))
	_ = os.MkdirAll(sandboxRoot, 0o700)
	parent := filepath.Dir(sandboxRoot)
	base := filepath.Base(sandboxRoot)
	// siblings that merely share the root's name as a prefix, and others
	_ = os.MkdirAll(filepath.Join(parent, base+"2"), 0o700)
	_ = os.WriteFile(filepath.Join(parent, base+"2", "x"), []byte("sentinel"), 0o600)
	_ = os.WriteFile(filepath.Join(parent, base+"x"), []byte("sentinel"), 0o600)
	_ = os.WriteFile(filepath.Join(parent, "o"), []byte("sentinel"), 0o600)
	_ = os.WriteFile(filepath.Join(dir, "top"), []byte("sentinel"), 0o600)
	// make every directory's mode distinctive so that a chmod shows up
	_ = filepath.Walk(dir, func(p string, info fs.FileInfo, err error) error {
		if err == nil && info.IsDir() {
			_ = os.Chmod(p, 0o700)
		}
		return nil
	})
	sandboxSnap = snapshot()
	fmt.Printf("VERIF-SANDBOX %s %s\n", sandboxDir, sandboxRoot)
	_, _ = os.Stat("/VERIF-MARK-BEGIN") // delimiter in the system-call trace
	return sandboxRoot
}

func snapshot() map[string]string {
	m := map[string]string{}
	_ = filepath.Walk(sandboxDir, func(p string, info fs.FileInfo, err error) error {
		if err != nil {
			return nil
		}
		if p == sandboxRoot || strings.HasPrefix(p, sandboxRoot+string(filepath.Separator)) {
			if info.IsDir() && p != sandboxRoot {
				return filepath.SkipDir
			}
			if p != sandboxRoot {
				return nil
			}
			return nil
		}
		sz := info.Size()
		if info.IsDir() {
			sz = 0
		}
		m[p] = info.Mode().String() + ":" + itoa(int(sz))
		return nil
	})
	return m
}

// NativeEscapes (INTRINSIC: false under the engine) reports whether anything
// outside the sandbox root was created, removed or changed since Root().
func NativeEscapes() bool {
	if sandboxDir == "" {
		return false
	}
	_, _ = os.Stat("/VERIF-MARK-END")
	now := snapshot()
	esc := false
	for p, v := range sandboxSnap {
		if now[p] != v {
			esc = true
		}
	}
	for p := range now {
		if _, ok := sandboxSnap[p]; !ok {
			esc = true
		}
	}
	_ = os.RemoveAll(sandboxDir)
	sandboxDir = ""
	return esc
}

var zipNames []string

// ZipMaterialize (INTRINSIC: no-op under the engine) writes a real archive with
// the entries registered through ZipEntry, for native replay.
func ZipMaterialize(path string) {
	_ = os.MkdirAll(filepath.Dir(path), 0o700)
	f, err := os.Create(path)
	if err != nil {
		return
	}
	defer f.Close()
	zw := zip.NewWriter(f)
	for _, n := range zipNames {
		switch zipDamage[n] {
		case 1: // the header announces two bytes, one is there
			w, err := zw.CreateRaw(&zip.FileHeader{Name: n, Method: zip.Store, CompressedSize64: 1, UncompressedSize64: 2, CRC32: crc32.ChecksumIEEE([]byte("xy"))})
			if err == nil {
				_, _ = w.Write([]byte("x"))
			}
			continue
		case 2: // wrong checksum
			w, err := zw.CreateRaw(&zip.FileHeader{Name: n, Method: zip.Store, CompressedSize64: 1, UncompressedSize64: 1, CRC32: 12345})
			if err == nil {
				_, _ = w.Write([]byte("x"))
			}
			continue
		}
		w, err := zw.CreateHeader(&zip.FileHeader{Name: n, Method: zip.Store})
		if err == nil && !strings.HasSuffix(n, "/") {
			_, _ = w.Write([]byte("x"))
		}
	}
	_ = zw.Close()
}

// NativeExtraFiles (INTRINSIC: false under the engine) reports whether the
// sandbox root contains any file or directory that is neither one of the
// allowed paths nor below/above one of them.
func NativeExtraFiles(allowed ...string) bool {
	if sandboxRoot == "" {
		return false
	}
	extra := false
	_ = filepath.Walk(sandboxRoot, func(p string, info fs.FileInfo, err error) error {
		if err != nil || p == sandboxRoot {
			return nil
		}
		for _, a := range allowed {
			if p == a || strings.HasPrefix(p, a+string(filepath.Separator)) || strings.HasPrefix(a, p+string(filepath.Separator)) {
				return nil
			}
		}
		fmt.Println("VERIF-EXTRA-FILE", p)
		extra = true
		return nil
	})
	return extra
}

// NativeSubRoot (INTRINSIC: no-op under the engine) declares a narrower root
// for creating system calls, checked by the replay driver on the strace output
// for obligations whose id contains tag.
func NativeSubRoot(tag, path string) {
	fmt.Printf("VERIF-SUBROOT %s %s\n", tag, path)
}

// FsCreateFile (INTRINSIC: no-op) creates a real file for native replay.
func FsCreateFile(path string) {
	_ = os.MkdirAll(filepath.Dir(path), 0o700)
	_ = os.WriteFile(path, []byte("x"), 0o600)
}

// FsRemoved (INTRINSIC: trace lookup) reports whether path was removed; natively
// whether the file created by FsCreateFile is gone.
func FsRemoved(path string) bool {
	_, err := os.Lstat(path)
	return err != nil
}

// NativeAtomicTmpDir (INTRINSIC: no-op) declares (and creates) the temporary
// directory the caller asked for: the replay driver checks on the strace
// output that the published file was prepared there.
func NativeAtomicTmpDir(path string) {
	_ = os.MkdirAll(path, 0o700)
	fmt.Printf("VERIF-ATOMIC-TMPDIR %s\n", path)
}

// NativeAtomicDest (INTRINSIC: no-op) declares a destination whose publication
// the replay driver checks on the real system calls (strace).
func NativeAtomicDest(path string) {
	_ = os.MkdirAll(filepath.Dir(path), 0o700)
	fmt.Printf("VERIF-ATOMIC-DEST %s\n", path)
}

// NativeEnd (INTRINSIC: no-op) marks the end of the operation under test in
// the system-call trace.
func NativeEnd() { _, _ = os.Stat("/VERIF-MARK-END") }

// Abs maps an abstract absolute path into the sandbox (identity under the
// engine), so that arbitrary absolute paths mean the same in both runs.
func Abs(p string) string {
	if Symbolic() || sandboxDir == "" || !strings.HasPrefix(p, "/") {
		return p
	}
	return sandboxDir + p
}
