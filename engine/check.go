package main

// `symgo check <property>`: the registered check command. Loads the property's
// harness configuration, explores every harness with the solver, replays
// counterexamples natively, prints the verdict lines and writes the evidence.

import (
	"bytes"
	"encoding/json"
	"flag"
	"fmt"
	"os"
	"os/exec"
	"path/filepath"
	"regexp"
	"runtime"
	"sort"
	"strconv"
	"strings"
	"time"

	"golang.org/x/tools/go/ssa"
)

type GroupCfg struct {
	Package    string   `json:"package"` // directory relative to the repo root
	Files      []string `json:"files"`   // harness files relative to the property dir
	Init       []string `json:"init"`    // extra packages whose init is executed
	Fn         string   `json:"fn"`      // regexp of entry functions (default ^Verif<ID>_)
	Disable    []string `json:"disable"` // intrinsics disabled for this group
	Quick      string   `json:"quick"`   // regexp of entries run in the quick tier (default all)
	Globals    []string `json:"globals"` // globals that may be read zero-initialised
	MaxPaths   int      `json:"max_paths"`
	Unwind     int      `json:"unwind"`
	FanOut     int      `json:"fanout"`
	MaxSteps   int64    `json:"max_steps"`
	ZeroStubs  []string `json:"zero_stubs"`
	SkipInit   bool     `json:"skip_init"`  // do not run the package's own init; the harness sets the globals it needs
	Selfcheck  bool     `json:"selfcheck"`  // translation validation: sampled paths are re-run natively and observations compared
	Strace     bool     `json:"strace"`     // native replay under strace: real system-call paths are checked against the sandbox root
	Instrument []string `json:"instrument"` // repo files (relative) that get Yield points (G2)
}

type PropCfg struct {
	Property        string            `json:"property"`
	Groups          []GroupCfg        `json:"groups"`
	Bounds          map[string]string `json:"bounds"`
	Assumptions     []string          `json:"assumptions"`
	Outside         []string          `json:"outside_claim"`
	Granularity     string            `json:"granularity"`
	QuickBudgetS    int               `json:"quick_budget_s"`
	ThoroughBudgetS int               `json:"thorough_budget_s"`
}

type KnownFinding struct {
	ID       string   `json:"id"`
	Property string   `json:"property"`
	Asserts  []string `json:"asserts"`
	What     string   `json:"what"`
}

type KnownFile struct {
	Findings []KnownFinding `json:"findings"`
	Fixed    []string       `json:"fixed"`
}

func loadKnown(verif string) KnownFile {
	var kf KnownFile
	b, err := os.ReadFile(filepath.Join(verif, "known_findings.json"))
	if err == nil {
		if err := json.Unmarshal(b, &kf); err != nil {
			fmt.Fprintln(os.Stderr, "known_findings.json:", err)
			os.Exit(2)
		}
	}
	return kf
}

type replayOutcome struct {
	Path       string `json:"path"`
	Reproduced bool   `json:"reproduced"`
	Detail     string `json:"detail"`
}

func cmdCheck(args []string) {
	fs := flag.NewFlagSet("check", flag.ExitOnError)
	repo := fs.String("repo", "/repo", "repository root")
	verif := fs.String("verif", "/verif", "verif root")
	tier := fs.String("tier", "", "quick|thorough")
	replay := fs.String("replay", "", "replay a recorded counterexample")
	jobs := fs.Int("jobs", runtime.NumCPU(), "workers")
	only := fs.String("only", "", "regexp restricting harness entries")
	noReplay := fs.Bool("no-replay", false, "skip native replay (diagnostics only)")
	outDir := fs.String("out", "", "directory for evidence and replay files (default <verif>/evidence)")
	var id string
	// allow `check C10 --tier quick`
	if len(args) > 0 && !strings.HasPrefix(args[0], "-") {
		id = args[0]
		args = args[1:]
	}
	fs.Parse(args)
	if id == "" && fs.NArg() > 0 {
		id = fs.Arg(0)
	}
	if *tier == "" {
		*tier = os.Getenv("VERIF_TIER")
	}
	if *tier == "" {
		*tier = "quick"
	}
	seed := 0
	if s := os.Getenv("VERIF_SEED"); s != "" {
		seed, _ = strconv.Atoi(s)
	}
	pdir := filepath.Join(*verif, "harness", id)
	var pc PropCfg
	b, err := os.ReadFile(filepath.Join(pdir, "config.json"))
	if err != nil {
		fmt.Fprintln(os.Stderr, "no harness config for", id, err)
		os.Exit(2)
	}
	if err := json.Unmarshal(b, &pc); err != nil {
		fmt.Fprintln(os.Stderr, "config.json:", err)
		os.Exit(2)
	}
	if *replay != "" {
		os.Exit(replayOnly(*repo, *verif, id, pc, *replay))
	}
	kf := loadKnown(*verif)
	known := map[string]map[string]bool{}
	knownWhat := map[string]string{}
	for _, f := range kf.Findings {
		if f.Property != id {
			continue
		}
		set := map[string]bool{}
		for _, a := range f.Asserts {
			set[a] = true
		}
		known[f.ID] = set
		knownWhat[f.ID] = f.What
	}
	budget := pc.QuickBudgetS
	if budget == 0 {
		budget = 240
	}
	if *tier == "thorough" {
		budget = pc.ThoroughBudgetS
		if budget == 0 {
			budget = 1500
		}
	}
	t0 := time.Now()
	deadline := t0.Add(time.Duration(budget) * time.Second)
	scratch, err := os.MkdirTemp("", "symgo-"+id+"-")
	if err != nil {
		fmt.Fprintln(os.Stderr, err)
		os.Exit(2)
	}
	defer os.RemoveAll(scratch)

	var results []*HarnessResult
	selfOK, selfBad := 0, 0
	var selfDetail []string
	var loadS float64
	engineErr := ""
	staticReach := map[string]bool{}
	funcs := map[string]int{}
	stubs := map[string]int{}
	type pending struct {
		v     Violation
		group GroupCfg
	}
	var newViol, knownViol []pending
	for gi, g := range pc.Groups {
		var hf []string
		for _, f := range g.Files {
			hf = append(hf, filepath.Join(pdir, f))
		}
		ov, err := buildOverlay(*repo, *verif, g.Package, hf)
		if err != nil {
			fmt.Fprintln(os.Stderr, err)
			os.Exit(2)
		}
		if len(g.Instrument) > 0 {
			if err := instrumentYields(*repo, g.Instrument, ov); err != nil {
				fmt.Fprintln(os.Stderr, "instrument:", err)
				os.Exit(2)
			}
		}
		tl := time.Now()
		pkgPath := "github.com/safing/portbase/" + g.Package
		inits := append([]string{}, g.Init...)
		if !g.SkipInit {
			inits = append(inits, pkgPath)
		}
		ld, err := loadProgram(*repo, ov, []string{"./" + g.Package}, inits)
		if err != nil {
			// The harness no longer type-checks against the tree: machinery
			// error, no verdict.
			fmt.Printf("ENGINE-ERROR property=%s group=%s: %v\n", id, g.Package, err)
			engineErr = err.Error()
			continue
		}
		for _, gl := range g.Globals {
			ld.globalAllow[gl] = true
		}
		for _, z := range g.ZeroStubs {
			ld.zeroStubs[z] = true
		}
		if g.SkipInit {
			ld.zeroPkgs[pkgPath] = true
		}
		loadS += time.Since(tl).Seconds()
		pkg := ld.pkgs[pkgPath]
		pkg.Build()
		fnRe := g.Fn
		if fnRe == "" {
			fnRe = "^Verif" + id + "_"
		}
		re := regexp.MustCompile(fnRe)
		var quickRe *regexp.Regexp
		if g.Quick != "" {
			quickRe = regexp.MustCompile(g.Quick)
		}
		var onlyRe *regexp.Regexp
		if *only != "" {
			onlyRe = regexp.MustCompile(*only)
		}
		entries := harnessEntries(pkg, re)
		cfg := defaultConfig()
		cfg.Known = known
		cfg.Thorough = *tier == "thorough"
		if cfg.Thorough {
			cfg.TimeoutMs = 60000
			cfg.Cross = "z3-new" // cross-solver diff of every assertion obligation
		}
		if c := os.Getenv("SYMGO_CROSS"); c != "" {
			cfg.Cross = c
		}
		if g.Unwind > 0 {
			cfg.Unwind = g.Unwind
		}
		if g.FanOut > 0 {
			cfg.FanOut = g.FanOut
		}
		if g.MaxSteps > 0 {
			cfg.MaxSteps = g.MaxSteps
		}
		if g.Selfcheck {
			cfg.SelfSamples = 2 // per worker
			if *tier == "thorough" {
				cfg.SelfSamples = 6
			}
		}
		cfg.Disable = map[string]bool{}
		for _, d := range g.Disable {
			cfg.Disable[d] = true
		}
		ld.disable = cfg.Disable
		var selected []*ssa.Function
		for _, fn := range entries {
			if *tier == "quick" && quickRe != nil && !quickRe.MatchString(fn.Name()) {
				continue
			}
			if onlyRe != nil && !onlyRe.MatchString(fn.Name()) {
				continue
			}
			selected = append(selected, fn)
		}
		for fi, fn := range selected {
			collectReach(fn, staticReach, map[*ssa.Function]bool{})
			// fair share of the remaining budget (x1.5), so that one slow
			// harness cannot starve the others
			left := len(selected) - fi + (len(pc.Groups)-gi-1)*2
			remaining := time.Until(deadline) * 3 / time.Duration(2*left)
			if remaining < 10*time.Second {
				remaining = 10 * time.Second
			}
			hr := runHarness(ld, cfg, pkg, fn, *jobs, time.Now().Add(remaining), g.MaxPaths)
			hr.Group = gi
			results = append(results, hr)
			if g.Selfcheck && len(hr.SelfSamples) > 0 && !*noReplay {
				ok, bad, detail := nativeSelfcheck(*repo, *verif, pdir, g, hr, *tier, scratch)
				selfOK += ok
				selfBad += bad
				if bad > 0 {
					selfDetail = append(selfDetail, hr.Harness+": "+detail)
				}
			}
			for k, n := range hr.Funcs {
				funcs[k] += n
			}
			for k, n := range hr.Stubs {
				stubs[k] += n
			}
			for _, v := range hr.Violations {
				if v.Known != "" {
					knownViol = append(knownViol, pending{v, g})
				} else {
					newViol = append(newViol, pending{v, g})
				}
			}
			if hr.EngineError != "" && engineErr == "" {
				engineErr = hr.Harness + ": " + hr.EngineError
			}
		}
	}

	// ---- verdict ----
	exit := 0
	var lines []string
	var replays []replayOutcome
	evDir := filepath.Join(*verif, "evidence")
	if *outDir != "" {
		evDir = *outDir
	}
	replayDir := filepath.Join(evDir, "replay")
	os.MkdirAll(replayDir, 0o755)
	// remove stale replay files of this property
	if old, _ := filepath.Glob(filepath.Join(replayDir, id+"-*.json")); old != nil {
		for _, f := range old {
			os.Remove(f)
		}
	}
	writeReplay := func(p pending, n int) string {
		rf := map[string]interface{}{
			"property": id, "harness": p.v.Harness, "package": p.group.Package, "assert": p.v.ID,
			"kind": p.v.Kind, "msg": p.v.Msg, "known": p.v.Known, "site": p.v.Site, "model": p.v.Model, "tier": *tier,
		}
		b, _ := json.MarshalIndent(rf, "", " ")
		name := fmt.Sprintf("%s-%s-%d.json", id, sanitize(p.v.Harness+"-"+p.v.ID), n)
		path := filepath.Join(replayDir, name)
		os.WriteFile(path, b, 0o644)
		return path
	}
	unconfirmed := 0
	seenKnown := map[string]bool{}
	for _, p := range knownViol {
		if seenKnown[p.v.Known] {
			continue
		}
		seenKnown[p.v.Known] = true
		lines = append(lines, fmt.Sprintf("KNOWN-FINDING: property=%s %s: %s (harness %s, obligation %s)", id, p.v.Known, knownWhat[p.v.Known], p.v.Harness, p.v.ID))
	}
	violations := 0
	// counterexamples of one obligation (alternates from different paths) are
	// tried in turn until one reproduces natively
	vkey := func(p pending) string {
		return p.v.Harness + "|" + p.v.ID + "|" + p.v.Kind + "|" + p.v.Site
	}
	confirmedKey := map[string]bool{}
	firstFail := map[string]string{}
	var keyOrder []string
	for i, p := range newViol {
		k := vkey(p)
		if confirmedKey[k] {
			continue
		}
		if _, seen := firstFail[k]; !seen {
			keyOrder = append(keyOrder, k)
			firstFail[k] = ""
		}
		path := writeReplay(p, i)
		if *noReplay {
			if firstFail[k] == "" {
				firstFail[k] = fmt.Sprintf("UNREPLAYED property=%s harness=%s obligation=%s kind=%s msg=%q site=%s replay=%s", id, p.v.Harness, p.v.ID, p.v.Kind, p.v.Msg, p.v.Site, path)
			}
			continue
		}
		ok, detail := nativeReplay(*repo, *verif, pdir, id, p.group, path, scratch)
		for try := 0; !ok && try < 2 && strings.HasPrefix(detail, "assertion held natively"); try++ {
			// schedules and timing of concurrent harnesses are not forced
			// natively: a counterexample gets three attempts to reproduce
			ok, detail = nativeReplay(*repo, *verif, pdir, id, p.group, path, scratch)
		}
		replays = append(replays, replayOutcome{path, ok, detail})
		if ok {
			violations++
			exit = 1
			confirmedKey[k] = true
			lines = append(lines, fmt.Sprintf("VIOLATION property=%s replay=%s", id, path))
			lines = append(lines, fmt.Sprintf("  harness=%s obligation=%s kind=%s %s %s", p.v.Harness, p.v.ID, p.v.Kind, p.v.Msg, p.v.Site))
		} else if firstFail[k] == "" {
			firstFail[k] = fmt.Sprintf("UNCONFIRMED property=%s harness=%s obligation=%s (solver counterexample did not reproduce natively: %s) replay=%s", id, p.v.Harness, p.v.ID, detail, path)
		}
	}
	for _, k := range keyOrder {
		if !confirmedKey[k] {
			lines = append(lines, firstFail[k])
			unconfirmed++
		}
	}
	// vacuity
	reached := map[string]bool{}
	var inconclusive []string
	paths, steps, asserts, nontriv, queries := 0, int64(0), 0, 0, 0
	solverS := 0.0
	outcomes := map[string]int{}
	for _, hr := range results {
		for _, r := range hr.Reaches {
			reached[r] = true
		}
		paths += hr.Paths
		steps += hr.Steps
		asserts += hr.Asserts
		nontriv += hr.NonTrivial
		queries += hr.Solver.Queries
		solverS += hr.Solver.Seconds
		for k, n := range hr.Outcomes {
			outcomes[k] += n
		}
		for _, s := range hr.Truncated {
			inconclusive = append(inconclusive, hr.Harness+": truncated: "+s)
		}
		for _, s := range hr.Unsupported {
			inconclusive = append(inconclusive, hr.Harness+": unsupported: "+s)
		}
		for _, s := range hr.Incon {
			inconclusive = append(inconclusive, hr.Harness+": solver: "+s)
		}
	}
	var vacuous []string
	for r := range staticReach {
		if !reached[r] {
			vacuous = append(vacuous, r)
		}
	}
	sort.Strings(vacuous)
	for _, v := range vacuous {
		inconclusive = append(inconclusive, "vacuity witness not reached: "+v)
	}
	for _, s := range inconclusive {
		lines = append(lines, fmt.Sprintf("INCONCLUSIVE property=%s reason=%s", id, s))
	}
	for _, d := range selfDetail {
		lines = append(lines, fmt.Sprintf("TRANSLATION-MISMATCH property=%s %s", id, d))
		if engineErr == "" {
			engineErr = "translation validation failed: " + d
		}
	}
	if engineErr != "" {
		lines = append(lines, fmt.Sprintf("ENGINE-ERROR property=%s %s", id, engineErr))
	}
	if exit == 0 && engineErr == "" && len(inconclusive) == 0 && unconfirmed == 0 {
		lines = append(lines, fmt.Sprintf("HOLDS property=%s tier=%s harnesses=%d paths=%d assertion_queries=%d solver_queries=%d solver_s=%.1f wall_s=%.1f (within the stated bounds)",
			id, *tier, len(results), paths, asserts, queries, solverS, time.Since(t0).Seconds()))
	}
	for _, l := range lines {
		fmt.Println(l)
	}

	// ---- evidence ----
	var fnList []string
	for k := range funcs {
		if strings.Contains(k, "zz_verif") {
			continue
		}
		fnList = append(fnList, k)
	}
	sort.Strings(fnList)
	var stubList []string
	for k, n := range stubs {
		if strings.Contains(k, rtPkgPath) {
			continue
		}
		stubList = append(stubList, fmt.Sprintf("%s x%d", k, n))
	}
	sort.Strings(stubList)
	var samples []interface{}
	for _, hr := range results {
		for i, s := range hr.Samples {
			if i >= 2 {
				break
			}
			samples = append(samples, map[string]interface{}{"harness": hr.Harness, "outcome": s.Outcome, "decisions": s.Decisions, "path_condition": s.PC, "inputs": s.Inputs})
		}
	}
	for _, p := range append(append([]pending{}, newViol...), knownViol...) {
		samples = append(samples, map[string]interface{}{"harness": p.v.Harness, "counterexample_for": p.v.ID, "kind": p.v.Kind, "known_finding": p.v.Known, "model": p.v.Model, "msg": p.v.Msg, "site": p.v.Site})
	}
	if len(samples) == 0 {
		samples = append(samples, "no path explored")
	}
	if len(samples) > 60 {
		samples = samples[:60]
	}
	var harnessSumm []interface{}
	for _, hr := range results {
		harnessSumm = append(harnessSumm, map[string]interface{}{
			"harness": hr.Harness, "package": hr.Package, "paths": hr.Paths, "outcomes": hr.Outcomes,
			"ssa_instructions": hr.Steps, "assertion_queries": hr.Asserts, "assertions_constant_true": hr.Trivial,
			"solver_queries": hr.Solver.Queries, "solver_sat": hr.Solver.Sat, "solver_unsat": hr.Solver.Unsat,
			"solver_unknown": hr.Solver.Unknown, "solver_s": round2(hr.Solver.Seconds), "wall_s": round2(hr.WallS),
			"max_decisions": hr.MaxDepth, "symbolic_inputs_max": hr.Vars, "reached": hr.Reaches,
			"goroutine_switches": hr.Switches, "cross_checked_obligations": hr.CrossChecked, "cross_solver": hr.CrossSolver, "cross_solver_s": round2(hr.CrossSeconds),
		})
	}
	var knownHit []string
	for k := range seenKnown {
		knownHit = append(knownHit, k)
	}
	sort.Strings(knownHit)
	states := paths
	if states < 1 {
		states = 1
	}
	trans := steps
	if trans < 1 {
		trans = 1
	}
	ev := map[string]interface{}{
		"property_id": id,
		"tier":        *tier,
		"seed":        seed,
		"level":       "model_checking",
		"wall_s":      round2(time.Since(t0).Seconds()),
		"violations":  violations,
		"assumptions": append(append([]string{}, pc.Assumptions...), "environment stubs/intrinsics hit: "+strings.Join(stubList, "; ")),
		"coverage": map[string]interface{}{
			"states":                        states,
			"transitions":                   trans,
			"traces_validated_against_impl": len(replays) + selfOK,
			"translation_validation":        map[string]interface{}{"paths_replayed_natively_with_equal_observations": selfOK, "mismatches": selfBad},
			"samples":                       samples,
			"evaluations":                   asserts,
			"distinct_nontrivial":           nontriv,
			"rule":                          "states = path end states of the bounded symbolic execution (one per feasible decision sequence); transitions = SSA instructions interpreted; evaluations = assertion obligations sent to the SMT solver; distinct_nontrivial = distinct feasible paths on which at least one non-constant obligation was discharged",
			"exhaustive":                    len(inconclusive) == 0 && engineErr == "",
			"technique":                     "bounded symbolic execution of go/ssa built from /repo's working tree; SMT (QF_BV) via " + solverVersion(),
			"functions_encoded":             fnList,
			"bounds":                        pc.Bounds[*tier],
			"outside_claim":                 pc.Outside,
			"granularity":                   pc.Granularity,
			"harnesses":                     harnessSumm,
			"path_outcomes":                 outcomes,
			"solver_queries":                queries,
			"solver_s":                      round2(solverS),
			"package_load_s":                round2(loadS),
			"inconclusive":                  inconclusive,
			"vacuity_witnesses_reached":     len(reached),
			"vacuity_witnesses_missing":     vacuous,
			"known_findings_hit":            knownHit,
			"replays":                       replays,
			"engine_error":                  engineErr,
			"verdict_lines":                 lines,
		},
	}
	eb, _ := json.MarshalIndent(ev, "", " ")
	os.MkdirAll(evDir, 0o755)
	if err := os.WriteFile(filepath.Join(evDir, id+".json"), eb, 0o644); err != nil {
		fmt.Fprintln(os.Stderr, err)
	}
	os.RemoveAll(scratch) // (deferred calls do not run on os.Exit)
	if engineErr != "" && exit == 0 {
		// machinery error: no verdict. The contract knows only 0 and 1;
		// report as not-a-violation but flag loudly.
		os.Exit(0)
	}
	os.Exit(exit)
}

func round2(f float64) float64 { return float64(int64(f*100+0.5)) / 100 }

func sanitize(s string) string {
	return regexp.MustCompile(`[^A-Za-z0-9_.-]+`).ReplaceAllString(s, "_")
}

var solverVer string

func solverVersion() string {
	if solverVer == "" {
		out, err := exec.Command("z3", "--version").Output()
		if err == nil {
			solverVer = strings.TrimSpace(string(out))
		} else {
			solverVer = "z3"
		}
	}
	return solverVer
}

// collectReach gathers the constant ids of rt.Reach calls reachable from fn
// within the harness files.
func collectReach(fn *ssa.Function, out map[string]bool, seen map[*ssa.Function]bool) {
	if fn == nil || seen[fn] || fn.Blocks == nil {
		return
	}
	seen[fn] = true
	for _, b := range fn.Blocks {
		for _, in := range b.Instrs {
			call, ok := in.(ssa.CallInstruction)
			if !ok {
				continue
			}
			cc := call.Common()
			callee := cc.StaticCallee()
			if callee == nil {
				continue
			}
			if callee.String() == rtPkgPath+".Reach" {
				if c, ok := cc.Args[0].(*ssa.Const); ok {
					out[strings.Trim(c.Value.ExactString(), "\"")] = true
				}
				continue
			}
			if callee.Pkg == fn.Pkg && callee.Pkg != nil {
				pos := fn.Prog.Fset.Position(callee.Pos())
				if strings.Contains(filepath.Base(pos.Filename), "zz_verif_") {
					collectReach(callee, out, seen)
				}
			}
		}
	}
	for _, af := range fn.AnonFuncs {
		collectReach(af, out, seen)
	}
}

// ---------- native replay ----------

func replayTestSource(pkgName string, entries []string) string {
	var sb strings.Builder
	fmt.Fprintf(&sb, "package %s\n\nimport (\n\t\"testing\"\n\trt \"github.com/safing/portbase/zz_verifrt\"\n)\n\n", pkgName)
	sb.WriteString("func TestVerifReplay(t *testing.T) {\n\trt.RunReplay(map[string]func(){\n")
	for _, e := range entries {
		fmt.Fprintf(&sb, "\t\t%q: %s,\n", e, e)
	}
	sb.WriteString("\t})\n}\n")
	return sb.String()
}

var entryRe = regexp.MustCompile(`(?m)^func (VerifC[0-9][A-Za-z0-9_]+)\(\)`)
var pkgRe = regexp.MustCompile(`(?m)^package ([A-Za-z0-9_]+)`)

// nativeReplay runs the harness natively under `go test -overlay` with the
// recorded model and reports whether the violation reproduces.
func nativeReplay(repo, verif, pdir, id string, g GroupCfg, replayPath, scratch string) (bool, string) {
	var rf struct {
		Harness string `json:"harness"`
		Assert  string `json:"assert"`
		Kind    string `json:"kind"`
	}
	b, err := os.ReadFile(replayPath)
	if err != nil {
		return false, err.Error()
	}
	json.Unmarshal(b, &rf)
	replace := map[string]string{}
	rtFiles, _ := filepath.Glob(filepath.Join(verif, "rt", "*.go"))
	for _, f := range rtFiles {
		replace[filepath.Join(repo, "zz_verifrt", filepath.Base(f))] = f
	}
	var entries []string
	pkgName := ""
	for _, f := range g.Files {
		src := filepath.Join(pdir, f)
		replace[filepath.Join(repo, g.Package, "zz_verif_"+filepath.Base(f))] = src
		sb, _ := os.ReadFile(src)
		for _, m := range entryRe.FindAllStringSubmatch(string(sb), -1) {
			entries = append(entries, m[1])
		}
		if m := pkgRe.FindStringSubmatch(string(sb)); m != nil {
			pkgName = m[1]
		}
	}
	testFile := filepath.Join(scratch, "replay_"+sanitize(g.Package)+"_test.go")
	os.WriteFile(testFile, []byte(replayTestSource(pkgName, entries)), 0o644)
	replace[filepath.Join(repo, g.Package, "zz_verif_replay_test.go")] = testFile
	if len(g.Instrument) > 0 {
		ov := map[string][]byte{}
		if err := instrumentYields(repo, g.Instrument, ov); err == nil {
			for path, src := range ov {
				tmp := filepath.Join(scratch, "instr_"+sanitize(path))
				os.WriteFile(tmp, src, 0o644)
				replace[path] = tmp
			}
		}
	}
	// The package's own test files are compiled into the replay binary. The
	// modules package's test init ends the process after 30 s: a replay that
	// needs more real time (rt.NativeTimeout) runs with that watchdog relaxed
	// (replay binary only; the test suite itself is untouched).
	if g.Package == "modules" {
		wd := filepath.Join(repo, "modules", "tasks_test.go")
		if src, err := os.ReadFile(wd); err == nil && bytes.Contains(src, []byte("<-time.After(30 * time.Second)")) {
			tmp := filepath.Join(scratch, "modules_tasks_test_relaxed.go")
			os.WriteFile(tmp, bytes.Replace(src, []byte("<-time.After(30 * time.Second)"), []byte("<-time.After(115 * time.Second)"), 1), 0o644)
			replace[wd] = tmp
		}
	}
	ovb, _ := json.Marshal(map[string]interface{}{"Replace": replace})
	ovFile := filepath.Join(scratch, "overlay_"+sanitize(g.Package)+".json")
	os.WriteFile(ovFile, ovb, 0o644)
	// TMPDIR is pinned to the configuration the native oracles were validated
	// with (sandboxes and the code's own temporary files side by side in /tmp)
	env := append(os.Environ(), "GOFLAGS=-mod=mod", "GOPROXY=off", "GOSUMDB=off", "GOTOOLCHAIN=local", "VERIF_REPLAY="+replayPath, "TMPDIR=/tmp")
	var out bytes.Buffer
	var runErr error
	straceEscapes := ""
	straceAtomic := ""
	if g.Strace {
		bin := filepath.Join(scratch, "replay_"+sanitize(g.Package)+".test")
		build := exec.Command("go", "test", "-c", "-vet=off", "-overlay", ovFile, "-o", bin, "./"+g.Package)
		build.Dir = repo
		build.Env = env
		if bo, err := build.CombinedOutput(); err != nil {
			return false, "replay build failed: " + firstLines(string(bo), 6)
		}
		traceFile := filepath.Join(scratch, "strace_"+sanitize(filepath.Base(replayPath))+".txt")
		cmd := exec.Command("strace", "-f", "-y", "-s", "4096", "-e", "trace=%file,write,pwrite64,fsync,fdatasync,close,fchmod,ftruncate", "-o", traceFile, bin, "-test.run", "^TestVerifReplay$", "-test.v", "-test.timeout", "120s")
		cmd.Dir = filepath.Join(repo, g.Package)
		cmd.Env = env
		cmd.Stdout = &out
		cmd.Stderr = &out
		runErr = cmd.Run()
		straceEscapes = sandboxEscapes(out.String(), traceFile, rf.Assert)
		straceAtomic = atomicViolations(out.String(), traceFile)
	} else {
		cmd := exec.Command("go", "test", "-v", "-vet=off", "-count=1", "-timeout", "120s", "-run", "^TestVerifReplay$", "-overlay", ovFile, "./"+g.Package)
		cmd.Dir = repo
		cmd.Env = env
		cmd.Stdout = &out
		cmd.Stderr = &out
		runErr = cmd.Run()
	}
	text := out.String()
	// the sandbox directories of the native run are not needed any more
	for _, l := range strings.Split(text, "\n") {
		if f := strings.Fields(l); len(f) == 3 && f[0] == "VERIF-SANDBOX" && strings.HasPrefix(filepath.Base(f[1]), "verif-sandbox-") {
			os.RemoveAll(f[1])
		}
	}
	if os.Getenv("SYMGO_SHOW_NATIVE") != "" {
		fmt.Fprintln(os.Stderr, text)
	}
	if !strings.Contains(text, "VERIF-REPLAY-BEGIN") {
		return false, "replay did not start: " + firstLines(text, 6)
	}
	if strings.Contains(text, "ASSUME-FALSE") {
		return false, "model violates harness assumption natively"
	}
	if straceEscapes != "" && rf.Kind == "assert" && strings.Contains(rf.Assert, "-inside-") {
		return true, "real system call outside the sandbox root: " + straceEscapes
	}
	if straceAtomic != "" && rf.Kind == "assert" {
		return true, "real system calls violate atomic publication: " + straceAtomic
	}
	switch rf.Kind {
	case "assert":
		if strings.Contains(text, "VERIF-ASSERT-FAILED "+rf.Assert+"\n") {
			return true, "assertion " + rf.Assert + " failed natively"
		}
		if strings.Contains(text, "VERIF-REPLAY-PANIC") || (runErr != nil && strings.Contains(text, "panic:")) {
			return true, "native run panicked before reaching the assertion: " + grepLine(text, "panic")
		}
		return false, "assertion held natively"
	case "panic":
		if strings.Contains(text, "VERIF-REPLAY-PANIC") || strings.Contains(text, "panic:") || strings.Contains(text, "fatal error:") {
			return true, "panicked natively: " + grepLine(text, "panic")
		}
		return false, "no panic natively"
	case "deadlock":
		if strings.Contains(text, "VERIF-REPLAY-TIMEOUT") || strings.Contains(text, "all goroutines are asleep") || strings.Contains(text, "test timed out") {
			return true, "blocked natively"
		}
		return false, "no deadlock natively"
	}
	return false, "unknown violation kind " + rf.Kind
}

func firstLines(s string, n int) string {
	ls := strings.Split(strings.TrimSpace(s), "\n")
	if len(ls) > n {
		ls = ls[:n]
	}
	return strings.Join(ls, " | ")
}

func grepLine(s, sub string) string {
	for _, l := range strings.Split(s, "\n") {
		if strings.Contains(l, sub) {
			return strings.TrimSpace(l)
		}
	}
	return ""
}

func replayOnly(repo, verif, id string, pc PropCfg, path string) int {
	if abs, err := filepath.Abs(path); err == nil {
		path = abs
	}
	var rf struct {
		Package string `json:"package"`
	}
	b, err := os.ReadFile(path)
	if err != nil {
		fmt.Fprintln(os.Stderr, err)
		return 2
	}
	json.Unmarshal(b, &rf)
	scratch, _ := os.MkdirTemp("", "symgo-replay-")
	defer os.RemoveAll(scratch)
	for _, g := range pc.Groups {
		if g.Package == rf.Package {
			ok, detail := nativeReplay(repo, verif, filepath.Join(verif, "harness", id), id, g, path, scratch)
			if ok {
				fmt.Printf("VIOLATION property=%s replay=%s\n  %s\n", id, path, detail)
				return 1
			}
			fmt.Printf("NOT-REPRODUCED property=%s replay=%s: %s\n", id, path, detail)
			return 0
		}
	}
	fmt.Fprintln(os.Stderr, "no group for package", rf.Package)
	return 2
}

var quotedRe = regexp.MustCompile(`"((?:[^"\\]|\\.)*)"`)

// sandboxEscapes scans the strace output between the harness' marker calls
// for path arguments that lie in the sandbox directory but outside its root.
func sandboxEscapes(stdout, traceFile, assertID string) string {
	dir, root := "", ""
	createOnly := false
	for _, l := range strings.Split(stdout, "\n") {
		if strings.HasPrefix(l, "VERIF-SANDBOX ") {
			f := strings.Fields(l)
			if len(f) == 3 {
				dir, root = f[1], f[2]
			}
		}
	}
	// a harness may declare a narrower root for creating calls, used for
	// obligations whose id names it ("...-inside-<tag>...")
	for _, l := range strings.Split(stdout, "\n") {
		if strings.HasPrefix(l, "VERIF-SUBROOT ") {
			f := strings.Fields(l)
			if len(f) == 3 && strings.Contains(assertID, f[1]) {
				root = f[2]
				createOnly = true
			}
		}
	}
	if dir == "" {
		return ""
	}
	b, err := os.ReadFile(traceFile)
	if err != nil {
		return ""
	}
	active := false
	for _, l := range strings.Split(string(b), "\n") {
		if strings.Contains(l, "/VERIF-MARK-BEGIN") {
			active = true
			continue
		}
		if strings.Contains(l, "/VERIF-MARK-END") {
			active = false
			continue
		}
		if !active {
			continue
		}
		if createOnly && !strings.Contains(l, "O_CREAT") && !strings.Contains(l, "mkdir") {
			continue
		}
		for _, m := range quotedRe.FindAllStringSubmatch(l, -1) {
			p := m[1]
			if p != dir && !strings.HasPrefix(p, dir+"/") {
				continue
			}
			if p == root || strings.HasPrefix(p, root+"/") {
				continue
			}
			if i := strings.Index(l, " "); i > 0 {
				l = l[i+1:]
			}
			return l
		}
	}
	return ""
}

// ---------- native atomic-publication automaton on real system calls ----------

var straceLineRe = regexp.MustCompile(`^(\d+)\s+(.*)$`)
var fdPathRe = regexp.MustCompile(`^\w+\((\d+)<([^>]*)>`)

// joinStrace re-assembles "<unfinished ...>" / "<... resumed>" pairs.
func joinStrace(text string) []string {
	pending := map[string]string{}
	var out []string
	for _, l := range strings.Split(text, "\n") {
		m := straceLineRe.FindStringSubmatch(l)
		if m == nil {
			continue
		}
		pid, rest := m[1], m[2]
		if i := strings.Index(rest, " <unfinished ...>"); i >= 0 {
			pending[pid] = rest[:i]
			continue
		}
		if strings.HasPrefix(rest, "<... ") {
			if j := strings.Index(rest, " resumed>"); j >= 0 {
				rest = pending[pid] + rest[j+len(" resumed>"):]
				delete(pending, pid)
			}
		}
		out = append(out, rest)
	}
	return out
}

// atomicViolations checks, on the real system calls between the harness
// markers, that every rename onto a declared destination is preceded by a
// successful fsync (after the last write) and close of the renamed file, and
// that the destination is never opened for writing or unlinked.
func atomicViolations(stdout, traceFile string) string {
	var dests []string
	for _, l := range strings.Split(stdout, "\n") {
		if strings.HasPrefix(l, "VERIF-ATOMIC-DEST ") {
			dests = append(dests, strings.TrimSpace(strings.TrimPrefix(l, "VERIF-ATOMIC-DEST ")))
		}
	}
	// a temporary directory the caller asked for
	tmpDir := ""
	for _, l := range strings.Split(stdout, "\n") {
		if strings.HasPrefix(l, "VERIF-ATOMIC-TMPDIR ") {
			tmpDir = strings.TrimSpace(strings.TrimPrefix(l, "VERIF-ATOMIC-TMPDIR "))
		}
	}
	if len(dests) == 0 {
		return ""
	}
	b, err := os.ReadFile(traceFile)
	if err != nil {
		return ""
	}
	isDest := func(p string) bool {
		for _, d := range dests {
			if p == d {
				return true
			}
		}
		return false
	}
	type fileState struct{ lastWrite, syncAt, closeAt int }
	files := map[string]*fileState{}
	get := func(p string) *fileState {
		if files[p] == nil {
			files[p] = &fileState{-1, -1, -1}
		}
		return files[p]
	}
	active := false
	for i, l := range joinStrace(string(b)) {
		if strings.Contains(l, "/VERIF-MARK-BEGIN") {
			active = true
			continue
		}
		if strings.Contains(l, "/VERIF-MARK-END") {
			active = false
			continue
		}
		if !active {
			continue
		}
		okRet := strings.Contains(l, ") = 0") || regexp.MustCompile(`\) = \d+`).MatchString(l)
		name := l
		if j := strings.Index(l, "("); j > 0 {
			name = l[:j]
		}
		switch name {
		case "write", "pwrite64", "fchmod", "ftruncate":
			if m := fdPathRe.FindStringSubmatch(l); m != nil {
				get(m[2]).lastWrite = i
			}
		case "fsync", "fdatasync":
			if m := fdPathRe.FindStringSubmatch(l); m != nil && strings.Contains(l, ") = 0") {
				get(m[2]).syncAt = i
			}
		case "close":
			if m := fdPathRe.FindStringSubmatch(l); m != nil && strings.Contains(l, ") = 0") {
				get(m[2]).closeAt = i
			}
		case "openat", "open", "creat":
			qs := quotedRe.FindAllStringSubmatch(l, -1)
			if len(qs) > 0 && isDest(qs[0][1]) && (strings.Contains(l, "O_WRONLY") || strings.Contains(l, "O_RDWR") || strings.Contains(l, "O_TRUNC")) {
				return "destination opened for writing: " + l
			}
		case "unlink", "unlinkat":
			qs := quotedRe.FindAllStringSubmatch(l, -1)
			if len(qs) > 0 && isDest(qs[0][1]) && okRet {
				return "destination unlinked: " + l
			}
		case "rename", "renameat", "renameat2":
			qs := quotedRe.FindAllStringSubmatch(l, -1)
			if len(qs) >= 2 && isDest(qs[1][1]) {
				st := get(qs[0][1])
				if tmpDir != "" && filepath.Dir(qs[0][1]) != tmpDir {
					return "the published file was not prepared in the requested temporary directory: " + l
				}
				if st.syncAt < 0 || st.syncAt < st.lastWrite {
					return "rename onto destination without a successful fsync after the last write: " + l
				}
				if st.closeAt < st.syncAt {
					return "rename onto destination before the file was closed after fsync: " + l
				}
			}
		}
	}
	return ""
}

// nativeSelfcheck re-runs sampled paths natively and compares observations.
func nativeSelfcheck(repo, verif, pdir string, g GroupCfg, hr *HarnessResult, tier, scratch string) (int, int, string) {
	samples := hr.SelfSamples
	max := 24
	if tier == "thorough" {
		max = 96
	}
	if len(samples) > max {
		samples = samples[:max]
	}
	type sm struct {
		Model map[string]uint64 `json:"model"`
	}
	var file struct {
		Harness string `json:"harness"`
		Tier    string `json:"tier"`
		Samples []sm   `json:"samples"`
	}
	file.Harness, file.Tier = hr.Harness, tier
	for _, s := range samples {
		file.Samples = append(file.Samples, sm{s.Model})
	}
	fb, _ := json.Marshal(file)
	fpath := filepath.Join(scratch, "selfcheck_"+sanitize(hr.Harness)+".json")
	os.WriteFile(fpath, fb, 0o644)
	replace := map[string]string{}
	rtFiles, _ := filepath.Glob(filepath.Join(verif, "rt", "*.go"))
	for _, f := range rtFiles {
		replace[filepath.Join(repo, "zz_verifrt", filepath.Base(f))] = f
	}
	var entries []string
	pkgName := ""
	for _, f := range g.Files {
		src := filepath.Join(pdir, f)
		replace[filepath.Join(repo, g.Package, "zz_verif_"+filepath.Base(f))] = src
		sb, _ := os.ReadFile(src)
		for _, m := range entryRe.FindAllStringSubmatch(string(sb), -1) {
			entries = append(entries, m[1])
		}
		if m := pkgRe.FindStringSubmatch(string(sb)); m != nil {
			pkgName = m[1]
		}
	}
	var tb strings.Builder
	fmt.Fprintf(&tb, "package %s\n\nimport (\n\t\"testing\"\n\trt \"github.com/safing/portbase/zz_verifrt\"\n)\n\nfunc TestVerifSelfcheck(t *testing.T) {\n\trt.RunSelfcheck(map[string]func(){\n", pkgName)
	for _, e := range entries {
		fmt.Fprintf(&tb, "\t\t%q: %s,\n", e, e)
	}
	tb.WriteString("\t})\n}\n")
	testFile := filepath.Join(scratch, "selfcheck_"+sanitize(g.Package)+"_test.go")
	os.WriteFile(testFile, []byte(tb.String()), 0o644)
	replace[filepath.Join(repo, g.Package, "zz_verif_selfcheck_test.go")] = testFile
	ovb, _ := json.Marshal(map[string]interface{}{"Replace": replace})
	ovFile := filepath.Join(scratch, "overlay_self_"+sanitize(g.Package)+".json")
	os.WriteFile(ovFile, ovb, 0o644)
	cmd := exec.Command("go", "test", "-v", "-vet=off", "-count=1", "-timeout", "120s", "-run", "^TestVerifSelfcheck$", "-overlay", ovFile, "./"+g.Package)
	cmd.Dir = repo
	cmd.Env = append(os.Environ(), "GOFLAGS=-mod=mod", "GOPROXY=off", "GOSUMDB=off", "GOTOOLCHAIN=local", "VERIF_SELFCHECK="+fpath)
	out, _ := cmd.CombinedOutput()
	got := map[int][]string{}
	seen := map[int]bool{}
	for _, l := range strings.Split(string(out), "\n") {
		f := strings.SplitN(l, " ", 3)
		if len(f) >= 2 && f[0] == "VERIF-SAMPLE" {
			i, _ := strconv.Atoi(f[1])
			seen[i] = true
		}
		if len(f) == 3 && f[0] == "VERIF-OBSERVE" {
			i, _ := strconv.Atoi(f[1])
			got[i] = append(got[i], f[2])
		}
	}
	ok, bad := 0, 0
	detail := ""
	for i, s := range samples {
		if !seen[i] {
			bad++
			if detail == "" {
				detail = fmt.Sprintf("sample %d did not run natively: %s", i, firstLines(string(out), 4))
			}
			continue
		}
		if strings.Join(got[i], ";") == strings.Join(s.Observations, ";") {
			ok++
		} else {
			bad++
			if detail == "" {
				detail = fmt.Sprintf("sample %d: engine %v native %v model %v", i, s.Observations, got[i], s.Model)
			}
		}
	}
	return ok, bad, detail
}
