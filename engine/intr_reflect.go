package main

// A small part of package reflect, enough for code that compares values of
// basic kinds through reflection (config.isAllowedPossibleValue):
// reflect.TypeOf, Type.ConvertibleTo, reflect.ValueOf, Value.Convert,
// Value.Interface. Types are carried as go/types types, values as the
// interface value they were made from. Everything else of reflect ends the
// path as unsupported (see intr_env.go).

import (
	"go/types"
)

// RType is the engine's value behind a reflect.Type interface.
type RType struct{ t types.Type }

// RValue is the engine's reflect.Value.
type RValue struct{ v Iface }

func (e *Exec) rtypeIface(t types.Type) Iface {
	rt := e.namedType("reflect", "rtype")
	if rt == nil {
		unsupported("reflect.rtype not loaded")
	}
	return Iface{t: types.NewPointer(rt), v: RType{t}}
}

func init() {
	reg("reflect.TypeOf", func(fr *frame, args []Value) Value {
		i := args[0].(Iface)
		if i.t == nil {
			return Iface{}
		}
		return fr.e.rtypeIface(i.t)
	})
	reg("(*reflect.rtype).ConvertibleTo", func(fr *frame, args []Value) Value {
		e := fr.e
		self, ok := args[0].(RType)
		if !ok {
			unsupported("reflect.Type not made by reflect.TypeOf")
		}
		u := args[1].(Iface)
		if u.t == nil {
			panic(targetPanic{e.runtimeErrorPlain("reflect: nil type passed to Type.ConvertibleTo"), "reflect.Type.ConvertibleTo"})
		}
		ut, ok := u.v.(RType)
		if !ok {
			unsupported("reflect.Type not made by reflect.TypeOf")
		}
		return e.tt.Bool(types.ConvertibleTo(self.t, ut.t))
	})
	reg("(*reflect.rtype).String", func(fr *frame, args []Value) Value {
		self, ok := args[0].(RType)
		if !ok {
			unsupported("reflect.Type not made by reflect.TypeOf")
		}
		return fr.e.strConst(types.TypeString(self.t, nil))
	})
	reg("(*reflect.rtype).Comparable", func(fr *frame, args []Value) Value {
		self, ok := args[0].(RType)
		if !ok {
			unsupported("reflect.Type not made by reflect.TypeOf")
		}
		return fr.e.tt.Bool(types.Comparable(self.t))
	})
	reg("(reflect.Value).Type", func(fr *frame, args []Value) Value {
		rv, ok := args[0].(RValue)
		if !ok || rv.v.t == nil {
			unsupported("reflect.Value.Type on a value not made by reflect.ValueOf")
		}
		return fr.e.rtypeIface(rv.v.t)
	})
	reg("reflect.ValueOf", func(fr *frame, args []Value) Value {
		return RValue{args[0].(Iface)}
	})
	reg("(reflect.Value).Interface", func(fr *frame, args []Value) Value {
		rv, ok := args[0].(RValue)
		if !ok {
			unsupported("reflect.Value not made by reflect.ValueOf")
		}
		return rv.v
	})
	reg("(reflect.Value).Convert", func(fr *frame, args []Value) Value {
		e := fr.e
		rv, ok := args[0].(RValue)
		if !ok || rv.v.t == nil {
			unsupported("reflect.Value.Convert on a value not made by reflect.ValueOf")
		}
		ti := args[1].(Iface)
		tt, ok := ti.v.(RType)
		if ti.t == nil || !ok {
			unsupported("reflect.Value.Convert to a type not made by reflect.TypeOf")
		}
		if types.Identical(rv.v.t, tt.t) {
			return rv
		}
		if !types.ConvertibleTo(rv.v.t, tt.t) {
			panic(targetPanic{e.runtimeErrorPlain("reflect.Value.Convert: value of type " + types.TypeString(rv.v.t, nil) + " cannot be converted to type " + types.TypeString(tt.t, nil)), "reflect.Value.Convert"})
		}
		// string <-> []byte
		if isString(rv.v.t) && isByteSlice(tt.t) {
			src := rv.v.v.(Str)
			out := make([]Value, len(src.b))
			for i, c := range src.b {
				out[i] = c
			}
			return RValue{Iface{t: tt.t, v: Slice{out}}}
		}
		if isByteSlice(rv.v.t) && isString(tt.t) {
			src := rv.v.v.(Slice)
			out := make([]*Term, len(src.a))
			for i, c := range src.a {
				out[i] = c.(*Term)
			}
			return RValue{Iface{t: tt.t, v: Str{out}}}
		}
		// basic kinds only
		_, sb := rv.v.t.Underlying().(*types.Basic)
		_, db := tt.t.Underlying().(*types.Basic)
		if !sb || !db {
			unsupported("reflect.Value.Convert between non-basic types")
		}
		if isString(tt.t) && !isString(rv.v.t) {
			// integer to string: the rune with that code point
			n, ok := rv.v.v.(*Term)
			if !ok || !n.IsConst() {
				unsupported("reflect.Value.Convert of a symbolic integer to string")
			}
			return RValue{Iface{t: tt.t, v: e.strConst(string(rune(n.SConst())))}}
		}
		if isString(tt.t) != isString(rv.v.t) {
			unsupported("reflect.Value.Convert between string and number")
		}
		if n, ok := rv.v.v.(*Term); ok && !n.IsConst() && isFloat(tt.t) {
			unsupported("reflect.Value.Convert of a symbolic integer to float")
		}
		return RValue{Iface{t: tt.t, v: fr.conv(nil, tt.t, rv.v.t, rv.v.v)}}
	})
}

func isByteSlice(t types.Type) bool {
	sl, ok := t.Underlying().(*types.Slice)
	if !ok {
		return false
	}
	b, ok := sl.Elem().Underlying().(*types.Basic)
	return ok && b.Kind() == types.Uint8
}
