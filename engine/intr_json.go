package main

// Contract stubs for tidwall/sjson and gjson as used by the database API, and
// the regular expression of database.Register.

import (
	"strings"
	"strconv"
	"encoding/json"
	"fmt"
	"go/types"
)

func init() {
	// sjson.SetBytes(json, path, value): the document stays a document; content
	// fidelity is not the subject (stub: unchanged bytes, or an error)
	reg("github.com/tidwall/sjson.SetBytes", func(fr *frame, args []Value) Value {
		e := fr.e
		e.stubSeq++
		if !e.codecNoFaults && !e.branch(e.freshVar(fmt.Sprintf("sjson%d.ok", e.stubSeq), 0)) {
			return Tuple{Slice{}, e.newErrorString(e.strConst("sjson: set failed (stub)"))}
		}
		return Tuple{args[0], Iface{}}
	})
	// gjson.ParseBytes keeps the raw bytes; ForEach calls the callback 0 or 1
	// times with a key of symbolic kind
	reg("github.com/tidwall/gjson.ParseBytes", func(fr *frame, args []Value) Value {
		e := fr.e
		rt := e.namedType("github.com/tidwall/gjson", "Result")
		r := e.zero(rt).(Struct)
		setField(r, rt, "Type", e.tt.BV(64, 5)) // JSON
		setField(r, rt, "Raw", Str{bytesOf(args[0])})
		return r
	})
	// gjson.GetBytes on the empty document {}: nothing exists (zero Result);
	// other documents are outside the stub
	reg("github.com/tidwall/gjson.GetBytes", func(fr *frame, args []Value) Value {
		e := fr.e
		doc, ok := concStr(Str{bytesOf(args[0])})
		rt := e.namedType("github.com/tidwall/gjson", "Result")
		if ok && (doc == "{}" || doc == "") {
			return e.zero(rt)
		}
		// a concrete flat object and a plain key: looked up on the host (numbers,
		// strings, booleans and null members; gjson's path syntax is outside)
		key, kok := concStr(args[1].(Str))
		if !ok || !kok || strings.ContainsAny(key, ".*?#|@\\") {
			unsupported("gjson.GetBytes on a document other than a concrete flat object with a plain key")
		}
		var members map[string]json.RawMessage
		if err := json.Unmarshal([]byte(doc), &members); err != nil {
			unsupported("gjson.GetBytes on a document that is not a flat object")
		}
		raw, found := members[key]
		r := e.zero(rt).(Struct)
		if !found {
			return r
		}
		text := strings.TrimSpace(string(raw))
		setField(r, rt, "Raw", e.strConst(text))
		setField(r, rt, "Index", e.tt.BV(64, uint64(strings.Index(doc, text))))
		switch {
		case text == "null":
			setField(r, rt, "Type", e.tt.BV(64, 0))
		case text == "false":
			setField(r, rt, "Type", e.tt.BV(64, 1))
		case text == "true":
			setField(r, rt, "Type", e.tt.BV(64, 4))
		case strings.HasPrefix(text, "\""):
			var sv string
			if err := json.Unmarshal(raw, &sv); err != nil {
				unsupported("gjson.GetBytes: string member")
			}
			setField(r, rt, "Type", e.tt.BV(64, 3))
			setField(r, rt, "Str", e.strConst(sv))
		case strings.HasPrefix(text, "{") || strings.HasPrefix(text, "["):
			unsupported("gjson.GetBytes on a nested member")
		default:
			f, err := strconv.ParseFloat(text, 64)
			if err != nil {
				unsupported("gjson.GetBytes: number member")
			}
			setField(r, rt, "Type", e.tt.BV(64, 2))
			setField(r, rt, "Num", Float{f})
		}
		return r
	})
	reg("(github.com/tidwall/gjson.Result).ForEach", func(fr *frame, args []Value) Value {
		e := fr.e
		e.stubSeq++
		rt := e.namedType("github.com/tidwall/gjson", "Result")
		n := e.forkRange(e.freshVar(fmt.Sprintf("gjson%d.entries", e.stubSeq), 64), 0, 1)
		if n == 0 {
			return nil
		}
		key := e.zero(rt).(Struct)
		val := e.zero(rt).(Struct)
		// key kind: 0 missing, 1 non-string, 2 string
		switch e.forkRange(e.freshVar(fmt.Sprintf("gjson%d.keykind", e.stubSeq), 64), 0, 2) {
		case 1:
			setField(key, rt, "Type", e.tt.BV(64, 2)) // Number
			setField(key, rt, "Raw", e.strConst("1"))
		case 2:
			setField(key, rt, "Type", e.tt.BV(64, 3)) // String
			setField(key, rt, "Raw", e.strConst("\"k\""))
			setField(key, rt, "Str", e.strConst("k"))
		}
		if e.forkRange(e.freshVar(fmt.Sprintf("gjson%d.hasvalue", e.stubSeq), 64), 0, 1) == 1 {
			setField(val, rt, "Type", e.tt.BV(64, 3))
			setField(val, rt, "Raw", e.strConst("\"v\""))
			setField(val, rt, "Str", e.strConst("v"))
		}
		e.call(fr, 0, args[1], []Value{key, val})
		return nil
	})
	reg("(*github.com/safing/portbase/database/accessor.JSONBytesAccessor).Set", func(fr *frame, args []Value) Value {
		e := fr.e
		// the real method reads the document through its receiver
		recv := fr.derefArg(args[0], "JSONBytesAccessor.Set")
		e.stubSeq++
		if e.branch(e.freshVar(fmt.Sprintf("jsonacc%d.ok", e.stubSeq), 0)) {
			// the document is replaced by a new one (a new slice, as sjson
			// builds it): the old document with one more member
			if st, ok := (*recv).(Struct); ok && len(st) > 0 {
				if docPtr, ok := st[0].(*Value); ok && docPtr != nil {
					if doc, ok := (*docPtr).(Slice); ok {
						out := append([]Value(nil), doc.a...)
						for _, c := range []byte(`+{"set":1}`) {
							out = append(out, e.tt.BV(8, uint64(c)))
						}
						*docPtr = Slice{out}
					}
				}
			}
			return Iface{}
		}
		return e.newErrorString(e.strConst("json accessor: set failed (stub)"))
	})
	reg("(time.Time).Round", func(fr *frame, args []Value) Value { return args[0] })
	reg("(time.Time).Truncate", func(fr *frame, args []Value) Value { return args[0] })

	regexModels["MatchString"] = func(fr *frame, pattern string, args []Value) (Value, bool) {
		e := fr.e
		if pattern != "^[A-Za-z0-9_-]{3,}$" {
			return nil, false
		}
		s := bytesOf(args[0])
		if len(s) < 3 {
			return e.tt.False, true
		}
		r := e.tt.True
		in := func(c *Term, lo, hi byte) *Term {
			return e.tt.And(e.tt.Cmp(OpUle, e.tt.BV(8, uint64(lo)), c), e.tt.Cmp(OpUle, c, e.tt.BV(8, uint64(hi))))
		}
		for _, c := range s {
			ok := e.tt.Or(e.tt.Or(in(c, 'A', 'Z'), in(c, 'a', 'z')), e.tt.Or(in(c, '0', '9'), e.tt.Or(e.tt.Eq(c, e.tt.BV(8, '_')), e.tt.Eq(c, e.tt.BV(8, '-')))))
			r = e.tt.And(r, ok)
		}
		return r, true
	}
}

var _ = types.Typ
