package main

import (
	"fmt"
	"go/token"
	"go/types"

	"golang.org/x/tools/go/ssa"
)

func (e *Exec) callBuiltin(caller *frame, pos token.Pos, fn *ssa.Builtin, args []Value) Value {
	tt := e.tt
	switch fn.Name() {
	case "append":
		if len(args) == 1 {
			return args[0]
		}
		s := args[0].(Slice)
		var add []Value
		switch t := args[1].(type) {
		case Str:
			add = make([]Value, len(t.b))
			for i, b := range t.b {
				add[i] = b
			}
		case Slice:
			add = t.a
		default:
			panic(engineError{fmt.Sprintf("append arg %T", t)})
		}
		if len(add) == 0 {
			if s.a == nil && args[1] != nil {
				// append(nil, empty...) stays nil
				return s
			}
			return s
		}
		n := len(s.a) + len(add)
		if n <= cap(s.a) {
			r := s.a[:n]
			for i, v := range add {
				r[len(s.a)+i] = copyVal(v)
			}
			return Slice{r}
		}
		elemSize := int64(16)
		if st, ok := fn.Type().(*types.Signature); ok && st.Params().Len() > 0 {
			if sl, ok := st.Params().At(0).Type().Underlying().(*types.Slice); ok {
				elemSize = e.ld.sizes.Sizeof(sl.Elem())
			}
		}
		newcap := growCap(cap(s.a), n, elemSize)
		r := make([]Value, n, newcap)
		copy(r, s.a)
		for i, v := range add {
			r[len(s.a)+i] = copyVal(v)
		}
		if newcap > n {
			var z Value
			if st, ok := fn.Type().(*types.Signature); ok && st.Params().Len() > 0 {
				if sl, ok := st.Params().At(0).Type().Underlying().(*types.Slice); ok {
					z = e.zero(sl.Elem())
				}
			}
			full := r[:newcap]
			for i := n; i < newcap; i++ {
				full[i] = copyVal(z)
			}
		}
		return Slice{r}

	case "copy":
		dst := args[0].(Slice)
		var src []Value
		switch t := args[1].(type) {
		case Str:
			src = make([]Value, len(t.b))
			for i, b := range t.b {
				src[i] = b
			}
		case Slice:
			src = t.a
		}
		n := len(dst.a)
		if len(src) < n {
			n = len(src)
		}
		tmp := make([]Value, n)
		for i := 0; i < n; i++ {
			tmp[i] = copyVal(src[i])
		}
		copy(dst.a, tmp)
		return tt.BV(64, uint64(n))

	case "close":
		e.chanClose(caller, pos, args[0].(*ChanV))
		return nil

	case "delete":
		m := args[0].(*MapV)
		if m != nil {
			e.mapDelete(m, args[1])
		}
		return nil

	case "print", "println":
		return nil

	case "len":
		switch x := args[0].(type) {
		case Str:
			return tt.BV(64, uint64(len(x.b)))
		case Slice:
			return tt.BV(64, uint64(len(x.a)))
		case Array:
			return tt.BV(64, uint64(len(x)))
		case *Value:
			if x == nil {
				// len of nil *array is the static length; handled by type
				return tt.BV(64, 0)
			}
			return tt.BV(64, uint64(len((*x).(Array))))
		case *MapV:
			if x == nil {
				return tt.BV(64, 0)
			}
			return tt.BV(64, uint64(x.n))
		case *ChanV:
			if x == nil {
				return tt.BV(64, 0)
			}
			return tt.BV(64, uint64(len(x.buf)))
		}
		panic(engineError{fmt.Sprintf("len of %T", args[0])})

	case "cap":
		switch x := args[0].(type) {
		case Slice:
			return tt.BV(64, uint64(cap(x.a)))
		case Array:
			return tt.BV(64, uint64(len(x)))
		case *Value:
			if x == nil {
				return tt.BV(64, 0)
			}
			return tt.BV(64, uint64(len((*x).(Array))))
		case *ChanV:
			if x == nil {
				return tt.BV(64, 0)
			}
			return tt.BV(64, uint64(x.cap))
		}
		panic(engineError{fmt.Sprintf("cap of %T", args[0])})

	case "min", "max":
		r := args[0]
		for _, a := range args[1:] {
			x, ok1 := r.(*Term)
			y, ok2 := a.(*Term)
			if !ok1 || !ok2 {
				unsupported("min/max on non-integers")
			}
			// signedness from builtin signature
			signed := true
			if st, ok := fn.Type().(*types.Signature); ok && st.Params().Len() > 0 {
				if ik, ok := basicInt(st.Params().At(0).Type()); ok {
					signed = ik.signed
				}
			}
			var lt *Term
			if signed {
				lt = tt.Cmp(OpSlt, x, y)
			} else {
				lt = tt.Cmp(OpUlt, x, y)
			}
			if fn.Name() == "min" {
				r = tt.Ite(lt, x, y)
			} else {
				r = tt.Ite(lt, y, x)
			}
		}
		return r

	case "clear":
		switch x := args[0].(type) {
		case *MapV:
			if x != nil {
				x.keys, x.vals, x.live, x.n = nil, nil, nil, 0
				x.idx = map[string]int{}
			}
		case Slice:
			if len(x.a) > 0 {
				st := fn.Type().(*types.Signature)
				z := e.zero(st.Params().At(0).Type().Underlying().(*types.Slice).Elem())
				for i := range x.a {
					x.a[i] = copyVal(z)
				}
			}
		}
		return nil

	case "recover":
		return e.doRecover(caller)

	case "ssa:deferstack":
		// the defer list of the calling function: defers inside range-over-func
		// bodies are pushed onto it
		return &deferStackRef{caller}

	case "ssa:wrapnilchk":
		recv := args[0]
		if p, ok := recv.(*Value); ok && p == nil {
			panic(targetPanic{e.runtimeError(fmt.Sprintf("value method %s.%s called using nil pointer",
				e.mustConcStr(args[1], "wrapnilchk"), e.mustConcStr(args[2], "wrapnilchk"))), "wrapnilchk"})
		}
		return recv

	case "panic":
		panic(targetPanic{args[0], "panic@" + e.pos(pos)})
	}
	unsupported("builtin %s (in %s)", fn.Name(), caller.fn.String())
	return nil
}

func (e *Exec) doRecover(caller *frame) Value {
	// recover() is effective only when called directly by a deferred function
	// while its caller frame is panicking.
	if caller != nil && !caller.panicking && caller.caller != nil && caller.caller.panicking {
		caller.caller.panicking = false
		p := caller.caller.panicVal
		caller.caller.panicVal = nil
		switch p := p.(type) {
		case targetPanic:
			return p.v
		default:
			panic(engineError{fmt.Sprintf("unexpected panic value %T in recover", p)})
		}
	}
	return Iface{}
}

// growCap mirrors runtime.growslice/nextslicecap + roundupsize for go1.2x.
func growCap(oldCap, newLen int, elemSize int64) int {
	newcap := oldCap
	doublecap := newcap + newcap
	if newLen > doublecap {
		newcap = newLen
	} else {
		const threshold = 256
		if oldCap < threshold {
			newcap = doublecap
		} else {
			for {
				newcap += (newcap + 3*threshold) >> 2
				if uint(newcap) >= uint(newLen) {
					break
				}
			}
		}
	}
	if elemSize <= 0 {
		return newcap
	}
	mem := int64(newcap) * elemSize
	mem = roundupsize(mem)
	return int(mem / elemSize)
}

var sizeClasses = []int64{0, 8, 16, 24, 32, 48, 64, 80, 96, 112, 128, 144, 160, 176, 192, 208, 224, 240, 256, 288, 320, 352, 384, 416, 448, 480, 512, 576, 640, 704, 768, 896, 1024, 1152, 1280, 1408, 1536, 1792, 2048, 2304, 2688, 3072, 3200, 3456, 4096, 4864, 5376, 6144, 6528, 6784, 6912, 8192, 9472, 9728, 10240, 10880, 12288, 13568, 14336, 16384, 18432, 19072, 20480, 21760, 24576, 27264, 28672, 32768}

func roundupsize(size int64) int64 {
	if size <= 32768 {
		for _, c := range sizeClasses {
			if c >= size {
				return c
			}
		}
	}
	const page = 8192
	return (size + page - 1) / page * page
}

// deferStackRef is the value of ssa:deferstack().
type deferStackRef struct{ fr *frame }
