package main

// Loading: go/packages (with overlay harness files) -> go/ssa, built lazily
// from /repo's current working tree on every run.

import (
	"fmt"
	"go/token"
	"go/types"
	"os"
	"path/filepath"
	"strings"
	"sync"

	"golang.org/x/tools/go/packages"
	"golang.org/x/tools/go/ssa"
	"golang.org/x/tools/go/ssa/ssautil"
)

type intrinsicFn func(fr *frame, args []Value) Value

type Loaded struct {
	prog               *ssa.Program
	fset               *token.FileSet
	pkgs               map[string]*ssa.Package
	sizes              types.Sizes
	runtimeErrorString types.Type
	panicNilError      types.Type
	initAllow          map[string]bool
	globalAllow        map[string]bool
	mu                 sync.Mutex
	intrCache          map[*ssa.Function]intrinsicFn
	intrKnown          map[*ssa.Function]bool
	redirCache         map[*ssa.Function]*ssa.Function
	rtPath             string
	loadSeconds        float64
	disable            map[string]bool
	zeroStubs          map[string]bool
	zeroPkgs           map[string]bool
}

const rtPkgPath = "github.com/safing/portbase/zz_verifrt"

// default set of packages whose init functions are executed (pure and light)
var defaultInitAllow = []string{
	"errors", "io", "io/fs", "strings", "bytes", "unicode/utf8", "sort", "container/list",
	"path", "encoding/binary", "math/bits", "context", "internal/oserror",
	"github.com/tevino/abool", "internal/itoa", "slices", "cmp", "maps", "strconv",
	"github.com/armon/go-radix", "internal/stringslite", "encoding/base64", "encoding/hex",
	"golang.org/x/sync/errgroup", "github.com/hashicorp/go-multierror", "github.com/hashicorp/errwrap",
}

// functions replaced by "return the zero value of every result"
var defaultZeroStubs = []string{
	"github.com/gofrs/uuid.FromString", "github.com/gofrs/uuid.Must", "github.com/gofrs/uuid.NewV4",
	"github.com/gofrs/uuid.NewV5", "github.com/safing/portbase/utils.RandomUUID",
	"github.com/safing/portbase/utils.DerivedUUID", "github.com/safing/portbase/utils.DerivedInstanceUUID",
}

// globals of packages whose init is not executed that may nevertheless be
// read zero-initialised (their zero value is their initial value, or the
// engine's intrinsics never look at them)
var zeroOKGlobals = map[string]bool{
	"internal/bytealg.MaxLen": true,
	// nil *Location means UTC; location is irrelevant for instants
	"time.Local": true, "time.UTC": true, "time.localLoc": true, "time.utcLoc": true,
	// nil *os.File: writes to the standard streams are stubbed
	"os.Stdout": true, "os.Stderr": true, "os.Stdin": true,
	// an empty struct value
	"net/http.NoBody": true,
}

// packages all of whose globals may be used zero-initialised
var zeroOKPkgs = map[string]bool{
	"sync": true, "sync/atomic": true,
}

func loadProgram(repo string, overlay map[string][]byte, patterns []string, initAllow []string) (*Loaded, error) {
	cfg := &packages.Config{
		Mode: packages.NeedName | packages.NeedFiles | packages.NeedCompiledGoFiles | packages.NeedImports |
			packages.NeedDeps | packages.NeedTypes | packages.NeedSyntax | packages.NeedTypesInfo | packages.NeedTypesSizes | packages.NeedModule,
		Dir:     repo,
		Overlay: overlay,
		Env:     append(os.Environ(), "GOFLAGS=-mod=mod", "GOPROXY=off", "GOSUMDB=off", "GOTOOLCHAIN=local", "CGO_ENABLED=0"),
	}
	pkgs, err := packages.Load(cfg, patterns...)
	if err != nil {
		return nil, err
	}
	var errs []string
	packages.Visit(pkgs, nil, func(p *packages.Package) {
		for _, e := range p.Errors {
			errs = append(errs, e.Error())
		}
	})
	if len(errs) > 0 {
		if len(errs) > 20 {
			errs = errs[:20]
		}
		return nil, fmt.Errorf("package load errors:\n%s", strings.Join(errs, "\n"))
	}
	prog, _ := ssautil.AllPackages(pkgs, ssa.InstantiateGenerics|ssa.SanityCheckFunctions&0)
	ld := &Loaded{prog: prog, fset: prog.Fset, pkgs: map[string]*ssa.Package{},
		initAllow: map[string]bool{}, globalAllow: map[string]bool{},
		intrCache: map[*ssa.Function]intrinsicFn{}, intrKnown: map[*ssa.Function]bool{},
		redirCache: map[*ssa.Function]*ssa.Function{}, zeroStubs: map[string]bool{}, zeroPkgs: map[string]bool{}}
	for _, z := range defaultZeroStubs {
		ld.zeroStubs[z] = true
	}
	for _, p := range prog.AllPackages() {
		ld.pkgs[p.Pkg.Path()] = p
	}
	ld.sizes = types.SizesFor("gc", "amd64")
	if rp := ld.pkgs["runtime"]; rp != nil {
		if t := rp.Type("errorString"); t != nil {
			ld.runtimeErrorString = t.Object().Type()
		}
		if t := rp.Type("PanicNilError"); t != nil {
			ld.panicNilError = t.Object().Type()
		}
	}
	if ld.runtimeErrorString == nil {
		return nil, fmt.Errorf("runtime.errorString not found")
	}
	for _, p := range defaultInitAllow {
		ld.initAllow[p] = true
	}
	for _, p := range initAllow {
		ld.initAllow[p] = true
	}
	return ld, nil
}

func (ld *Loaded) build(p *ssa.Package) {
	p.Build()
}

func (ld *Loaded) initAllowed(p *ssa.Package) bool {
	path := p.Pkg.Path()
	if ld.initAllow[path] {
		return true
	}
	return strings.HasPrefix(path, rtPkgPath)
}

// globalOK reports whether a global of a package without executed init may be
// used zero-initialised.
func (ld *Loaded) globalOK(g *ssa.Global) bool {
	path := g.Pkg.Pkg.Path()
	if zeroOKPkgs[path] || ld.zeroPkgs[path] || zeroOKGlobals[path+"."+g.Name()] {
		return true
	}
	return ld.globalAllow[path+"."+g.Name()]
}

func (ld *Loaded) intrinsic(fn *ssa.Function) intrinsicFn {
	ld.mu.Lock()
	defer ld.mu.Unlock()
	if ld.intrKnown[fn] {
		return ld.intrCache[fn]
	}
	name := fn.String()
	if o := fn.Origin(); o != nil {
		name = o.String()
	}
	h := intrinsics[name]
	if h == nil && !(fn.Name() == "init" && fn.Signature.Recv() == nil) && !strings.HasPrefix(fn.Name(), "init#") {
		for _, pi := range prefixIntrinsics {
			if strings.HasPrefix(name, pi.prefix) {
				h = pi.fn
				break
			}
		}
	}
	if ld.disable[name] {
		h = nil
	}
	for d := range ld.disable {
		if strings.HasSuffix(d, "*") && strings.HasPrefix(name, strings.TrimSuffix(d, "*")) {
			h = nil
		}
	}
	ld.intrKnown[fn] = true
	ld.intrCache[fn] = h
	return h
}

// redirect maps a function to its Go model in the rt package, if any:
// strings.Index -> zz_verifrt.Model_strings_Index.
func (ld *Loaded) redirect(fn *ssa.Function) *ssa.Function {
	ld.mu.Lock()
	defer ld.mu.Unlock()
	if m, ok := ld.redirCache[fn]; ok {
		return m
	}
	var m *ssa.Function
	if fn.Pkg != nil && fn.Signature.Recv() == nil {
		rt := ld.pkgs[rtPkgPath]
		if rt != nil {
			name := "Model_" + strings.NewReplacer("/", "_", ".", "_", "-", "_").Replace(fn.Pkg.Pkg.Path()) + "_" + fn.Name()
			m = rt.Func(name)
		}
	}
	if fn.Pkg != nil && fn.Signature.Recv() == nil && m == nil && !strings.HasPrefix(fn.Pkg.Pkg.Path(), "github.com/safing/portbase") && fn.Name() != "init" {
		// functions of dependencies: VerifModel_<pkg>_<Func> in a harness package
		name := "VerifModel_" + fn.Pkg.Pkg.Name() + "_" + fn.Name()
		for path, pkg := range ld.pkgs {
			if strings.HasPrefix(path, "github.com/safing/portbase") && path != rtPkgPath {
				if f := pkg.Func(name); f != nil {
					m = f
					break
				}
			}
		}
	}
	if fn.Pkg != nil && fn.Signature.Recv() != nil && m == nil {
		// methods of dependencies: a harness may supply a model named
		// VerifModel_<pkg>_<Type>_<Method>(recv, args...) in its own package
		rt := fn.Signature.Recv().Type()
		if p, ok := rt.(*types.Pointer); ok {
			rt = p.Elem()
		}
		if named, ok := rt.(*types.Named); ok && !strings.HasPrefix(fn.Pkg.Pkg.Path(), "github.com/safing/portbase") {
			name := "VerifModel_" + fn.Pkg.Pkg.Name() + "_" + named.Obj().Name() + "_" + fn.Name()
			for path, pkg := range ld.pkgs {
				if strings.HasPrefix(path, "github.com/safing/portbase") {
					if f := pkg.Func(name); f != nil {
						m = f
						break
					}
				}
			}
		}
	}
	ld.redirCache[fn] = m
	return m
}

// buildOverlay maps harness and runtime files into /repo paths.
func buildOverlay(repo, verif, pkgRel string, harnessFiles []string) (map[string][]byte, error) {
	ov := map[string][]byte{}
	rtFiles, _ := filepath.Glob(filepath.Join(verif, "rt", "*.go"))
	for _, f := range rtFiles {
		if strings.HasSuffix(f, "_native.go") {
			continue
		}
		b, err := os.ReadFile(f)
		if err != nil {
			return nil, err
		}
		ov[filepath.Join(repo, "zz_verifrt", filepath.Base(f))] = b
	}
	for _, f := range harnessFiles {
		b, err := os.ReadFile(f)
		if err != nil {
			return nil, err
		}
		ov[filepath.Join(repo, pkgRel, "zz_verif_"+filepath.Base(f))] = b
	}
	return ov, nil
}
