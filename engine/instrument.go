package main

// instrumentYields is filled in by the G2 layer (yield.go); placeholder until then.
func instrumentYields(repo string, files []string, ov map[string][]byte) error { return nil }
