package main

// One long-lived SMT solver process per executor, text protocol (SMT-LIB2),
// incremental with a push level per path-condition conjunct.

import (
	"bufio"
	"fmt"
	"io"
	"os"
	"os/exec"
	"strconv"
	"strings"
	"time"
)

type SatResult int

const (
	Unsat SatResult = iota
	Sat
	Unknown
)

func (r SatResult) String() string { return [...]string{"unsat", "sat", "unknown"}[r] }

type SolverStats struct {
	Queries  int
	Sat      int
	Unsat    int
	Unknown  int
	Seconds  float64
	Errors   int
	Restarts int
	Retries  int
}

type Solver struct {
	kind      string // z3 | z3-new | cvc5
	cmd       *exec.Cmd
	in        io.WriteCloser
	out       *bufio.Reader
	tt        *TermTable
	asserted  []*Term // one push level per entry
	timeoutMs int
	Stats     SolverStats
	lastErr   string
	levels    [][]*Term // terms declared/defined at each push level (popped with it)
	logw      io.Writer
}

func NewSolver(kind string, tt *TermTable, timeoutMs int) (*Solver, error) {
	s := &Solver{kind: kind, tt: tt, timeoutMs: timeoutMs}
	if err := s.start(); err != nil {
		return nil, err
	}
	return s, nil
}

func (s *Solver) start() error {
	var cmd *exec.Cmd
	switch s.kind {
	case "z3", "z3-new":
		cmd = exec.Command(s.kind, "-in", "-smt2")
	case "cvc5":
		cmd = exec.Command("cvc5", "--incremental", "--lang=smt2", "--produce-models",
			fmt.Sprintf("--tlimit-per=%d", s.timeoutMs))
	default:
		return fmt.Errorf("unknown solver %q", s.kind)
	}
	in, err := cmd.StdinPipe()
	if err != nil {
		return err
	}
	out, err := cmd.StdoutPipe()
	if err != nil {
		return err
	}
	cmd.Stderr = cmd.Stdout
	if err := cmd.Start(); err != nil {
		return err
	}
	s.cmd, s.in, s.out = cmd, in, bufio.NewReaderSize(out, 1<<16)
	s.asserted = nil
	s.levels = nil
	var sb strings.Builder
	if s.kind != "cvc5" {
		sb.WriteString("(set-option :produce-models true)\n")
		fmt.Fprintf(&sb, "(set-option :timeout %d)\n", s.timeoutMs)
	} else {
		sb.WriteString("(set-logic QF_BV)\n")
	}
	_, err = s.roundtrip(sb.String())
	return err
}

func (s *Solver) Close() {
	if s.cmd != nil {
		s.in.Close()
		done := make(chan struct{})
		go func() { s.cmd.Wait(); close(done) }()
		select {
		case <-done:
		case <-time.After(2 * time.Second):
			s.cmd.Process.Kill()
		}
		s.cmd = nil
	}
}

func (s *Solver) restart() {
	s.Stats.Restarts++
	if s.cmd != nil {
		s.cmd.Process.Kill()
		s.cmd.Wait()
	}
	for _, lv := range s.levels {
		for _, t := range lv {
			t.emitted = false
		}
	}
	s.levels = nil
	if err := s.start(); err != nil {
		panic(engineError{"solver restart failed: " + err.Error()})
	}
}

// roundtrip writes text, then an echo marker, and returns all output lines
// before the marker.
func (s *Solver) roundtrip(text string) ([]string, error) {
	if s.logw != nil {
		io.WriteString(s.logw, text)
	}
	if _, err := io.WriteString(s.in, text+"(echo \"@@END@@\")\n"); err != nil {
		return nil, err
	}
	var lines []string
	for {
		line, err := s.out.ReadString('\n')
		if err != nil {
			return lines, fmt.Errorf("solver died: %v (%s)", err, strings.Join(lines, " | "))
		}
		line = strings.TrimRight(line, "\r\n")
		if line == "@@END@@" || line == "\"@@END@@\"" {
			return lines, nil
		}
		if line != "" {
			lines = append(lines, line)
		}
	}
}

// sync brings the solver's assertion stack to exactly pc.
func (s *Solver) popLevels(n int, sb *strings.Builder) {
	if n <= 0 {
		return
	}
	fmt.Fprintf(sb, "(pop %d)\n", n)
	for i := 0; i < n; i++ {
		lv := s.levels[len(s.levels)-1]
		for _, t := range lv {
			t.emitted = false
		}
		s.levels = s.levels[:len(s.levels)-1]
	}
}

func (s *Solver) syncText(pc []*Term, sb *strings.Builder) {
	n := 0
	for n < len(pc) && n < len(s.asserted) && pc[n] == s.asserted[n] {
		n++
	}
	s.popLevels(len(s.asserted)-n, sb)
	s.asserted = s.asserted[:n]
	for _, t := range pc[n:] {
		sb.WriteString("(push 1)\n")
		var rec []*Term
		emitDefs(t, sb, &rec)
		fmt.Fprintf(sb, "(assert %s)\n", ref(t))
		s.levels = append(s.levels, rec)
		s.asserted = append(s.asserted, t)
	}
}

// Check decides satisfiability of pc ∧ extra (extra may be nil). When
// wantModel is set and the answer is sat, the values of all declared
// variables are returned.
func (s *Solver) Check(pc []*Term, extra []*Term, wantModel bool) (SatResult, map[string]uint64) {
	t0 := time.Now()
	defer func() {
		d := time.Since(t0).Seconds()
		s.Stats.Seconds += d
		if dir := os.Getenv("SYMGO_SLOWLOG"); dir != "" && d > slowThreshold() {
			os.WriteFile(fmt.Sprintf("%s/slow-%d-%d.smt2", dir, os.Getpid(), s.Stats.Queries), []byte(dumpQuery(pc, extra)), 0o644)
		}
	}()
	s.Stats.Queries++
	if resetMode {
		return s.checkReset(pc, extra, wantModel)
	}
	var sb strings.Builder
	s.syncText(pc, &sb)
	sb.WriteString("(push 1)\n")
	var rec []*Term
	for _, e := range extra {
		emitDefs(e, &sb, &rec)
	}
	s.levels = append(s.levels, rec)
	for _, e := range extra {
		fmt.Fprintf(&sb, "(assert %s)\n", ref(e))
	}
	// two-stage: the incremental core with a short budget first (fast on the
	// many easy queries), then the bit-blasting tactic with the full budget
	twoStage := s.kind != "cvc5"
	if twoStage {
		fmt.Fprintf(&sb, "(set-option :timeout %d)\n(check-sat)\n", fastBudgetMs)
	} else {
		sb.WriteString("(check-sat)\n")
	}
	parse := func(lines []string, err error) (SatResult, bool) {
		res := Unknown
		bad := err != nil
		for _, l := range lines {
			switch {
			case l == "sat":
				res = Sat
			case l == "unsat":
				res = Unsat
			case l == "unknown" || l == "timeout":
				res = Unknown
			case strings.Contains(l, "(error"):
				bad = true
				s.lastErr = l
			}
		}
		return res, bad
	}
	lines, err := s.roundtrip(sb.String())
	res, bad := parse(lines, err)
	if !bad && res == Unknown && twoStage {
		s.Stats.Retries++
		lines, err = s.roundtrip(fmt.Sprintf("(set-option :timeout %d)\n(check-sat-using qfbv)\n", s.timeoutMs))
		res, bad = parse(lines, err)
	}
	if bad {
		s.Stats.Errors++
		s.Stats.Unknown++
		if err != nil {
			s.lastErr = err.Error()
		}
		s.restart()
		return Unknown, nil
	}
	var model map[string]uint64
	if res == Sat && wantModel {
		model = s.getModel()
		if model == nil {
			res = Unknown
		}
	}
	var pb strings.Builder
	s.popLevels(1, &pb)
	if _, err := s.roundtrip(pb.String()); err != nil {
		s.restart()
	}
	switch res {
	case Sat:
		s.Stats.Sat++
	case Unsat:
		s.Stats.Unsat++
	default:
		s.Stats.Unknown++
	}
	return res, model
}

func (s *Solver) getModel() map[string]uint64 {
	var vars []*Term
	for _, v := range s.tt.vars {
		if v.emitted {
			vars = append(vars, v)
		}
	}
	model := make(map[string]uint64)
	if len(vars) == 0 {
		return model
	}
	var sb strings.Builder
	sb.WriteString("(get-value (")
	for _, v := range vars {
		sb.WriteString(ref(v))
		sb.WriteByte(' ')
	}
	sb.WriteString("))\n")
	lines, err := s.roundtrip(sb.String())
	if err != nil {
		return nil
	}
	text := strings.Join(lines, " ")
	if strings.Contains(text, "(error") {
		s.lastErr = text
		return nil
	}
	parseModel(text, model)
	return model
}

func sexpTokens(text string) []string {
	var toks []string
	i := 0
	for i < len(text) {
		c := text[i]
		switch {
		case c == ' ' || c == '\t' || c == '\n':
			i++
		case c == '(' || c == ')':
			toks = append(toks, string(c))
			i++
		case c == '|':
			j := strings.IndexByte(text[i+1:], '|')
			if j < 0 {
				return toks
			}
			toks = append(toks, text[i:i+j+2])
			i += j + 2
		default:
			j := i
			for j < len(text) && text[j] != ' ' && text[j] != '(' && text[j] != ')' {
				j++
			}
			toks = append(toks, text[i:j])
			i = j
		}
	}
	return toks
}

// dumpQuery renders pc ∧ extra as a self-contained SMT-LIB2 script.
func dumpQuery(pc, extra []*Term) string {
	var sb strings.Builder
	seen := map[int32]bool{}
	var visit func(t *Term)
	visit = func(t *Term) {
		if t == nil || seen[t.id] || t.op == OpConst {
			return
		}
		seen[t.id] = true
		visit(t.a)
		visit(t.b)
		visit(t.c)
		if t.op == OpVar {
			fmt.Fprintf(&sb, "(declare-const |%s| %s)\n", t.name, sortName(t.w))
		} else {
			fmt.Fprintf(&sb, "(define-fun n%d () %s %s)\n", t.id, sortName(t.w), body(t))
		}
	}
	for _, t := range pc {
		visit(t)
	}
	for _, t := range extra {
		visit(t)
	}
	for _, t := range pc {
		fmt.Fprintf(&sb, "(assert %s)\n", ref(t))
	}
	for _, t := range extra {
		fmt.Fprintf(&sb, "(assert %s)\n", ref(t))
	}
	sb.WriteString("(check-sat)\n")
	return sb.String()
}

var resetMode = os.Getenv("SYMGO_SOLVER_MODE") == "reset"

const fastBudgetMs = 150

// checkReset sends every query as a self-contained script after (reset): the
// solver then uses its non-incremental pipeline, which is markedly faster and
// does not degrade over thousands of push/pop rounds.
func (s *Solver) checkReset(pc, extra []*Term, wantModel bool) (SatResult, map[string]uint64) {
	var sb strings.Builder
	sb.WriteString("(reset)\n")
	if s.kind != "cvc5" {
		fmt.Fprintf(&sb, "(set-option :timeout %d)\n", s.timeoutMs)
		if wantModel {
			sb.WriteString("(set-option :produce-models true)\n")
		}
	} else {
		sb.WriteString("(set-logic QF_BV)\n")
	}
	var vars []*Term
	seen := map[int32]bool{}
	var visit func(t *Term)
	visit = func(t *Term) {
		if t == nil || seen[t.id] || t.op == OpConst {
			return
		}
		seen[t.id] = true
		visit(t.a)
		visit(t.b)
		visit(t.c)
		if t.op == OpVar {
			fmt.Fprintf(&sb, "(declare-const |%s| %s)\n", t.name, sortName(t.w))
			vars = append(vars, t)
		} else {
			fmt.Fprintf(&sb, "(define-fun n%d () %s %s)\n", t.id, sortName(t.w), body(t))
		}
	}
	for _, t := range pc {
		visit(t)
	}
	for _, t := range extra {
		visit(t)
	}
	for _, t := range pc {
		fmt.Fprintf(&sb, "(assert %s)\n", ref(t))
	}
	for _, t := range extra {
		fmt.Fprintf(&sb, "(assert %s)\n", ref(t))
	}
	sb.WriteString("(check-sat)\n")
	lines, err := s.roundtrip(sb.String())
	res := Unknown
	bad := err != nil
	for _, l := range lines {
		switch {
		case l == "sat":
			res = Sat
		case l == "unsat":
			res = Unsat
		case l == "unknown" || l == "timeout":
			res = Unknown
		case strings.Contains(l, "(error"):
			bad = true
			s.lastErr = l
		}
	}
	if bad {
		s.Stats.Errors++
		s.Stats.Unknown++
		if err != nil {
			s.lastErr = err.Error()
		}
		s.restart()
		return Unknown, nil
	}
	var model map[string]uint64
	if res == Sat && wantModel {
		model = map[string]uint64{}
		if len(vars) > 0 {
			var gb strings.Builder
			gb.WriteString("(get-value (")
			for _, v := range vars {
				gb.WriteString(ref(v))
				gb.WriteByte(' ')
			}
			gb.WriteString("))\n")
			ml, err := s.roundtrip(gb.String())
			if err != nil {
				s.restart()
				return Unknown, nil
			}
			text := strings.Join(ml, " ")
			if strings.Contains(text, "(error") {
				s.lastErr = text
				s.Stats.Unknown++
				return Unknown, nil
			}
			parseModel(text, model)
		}
	}
	switch res {
	case Sat:
		s.Stats.Sat++
	case Unsat:
		s.Stats.Unsat++
	default:
		s.Stats.Unknown++
	}
	return res, model
}

func parseModel(text string, model map[string]uint64) {
	// parse ((name value) ...) where name may be |quoted| and value one of
	// true/false/#x../#b../(_ bvN w)
	toks := sexpTokens(text)
	for i := 0; i+2 < len(toks); i++ {
		if toks[i] != "(" || toks[i+1] == "(" || toks[i+1] == ")" {
			continue
		}
		name := strings.Trim(toks[i+1], "|")
		val := toks[i+2]
		switch {
		case val == "true":
			model[name] = 1
		case val == "false":
			model[name] = 0
		case strings.HasPrefix(val, "#x"):
			v, _ := strconv.ParseUint(val[2:], 16, 64)
			model[name] = v
		case strings.HasPrefix(val, "#b"):
			v, _ := strconv.ParseUint(val[2:], 2, 64)
			model[name] = v
		case val == "(" && i+4 < len(toks) && toks[i+3] == "_" && strings.HasPrefix(toks[i+4], "bv"):
			v, _ := strconv.ParseUint(toks[i+4][2:], 10, 64)
			model[name] = v
		default:
			continue
		}
	}
}

// checkStandalone decides pc ∧ extra with a self-contained script after
// (reset); it does not touch the emitted flags of the shared term table.
func (s *Solver) checkStandalone(pc, extra []*Term) SatResult {
	t0 := time.Now()
	defer func() { s.Stats.Seconds += time.Since(t0).Seconds() }()
	s.Stats.Queries++
	var sb strings.Builder
	if s.kind == "cvc5" {
		sb.WriteString("(reset)\n(set-logic QF_BV)\n")
	} else {
		fmt.Fprintf(&sb, "(reset)\n(set-option :timeout %d)\n", s.timeoutMs)
	}
	sb.WriteString(dumpQuery(pc, extra))
	lines, err := s.roundtrip(sb.String())
	if err != nil {
		s.restart()
		return Unknown
	}
	res := Unknown
	for _, l := range lines {
		switch {
		case l == "sat":
			res = Sat
		case l == "unsat":
			res = Unsat
		case strings.Contains(l, "(error"):
			s.lastErr = l
			return Unknown
		}
	}
	return res
}

func slowThreshold() float64 {
	if v := os.Getenv("SYMGO_SLOWLOG_S"); v != "" {
		var f float64
		fmt.Sscanf(v, "%g", &f)
		if f > 0 {
			return f
		}
	}
	return 1.0
}
