package main

// SSA interpreter over symbolic values (structure follows x/tools/go/ssa/interp).

import (
	"os"
	"runtime/debug"
	"fmt"
	"go/constant"
	"go/token"
	"go/types"
	"strings"

	"golang.org/x/tools/go/ssa"
)

type deferred struct {
	fn    Value
	args  []Value
	instr *ssa.Defer
	tail  *deferred
}

type frame struct {
	spinVisits map[int]int
	spinEpoch  int
	e          *Exec
	g          *G
	caller     *frame
	fn         *ssa.Function
	block      *ssa.BasicBlock
	prevBlock  *ssa.BasicBlock
	env        map[ssa.Value]Value
	locals     []Value
	defers     *deferred
	result     Value
	panicking  bool
	panicVal   interface{}
	visits     map[int]int
	phitemps   []Value
}

func (e *Exec) constValue(c *ssa.Const) Value {
	if c.Value == nil {
		return e.zero(c.Type())
	}
	t := c.Type().Underlying()
	if b, ok := t.(*types.Basic); ok {
		switch {
		case b.Info()&types.IsBoolean != 0:
			return e.tt.Bool(constant.BoolVal(c.Value))
		case b.Info()&types.IsString != 0:
			if c.Value.Kind() == constant.String {
				return e.strConst(constant.StringVal(c.Value))
			}
			return e.strConst(string(rune(c.Int64())))
		case b.Info()&types.IsInteger != 0:
			ik, _ := basicInt(b)
			if ik.signed {
				return e.tt.BV(ik.w, uint64(c.Int64()))
			}
			return e.tt.BV(ik.w, c.Uint64())
		case b.Info()&types.IsFloat != 0:
			return Float{c.Float64()}
		case b.Kind() == types.UnsafePointer:
			return (*Value)(nil)
		}
		return Opaque{"const " + c.String()}
	}
	if _, ok := t.(*types.Interface); ok {
		return Iface{}
	}
	return e.zero(c.Type())
}

func (fr *frame) get(key ssa.Value) Value {
	switch key := key.(type) {
	case nil:
		return nil
	case *ssa.Function:
		return &Closure{fn: key}
	case *ssa.Builtin:
		return key
	case *ssa.Const:
		return fr.e.constValue(key)
	case *ssa.Global:
		if p, ok := fr.e.globals[key]; ok {
			return p
		}
		fr.e.curFn = fr.fn
		return fr.e.global(key)
	}
	if r, ok := fr.env[key]; ok {
		return r
	}
	panic(engineError{fmt.Sprintf("get: no value for %T: %v in %s", key, key.Name(), fr.fn)})
}

func (e *Exec) global(g *ssa.Global) *Value {
	if p, ok := e.globals[g]; ok {
		return p
	}
	if g.Pkg != nil && !e.ld.initAllowed(g.Pkg) {
		if !e.ld.globalOK(g) {
			in := ""
			if e.curFn != nil {
				in = " (in " + e.curFn.String() + ")"
			}
			unsupported("read of global %s of package whose init is not executed%s", g.String(), in)
		}
	}
	cell := e.zero(g.Type().(*types.Pointer).Elem())
	p := &cell
	e.globals[g] = p
	return p
}

func (e *Exec) pos(p token.Pos) string {
	if p == token.NoPos {
		return "?"
	}
	ps := e.ld.fset.Position(p)
	f := ps.Filename
	if i := strings.LastIndex(f, "/repo/"); i >= 0 {
		f = f[i+6:]
	}
	return fmt.Sprintf("%s:%d", f, ps.Line)
}

func (e *Exec) runtimeError(msg string) Value {
	return Iface{t: e.ld.runtimeErrorString, v: e.strConst(msg)}
}

func (fr *frame) rtPanic(instr ssa.Instruction, msg string) {
	panic(targetPanic{fr.e.runtimeError(msg), fr.fn.String() + "@" + fr.e.pos(instr.Pos())})
}

func (fr *frame) runDefer(d *deferred) {
	var ok bool
	defer func() {
		if !ok {
			r := recover()
			if pe, isEnd := r.(pathEnd); isEnd {
				panic(pe)
			}
			if ee, isErr := r.(engineError); isErr {
				panic(ee)
			}
			if ag, isAbort := r.(abortG); isAbort {
				panic(ag)
			}
			if ce, isCrash := r.(crashEnd); isCrash {
				panic(ce)
			}
			fr.panicking = true
			fr.panicVal = r
		}
	}()
	fr.e.call(fr, d.instr.Pos(), d.fn, d.args)
	ok = true
}

func (fr *frame) runDefers() {
	for d := fr.defers; d != nil; d = d.tail {
		fr.runDefer(d)
	}
	fr.defers = nil
	if fr.panicking {
		panic(fr.panicVal)
	}
}

func (e *Exec) lookupMethod(typ types.Type, meth *types.Func) *ssa.Function {
	return e.ld.prog.LookupMethod(typ, meth.Pkg(), meth.Name())
}

func (fr *frame) prepareCall(call *ssa.CallCommon, instr ssa.Instruction) (fn Value, args []Value) {
	v := fr.get(call.Value)
	if call.Method == nil {
		fn = v
	} else {
		recv := v.(Iface)
		if recv.t == nil {
			fr.rtPanic(instr, "invalid memory address or nil pointer dereference (method call on nil interface)")
		}
		f := fr.e.lookupMethod(recv.t, call.Method)
		if f == nil {
			panic(engineError{fmt.Sprintf("method set for dynamic type %v does not contain %s", recv.t, call.Method)})
		}
		fn = &Closure{fn: f}
		args = append(args, recv.v)
	}
	for _, arg := range call.Args {
		args = append(args, fr.get(arg))
	}
	return
}

func (e *Exec) call(caller *frame, pos token.Pos, fn Value, args []Value) Value {
	switch fn := fn.(type) {
	case *Closure:
		if fn == nil {
			panic(targetPanic{e.runtimeError("invalid memory address or nil pointer dereference (call of nil func)"), "call@" + e.pos(pos)})
		}
		return e.callSSA(caller, pos, fn.fn, args, fn.env)
	case *ssa.Builtin:
		return e.callBuiltin(caller, pos, fn, args)
	}
	panic(engineError{fmt.Sprintf("cannot call %T", fn)})
}

func (e *Exec) callSSA(caller *frame, pos token.Pos, fn *ssa.Function, args []Value, env []Value) Value {
	var g *G
	if caller != nil {
		g = caller.g
	} else {
		g = e.sched.cur
	}
	fr := &frame{e: e, g: g, caller: caller, fn: fn}
	if fn.Parent() == nil {
		if h := e.ld.intrinsic(fn); h != nil {
			e.stubsHit[fn.String()]++
			return h(fr, args)
		}
		if e.ld.zeroStubs[fn.String()] {
			e.stubsHit["zero:"+fn.String()]++
			return e.zeroResults(fn)
		}
		if m := e.ld.redirect(fn); m != nil {
			e.stubsHit["model:"+fn.String()]++
			fn = m
			fr.fn = m
		}
		if fn.Pkg != nil && fn.Name() == "init" && fn.Signature.Recv() == nil && fn == fn.Pkg.Func("init") {
			if !e.ld.initAllowed(fn.Pkg) {
				return nil
			}
		}
	}
	if fn.Blocks == nil {
		if fn.Pkg != nil {
			e.ld.build(fn.Pkg)
		}
		if fn.Blocks == nil {
			unsupported("no body for function %s", fn.String())
		}
	}
	if fn.TypeParams().Len() > 0 && len(fn.TypeArgs()) == 0 {
		unsupported("uninstantiated generic %s", fn.String())
	}
	e.funcsSeen[fn]++
	if e.cfg.Trace {
		fmt.Printf("%*s> %s\n", depth(caller), "", fn.String())
	}
	fr.env = make(map[ssa.Value]Value, 16)
	fr.block = fn.Blocks[0]
	fr.locals = make([]Value, len(fn.Locals))
	for i, l := range fn.Locals {
		fr.locals[i] = e.zero(l.Type().Underlying().(*types.Pointer).Elem())
		fr.env[l] = &fr.locals[i]
	}
	for i, p := range fn.Params {
		fr.env[p] = args[i]
	}
	for i, fv := range fn.FreeVars {
		fr.env[fv] = env[i]
	}
	for fr.block != nil {
		fr.run()
	}
	return fr.result
}

func depth(fr *frame) int {
	d := 0
	for ; fr != nil; fr = fr.caller {
		d++
	}
	return d
}

func (fr *frame) run() {
	defer func() {
		if fr.block == nil {
			return // normal return
		}
		r := recover()
		switch r := r.(type) {
		case pathEnd:
			panic(r)
		case engineError:
			panic(r)
		case abortG:
			panic(r)
		case crashEnd:
			panic(r)
		case targetPanic:
		default:
			// Go-level bug in the engine: surface with context
			if os.Getenv("SYMGO_DEBUG") != "" {
				fmt.Fprintf(os.Stderr, "engine crash in %s: %v\n%s\n", fr.fn, r, debug.Stack())
			}
			panic(engineError{fmt.Sprintf("engine crash in %s: %v", fr.fn, r)})
		}
		fr.panicking = true
		fr.panicVal = r
		fr.runDefers()
		fr.block = fr.fn.Recover
		if fr.block == nil {
			// recovered, no named results: return zero values
			fr.result = fr.e.zeroResults(fr.fn)
		}
	}()
	for {
		if fr.visits == nil {
			fr.visits = map[int]int{}
		}
		fr.visits[fr.block.Index]++
		if lim := fr.e.spinLimit; lim > 0 {
			if g := fr.e.curG(fr); g != nil && !g.isMain {
				if fr.spinVisits == nil || fr.spinEpoch != g.epoch {
					fr.spinVisits, fr.spinEpoch = map[int]int{}, g.epoch
				}
				fr.spinVisits[fr.block.Index]++
				if fr.spinVisits[fr.block.Index] > lim {
					// a livelock: the goroutine only burns CPU. Park it for good,
					// so that what the others then (fail to) observe is reported.
					fr.e.spinParked++
					fr.e.block(g, fmt.Sprintf("spinning in %s (parked)", fr.fn), func() bool { return false })
				}
			}
		}
		if fr.visits[fr.block.Index] > fr.e.unwind {
			panic(pathEnd{"truncated", fmt.Sprintf("unwind bound %d exceeded in %s block %d", fr.e.unwind, fr.fn, fr.block.Index)})
		}
		nonPhis := fr.executePhis()
		for _, instr := range nonPhis {
			fr.e.steps++
			if fr.g != fr.e.sched.cur {
				panic(engineError{fmt.Sprintf("baton violation: g%d executes while g%d holds the baton (in %s)", gid(fr.g), gid(fr.e.sched.cur), fr.fn)})
			}
			if fr.e.steps > fr.e.cfg.MaxSteps {
				panic(pathEnd{"truncated", "step budget exceeded"})
			}
			if fr.e.cfg.Trace {
				if v, ok := instr.(ssa.Value); ok {
					fmt.Printf("%*s  %s = %s\n", depth(fr.caller), "", v.Name(), instr)
				} else {
					fmt.Printf("%*s  %s\n", depth(fr.caller), "", instr)
				}
			}
			if fr.visit(instr) == kReturn {
				return
			}
		}
	}
}

func (e *Exec) zeroResults(fn *ssa.Function) Value {
	res := fn.Signature.Results()
	switch res.Len() {
	case 0:
		return nil
	case 1:
		return e.zero(res.At(0).Type())
	}
	t := make(Tuple, res.Len())
	for i := range t {
		t[i] = e.zero(res.At(i).Type())
	}
	return t
}

func (fr *frame) executePhis() []ssa.Instruction {
	first := 0
	for i, instr := range fr.block.Instrs {
		if _, ok := instr.(*ssa.Phi); !ok {
			first = i
			break
		}
	}
	if first > 0 {
		predIndex := -1
		for i, p := range fr.block.Preds {
			if p == fr.prevBlock {
				predIndex = i
				break
			}
		}
		fr.phitemps = fr.phitemps[:0]
		for _, phi := range fr.block.Instrs[:first] {
			fr.phitemps = append(fr.phitemps, fr.get(phi.(*ssa.Phi).Edges[predIndex]))
		}
		for i, phi := range fr.block.Instrs[:first] {
			fr.env[phi.(*ssa.Phi)] = fr.phitemps[i]
		}
	}
	return fr.block.Instrs[first:]
}

type continuation int

const (
	kNext continuation = iota
	kReturn
	kJump
)

func (fr *frame) deref(instr ssa.Instruction, p Value) *Value {
	ptr, ok := p.(*Value)
	if !ok {
		panic(engineError{fmt.Sprintf("deref of non-pointer %T in %s", p, fr.fn)})
	}
	if ptr == nil {
		fr.rtPanic(instr, "invalid memory address or nil pointer dereference")
	}
	return ptr
}

func (fr *frame) visit(instr ssa.Instruction) continuation {
	e := fr.e
	switch instr := instr.(type) {
	case *ssa.DebugRef:

	case *ssa.UnOp:
		fr.env[instr] = fr.unop(instr, fr.get(instr.X))

	case *ssa.BinOp:
		fr.env[instr] = fr.binop(instr, fr.get(instr.X), fr.get(instr.Y))

	case *ssa.Call:
		fn, args := fr.prepareCall(&instr.Call, instr)
		fr.env[instr] = e.call(fr, instr.Pos(), fn, args)

	case *ssa.ChangeInterface:
		fr.env[instr] = fr.get(instr.X)

	case *ssa.ChangeType:
		fr.env[instr] = fr.get(instr.X)

	case *ssa.Convert:
		fr.env[instr] = fr.conv(instr, instr.Type(), instr.X.Type(), fr.get(instr.X))

	case *ssa.SliceToArrayPointer:
		s := fr.get(instr.X).(Slice)
		n := int(instr.Type().Underlying().(*types.Pointer).Elem().Underlying().(*types.Array).Len())
		if len(s.a) < n {
			fr.rtPanic(instr, "cannot convert slice to array pointer: length too short")
		}
		if s.a == nil {
			fr.env[instr] = (*Value)(nil)
		} else {
			var cell Value = Array(s.a[:n:n])
			fr.env[instr] = &cell
		}

	case *ssa.MakeInterface:
		fr.env[instr] = Iface{t: instr.X.Type(), v: fr.get(instr.X)}

	case *ssa.Extract:
		fr.env[instr] = fr.get(instr.Tuple).(Tuple)[instr.Index]

	case *ssa.Slice:
		fr.env[instr] = fr.slice(instr, fr.get(instr.X), fr.get(instr.Low), fr.get(instr.High), fr.get(instr.Max))

	case *ssa.Return:
		switch len(instr.Results) {
		case 0:
		case 1:
			fr.result = fr.get(instr.Results[0])
		default:
			res := make(Tuple, len(instr.Results))
			for i, r := range instr.Results {
				res[i] = fr.get(r)
			}
			fr.result = res
		}
		fr.block = nil
		return kReturn

	case *ssa.RunDefers:
		fr.runDefers()

	case *ssa.Panic:
		v := fr.get(instr.X)
		if iv, ok := v.(Iface); ok && iv.t == nil && e.ld.panicNilError != nil {
			var cell Value = e.zero(e.ld.panicNilError)
			v = Iface{t: types.NewPointer(e.ld.panicNilError), v: &cell}
		}
		panic(targetPanic{v, fr.fn.String() + "@" + e.pos(instr.Pos())})

	case *ssa.Send:
		e.chanSend(fr, instr, fr.get(instr.Chan).(*ChanV), fr.get(instr.X))

	case *ssa.Store:
		storeVal(fr.deref(instr, fr.get(instr.Addr)), fr.get(instr.Val))

	case *ssa.If:
		succ := 1
		if e.branch(fr.get(instr.Cond).(*Term)) {
			succ = 0
		}
		fr.prevBlock, fr.block = fr.block, fr.block.Succs[succ]
		return kJump

	case *ssa.Jump:
		fr.prevBlock, fr.block = fr.block, fr.block.Succs[0]
		return kJump

	case *ssa.Defer:
		fn, args := fr.prepareCall(&instr.Call, instr)
		defers := &fr.defers
		if instr.DeferStack != nil {
			if ref, ok := fr.get(instr.DeferStack).(*deferStackRef); ok && ref != nil {
				defers = &ref.fr.defers
			} else {
				unsupported("defer stack of unknown kind")
			}
		}
		*defers = &deferred{fn: fn, args: args, instr: instr, tail: *defers}

	case *ssa.Go:
		fn, args := fr.prepareCall(&instr.Call, instr)
		e.spawn(fr, instr.Pos(), fn, args)

	case *ssa.MakeChan:
		n := e.concretize(fr.get(instr.Size).(*Term), "make chan size")
		fr.env[instr] = &ChanV{cap: int(n), id: e.sched.nextChanID()}

	case *ssa.Alloc:
		var addr *Value
		if instr.Heap {
			addr = new(Value)
			fr.env[instr] = addr
		} else {
			addr = fr.env[instr].(*Value)
		}
		*addr = e.zero(instr.Type().Underlying().(*types.Pointer).Elem())

	case *ssa.MakeSlice:
		lt := fr.get(instr.Len).(*Term)
		ct := fr.get(instr.Cap).(*Term)
		if !lt.IsConst() {
			if e.branch(e.tt.Cmp(OpSlt, lt, e.tt.BV(64, 0))) {
				fr.rtPanic(instr, "makeslice: len out of range")
			}
			// makeslice panics when len*elemsize exceeds maxAlloc (2^48 on
			// linux/amd64); smaller symbolic lengths are concretised (and
			// truncate the path when unbounded).
			esz := e.ld.sizes.Sizeof(instr.Type().Underlying().(*types.Slice).Elem())
			if esz < 1 {
				esz = 1
			}
			if e.branch(e.tt.Cmp(OpSlt, e.tt.BV(64, uint64((1<<48)/esz)), lt)) {
				fr.rtPanic(instr, "makeslice: len out of range")
			}
		}
		sameCap := lt == ct
		n := int64(e.concretize(lt, "makeslice len"))
		var c int64
		if sameCap {
			c = n
		} else {
			c = int64(e.concretize(ct, "makeslice cap"))
		}
		if n < 0 || n > 1<<24 {
			fr.rtPanic(instr, "makeslice: len out of range")
		}
		if c < n || c > 1<<24 {
			fr.rtPanic(instr, "makeslice: cap out of range")
		}
		tElt := instr.Type().Underlying().(*types.Slice).Elem()
		sl := make([]Value, c)
		if c > 0 {
			z := e.zero(tElt)
			for i := range sl {
				sl[i] = copyVal(z)
			}
		}
		fr.env[instr] = Slice{sl[:n]}

	case *ssa.MakeMap:
		fr.env[instr] = e.newMap(instr.Type().Underlying().(*types.Map).Key())

	case *ssa.Range:
		fr.env[instr] = fr.rangeIter(instr, fr.get(instr.X))

	case *ssa.Next:
		fr.env[instr] = fr.get(instr.Iter).(iterator).next(fr, instr)

	case *ssa.FieldAddr:
		p := fr.deref(instr, fr.get(instr.X))
		fr.env[instr] = &(*p).(Struct)[instr.Field]

	case *ssa.Field:
		fr.env[instr] = fr.get(instr.X).(Struct)[instr.Field]

	case *ssa.IndexAddr:
		x := fr.get(instr.X)
		idx := fr.get(instr.Index).(*Term)
		switch x := x.(type) {
		case Slice:
			i := fr.boundedIndex(instr, idx, instr.Index.Type(), len(x.a))
			fr.env[instr] = &x.a[i]
		case *Value:
			if x == nil {
				fr.rtPanic(instr, "invalid memory address or nil pointer dereference")
			}
			arr := (*x).(Array)
			i := fr.boundedIndex(instr, idx, instr.Index.Type(), len(arr))
			fr.env[instr] = &arr[i]
		default:
			panic(engineError{fmt.Sprintf("IndexAddr on %T", x)})
		}

	case *ssa.Index:
		x := fr.get(instr.X)
		idx := fr.get(instr.Index).(*Term)
		switch x := x.(type) {
		case Array:
			fr.env[instr] = fr.indexValue(instr, idx, instr.Index.Type(), len(x), func(i int) Value { return x[i] })
		case Str:
			fr.env[instr] = fr.indexValue(instr, idx, instr.Index.Type(), len(x.b), func(i int) Value { return x.b[i] })
		case Slice:
			// (instantiated generic code indexing a []byte | string operand)
			fr.env[instr] = fr.indexValue(instr, idx, instr.Index.Type(), len(x.a), func(i int) Value { return x.a[i] })
		default:
			panic(engineError{fmt.Sprintf("Index on %T", x)})
		}

	case *ssa.Lookup:
		fr.env[instr] = fr.lookup(instr, fr.get(instr.X), fr.get(instr.Index))

	case *ssa.MapUpdate:
		m := fr.get(instr.Map).(*MapV)
		if m == nil {
			fr.rtPanic(instr, "assignment to entry in nil map")
		}
		e.mapInsert(m, fr.get(instr.Key), fr.get(instr.Value))

	case *ssa.TypeAssert:
		fr.env[instr] = fr.typeAssert(instr, fr.get(instr.X).(Iface))

	case *ssa.MakeClosure:
		var bindings []Value
		for _, b := range instr.Bindings {
			bindings = append(bindings, fr.get(b))
		}
		fr.env[instr] = &Closure{instr.Fn.(*ssa.Function), bindings}

	case *ssa.Select:
		fr.env[instr] = e.selectStmt(fr, instr)

	case *ssa.MultiConvert:
		unsupported("MultiConvert")

	default:
		panic(engineError{fmt.Sprintf("unexpected instruction %T", instr)})
	}
	return kNext
}

// boundedIndex forks on the in-range test and concretises the index.
func (fr *frame) boundedIndex(instr ssa.Instruction, idx *Term, it types.Type, n int) int {
	e := fr.e
	idx = e.toInt64(idx, it)
	if idx.IsConst() {
		v := idx.SConst()
		if v < 0 || v >= int64(n) {
			fr.rtPanic(instr, fmt.Sprintf("index out of range [%d] with length %d", v, n))
		}
		return int(v)
	}
	inRange := e.tt.Cmp(OpUlt, idx, e.tt.BV(64, uint64(n)))
	if !e.branch(inRange) {
		fr.rtPanic(instr, fmt.Sprintf("index out of range [symbolic] with length %d", n))
	}
	return int(e.concretize(idx, "index at "+e.pos(instr.Pos())))
}

// indexValue reads element idx without forking on the value of idx when the
// elements are terms (ite chain); otherwise falls back to boundedIndex.
func (fr *frame) indexValue(instr ssa.Instruction, idx *Term, it types.Type, n int, at func(int) Value) Value {
	e := fr.e
	idx = e.toInt64(idx, it)
	if idx.IsConst() {
		return at(fr.boundedIndex(instr, idx, types.Typ[types.Int64], n))
	}
	inRange := e.tt.Cmp(OpUlt, idx, e.tt.BV(64, uint64(n)))
	if !e.branch(inRange) {
		fr.rtPanic(instr, fmt.Sprintf("index out of range [symbolic] with length %d", n))
	}
	allTerms := true
	for i := 0; i < n; i++ {
		if _, ok := at(i).(*Term); !ok {
			allTerms = false
			break
		}
	}
	if !allTerms || n > 512 {
		return at(int(e.concretize(idx, "index at "+e.pos(instr.Pos()))))
	}
	r := at(n - 1).(*Term)
	for i := n - 2; i >= 0; i-- {
		r = e.tt.Ite(e.tt.Eq(idx, e.tt.BV(64, uint64(i))), at(i).(*Term), r)
	}
	return r
}

// toInt64 widens an index/length operand of static type t to 64 bits.
func (e *Exec) toInt64(x *Term, t types.Type) *Term {
	if x.w == 64 {
		return x
	}
	ik, ok := basicInt(t)
	if ok && ik.signed {
		return e.tt.SExt(x, 64)
	}
	return e.tt.ZExt(x, 64)
}

func (fr *frame) typeAssert(instr *ssa.TypeAssert, itf Iface) Value {
	e := fr.e
	var v Value
	ok := false
	if _, isIface := instr.AssertedType.Underlying().(*types.Interface); isIface {
		if itf.t != nil {
			it := instr.AssertedType.Underlying().(*types.Interface)
			if types.Implements(itf.t, it) {
				v = itf
				ok = true
			}
		}
	} else if itf.t != nil && types.Identical(itf.t, instr.AssertedType) {
		v = itf.v
		ok = true
	}
	if !ok {
		if !instr.CommaOk {
			desc := "nil"
			if itf.t != nil {
				desc = itf.t.String()
			}
			fr.rtPanic(instr, fmt.Sprintf("interface conversion: interface is %s, not %s", desc, instr.AssertedType))
		}
		v = e.zero(instr.AssertedType)
	}
	if instr.CommaOk {
		return Tuple{v, e.tt.Bool(ok)}
	}
	return v
}

func gid(g *G) int {
	if g == nil {
		return -1
	}
	return g.id
}
