package main

import (
	"fmt"
	"go/token"
	"go/types"
	"math"
	"unicode/utf8"

	"golang.org/x/tools/go/ssa"
)

func (fr *frame) unop(instr *ssa.UnOp, x Value) Value {
	e := fr.e
	switch instr.Op {
	case token.MUL: // load
		return copyVal(*fr.deref(instr, x))
	case token.ARROW:
		v, ok := e.chanRecv(fr, instr, x.(*ChanV))
		if instr.CommaOk {
			return Tuple{v, e.tt.Bool(ok)}
		}
		return v
	case token.NOT:
		return e.tt.Not(x.(*Term))
	case token.SUB:
		switch x := x.(type) {
		case *Term:
			return e.tt.Neg(x)
		case Float:
			return Float{-x.v}
		}
	case token.XOR:
		return e.tt.BNot(x.(*Term))
	}
	unsupported("unop %s on %T", instr.Op, x)
	return nil
}

func (fr *frame) binop(instr *ssa.BinOp, x, y Value) Value {
	e := fr.e
	tt := e.tt
	op := instr.Op
	xt := instr.X.Type()
	switch xv := x.(type) {
	case *Term:
		yv, ok := y.(*Term)
		if !ok {
			break
		}
		if xv.w == 0 { // bool
			switch op {
			case token.EQL:
				return tt.Eq(xv, yv)
			case token.NEQ:
				return tt.Not(tt.Eq(xv, yv))
			case token.AND, token.LAND:
				return tt.And(xv, yv)
			case token.OR, token.LOR:
				return tt.Or(xv, yv)
			}
			break
		}
		ik, _ := basicInt(xt)
		switch op {
		case token.SHL, token.SHR:
			yk, _ := basicInt(instr.Y.Type())
			if yk.signed {
				neg := tt.Cmp(OpSlt, yv, tt.BV(yv.w, 0))
				if e.branch(neg) {
					fr.rtPanic(instr, "negative shift amount")
				}
			}
			cnt := yv
			if cnt.w > xv.w {
				big := tt.Cmp(OpUle, tt.BV(cnt.w, uint64(xv.w)), cnt)
				cnt = tt.Ite(big, tt.BV(xv.w, uint64(xv.w)), tt.Extract(cnt, xv.w-1, 0))
			} else if cnt.w < xv.w {
				cnt = tt.ZExt(cnt, xv.w)
			}
			if op == token.SHL {
				return tt.Bin(OpShl, xv, cnt)
			}
			if ik.signed {
				return tt.Bin(OpAShr, xv, cnt)
			}
			return tt.Bin(OpLShr, xv, cnt)
		}
		if xv.w != yv.w {
			panic(engineError{fmt.Sprintf("binop %s width mismatch %d/%d at %s", op, xv.w, yv.w, e.pos(instr.Pos()))})
		}
		switch op {
		case token.ADD:
			return tt.Bin(OpAdd, xv, yv)
		case token.SUB:
			return tt.Bin(OpSub, xv, yv)
		case token.MUL:
			return tt.Bin(OpMul, xv, yv)
		case token.QUO, token.REM:
			if e.branch(tt.Eq(yv, tt.BV(yv.w, 0))) {
				fr.rtPanic(instr, "integer divide by zero")
			}
			switch {
			case op == token.QUO && ik.signed:
				return tt.Bin(OpSDiv, xv, yv)
			case op == token.QUO:
				return tt.Bin(OpUDiv, xv, yv)
			case ik.signed:
				return tt.Bin(OpSRem, xv, yv)
			default:
				return tt.Bin(OpURem, xv, yv)
			}
		case token.AND:
			return tt.Bin(OpBAnd, xv, yv)
		case token.OR:
			return tt.Bin(OpBOr, xv, yv)
		case token.XOR:
			return tt.Bin(OpBXor, xv, yv)
		case token.AND_NOT:
			return tt.Bin(OpBAnd, xv, tt.BNot(yv))
		case token.EQL:
			return tt.Eq(xv, yv)
		case token.NEQ:
			return tt.Not(tt.Eq(xv, yv))
		case token.LSS:
			if ik.signed {
				return tt.Cmp(OpSlt, xv, yv)
			}
			return tt.Cmp(OpUlt, xv, yv)
		case token.LEQ:
			if ik.signed {
				return tt.Cmp(OpSle, xv, yv)
			}
			return tt.Cmp(OpUle, xv, yv)
		case token.GTR:
			if ik.signed {
				return tt.Cmp(OpSlt, yv, xv)
			}
			return tt.Cmp(OpUlt, yv, xv)
		case token.GEQ:
			if ik.signed {
				return tt.Cmp(OpSle, yv, xv)
			}
			return tt.Cmp(OpUle, yv, xv)
		}
	case Str:
		yv, ok := y.(Str)
		if !ok {
			break
		}
		switch op {
		case token.ADD:
			b := make([]*Term, 0, len(xv.b)+len(yv.b))
			b = append(b, xv.b...)
			b = append(b, yv.b...)
			return Str{b}
		case token.EQL:
			return e.strEq(xv, yv)
		case token.NEQ:
			return tt.Not(e.strEq(xv, yv))
		case token.LSS:
			return e.strLess(xv, yv)
		case token.GTR:
			return e.strLess(yv, xv)
		case token.LEQ:
			return tt.Not(e.strLess(yv, xv))
		case token.GEQ:
			return tt.Not(e.strLess(xv, yv))
		}
	case Float:
		yv, ok := y.(Float)
		if !ok {
			break
		}
		switch op {
		case token.ADD:
			return Float{xv.v + yv.v}
		case token.SUB:
			return Float{xv.v - yv.v}
		case token.MUL:
			return Float{xv.v * yv.v}
		case token.QUO:
			return Float{xv.v / yv.v}
		case token.EQL:
			return tt.Bool(xv.v == yv.v)
		case token.NEQ:
			return tt.Bool(xv.v != yv.v)
		case token.LSS:
			return tt.Bool(xv.v < yv.v)
		case token.LEQ:
			return tt.Bool(xv.v <= yv.v)
		case token.GTR:
			return tt.Bool(xv.v > yv.v)
		case token.GEQ:
			return tt.Bool(xv.v >= yv.v)
		}
	case Opaque:
		unsupported("binop %s on opaque %s", op, xv.what)
	}
	switch op {
	case token.EQL:
		return e.eqVal(x, y)
	case token.NEQ:
		return tt.Not(e.eqVal(x, y))
	}
	if _, ok := y.(Opaque); ok {
		unsupported("binop %s on opaque", op)
	}
	panic(engineError{fmt.Sprintf("binop %s on %T,%T at %s", op, x, y, e.pos(instr.Pos()))})
}

func (fr *frame) conv(instr ssa.Instruction, tdst, tsrc types.Type, x Value) Value {
	e := fr.e
	tt := e.tt
	ud, us := tdst.Underlying(), tsrc.Underlying()
	// pointers / unsafe
	switch ud.(type) {
	case *types.Pointer:
		return x
	}
	if b, ok := ud.(*types.Basic); ok && b.Kind() == types.UnsafePointer {
		return x
	}
	if dk, ok := basicInt(ud); ok {
		switch xv := x.(type) {
		case *Term:
			sk, _ := basicInt(us)
			if xv.w == dk.w {
				return xv
			}
			if xv.w > dk.w {
				return tt.Extract(xv, dk.w-1, 0)
			}
			if sk.signed {
				return tt.SExt(xv, dk.w)
			}
			return tt.ZExt(xv, dk.w)
		case Float:
			if dk.signed {
				return tt.BV(dk.w, uint64(int64(xv.v)))
			}
			return tt.BV(dk.w, uint64(xv.v))
		case *Value:
			// uintptr(unsafe.Pointer(p))
			unsupported("pointer to integer conversion")
		}
	}
	if isFloat(ud) {
		switch xv := x.(type) {
		case Float:
			if ud.(*types.Basic).Kind() == types.Float32 {
				return Float{float64(float32(xv.v))}
			}
			return xv
		case *Term:
			if !xv.IsConst() {
				unsupported("symbolic integer to float conversion at %s", e.pos(instr.Pos()))
			}
			sk, _ := basicInt(us)
			if sk.signed {
				return Float{float64(xv.SConst())}
			}
			return Float{float64(xv.k)}
		}
	}
	if isString(ud) {
		switch xv := x.(type) {
		case Str:
			return xv
		case *Term: // string(rune)
			sk, _ := basicInt(us)
			var r *Term
			if sk.signed {
				r = tt.SExt(xv, 64)
			} else {
				r = tt.ZExt(xv, 64)
			}
			return fr.encodeRune(r)
		case Slice:
			if elt := us.(*types.Slice).Elem(); isByteType(elt) {
				b := make([]*Term, len(xv.a))
				for i, v := range xv.a {
					b[i] = v.(*Term)
				}
				return Str{b}
			}
			// []rune -> string
			var out []*Term
			for _, v := range xv.a {
				out = append(out, fr.encodeRune(tt.SExt(v.(*Term), 64)).b...)
			}
			return Str{out}
		}
	}
	if sl, ok := ud.(*types.Slice); ok {
		switch xv := x.(type) {
		case Str:
			if isByteType(sl.Elem()) {
				a := make([]Value, len(xv.b))
				for i, b := range xv.b {
					a[i] = b
				}
				return Slice{a}
			}
			// []rune(string)
			var out []Value
			pos := 0
			for pos < len(xv.b) {
				r, w := fr.decodeRune(xv.b[pos:])
				out = append(out, tt.Extract(r, 31, 0))
				pos += w
			}
			if out == nil {
				out = []Value{}
			}
			return Slice{out}
		case Slice:
			return xv
		}
	}
	panic(engineError{fmt.Sprintf("conv %s -> %s (%T) at %s", tsrc, tdst, x, e.pos(instr.Pos()))})
}

func isByteType(t types.Type) bool {
	b, ok := t.Underlying().(*types.Basic)
	return ok && b.Kind() == types.Uint8
}

// encodeRune UTF-8 encodes a (possibly symbolic) 64-bit rune value, forking on width.
func (fr *frame) encodeRune(r *Term) Str {
	e := fr.e
	tt := e.tt
	c := func(v uint64) *Term { return tt.BV(64, v) }
	if r.IsConst() {
		rv := rune(r.SConst())
		if r.SConst() < 0 || r.SConst() > 0x10FFFF {
			rv = utf8.RuneError
		}
		return e.strConst(string(rv))
	}
	b8 := func(t *Term) *Term { return tt.Extract(t, 7, 0) }
	shr := func(t *Term, n uint64) *Term { return tt.Bin(OpLShr, t, c(n)) }
	or := func(a *Term, k uint64) *Term { return tt.Bin(OpBOr, a, c(k)) }
	and := func(a *Term, k uint64) *Term { return tt.Bin(OpBAnd, a, c(k)) }
	if e.branch(tt.Cmp(OpUlt, r, c(0x80))) {
		return Str{[]*Term{b8(r)}}
	}
	if e.branch(tt.Cmp(OpUlt, r, c(0x800))) {
		return Str{[]*Term{b8(or(shr(r, 6), 0xC0)), b8(or(and(r, 0x3F), 0x80))}}
	}
	invalid := tt.Or(tt.Cmp(OpUlt, c(0x10FFFF), r), tt.And(tt.Cmp(OpUle, c(0xD800), r), tt.Cmp(OpUle, r, c(0xDFFF))))
	if e.branch(invalid) {
		return e.strConst(string(utf8.RuneError))
	}
	if e.branch(tt.Cmp(OpUlt, r, c(0x10000))) {
		return Str{[]*Term{b8(or(shr(r, 12), 0xE0)), b8(or(and(shr(r, 6), 0x3F), 0x80)), b8(or(and(r, 0x3F), 0x80))}}
	}
	return Str{[]*Term{b8(or(shr(r, 18), 0xF0)), b8(or(and(shr(r, 12), 0x3F), 0x80)), b8(or(and(shr(r, 6), 0x3F), 0x80)), b8(or(and(r, 0x3F), 0x80))}}
}

// decodeRune decodes the first UTF-8 sequence of b (len(b) > 0) exactly like
// the Go runtime (invalid => RuneError, width 1), forking on the byte classes.
// The result is a 64-bit term and the width.
func (fr *frame) decodeRune(b []*Term) (*Term, int) {
	e := fr.e
	tt := e.tt
	c8 := func(v uint64) *Term { return tt.BV(8, v) }
	in := func(x *Term, lo, hi uint64) *Term {
		return tt.And(tt.Cmp(OpUle, c8(lo), x), tt.Cmp(OpUle, x, c8(hi)))
	}
	z := func(x *Term) *Term { return tt.ZExt(x, 64) }
	c := func(v uint64) *Term { return tt.BV(64, v) }
	bits := func(x *Term, m uint64, sh uint64) *Term {
		return tt.Bin(OpShl, tt.Bin(OpBAnd, z(x), c(m)), c(sh))
	}
	or := func(ts ...*Term) *Term {
		r := ts[0]
		for _, t := range ts[1:] {
			r = tt.Bin(OpBOr, r, t)
		}
		return r
	}
	bad := c(uint64(utf8.RuneError))
	b0 := b[0]
	if e.branch(tt.Cmp(OpUlt, b0, c8(0x80))) {
		return z(b0), 1
	}
	// two-byte
	if e.branch(in(b0, 0xC2, 0xDF)) {
		if len(b) < 2 || !e.branch(in(b[1], 0x80, 0xBF)) {
			return bad, 1
		}
		return or(bits(b0, 0x1F, 6), bits(b[1], 0x3F, 0)), 2
	}
	// three-byte
	if e.branch(in(b0, 0xE0, 0xEF)) {
		if len(b) < 2 {
			return bad, 1
		}
		lo := tt.Ite(tt.Eq(b0, c8(0xE0)), c8(0xA0), c8(0x80))
		hi := tt.Ite(tt.Eq(b0, c8(0xED)), c8(0x9F), c8(0xBF))
		ok1 := tt.And(tt.Cmp(OpUle, lo, b[1]), tt.Cmp(OpUle, b[1], hi))
		if !e.branch(ok1) {
			return bad, 1
		}
		if len(b) < 3 || !e.branch(in(b[2], 0x80, 0xBF)) {
			return bad, 1
		}
		return or(bits(b0, 0x0F, 12), bits(b[1], 0x3F, 6), bits(b[2], 0x3F, 0)), 3
	}
	if e.branch(in(b0, 0xF0, 0xF4)) {
		if len(b) < 2 {
			return bad, 1
		}
		lo := tt.Ite(tt.Eq(b0, c8(0xF0)), c8(0x90), c8(0x80))
		hi := tt.Ite(tt.Eq(b0, c8(0xF4)), c8(0x8F), c8(0xBF))
		ok1 := tt.And(tt.Cmp(OpUle, lo, b[1]), tt.Cmp(OpUle, b[1], hi))
		if !e.branch(ok1) {
			return bad, 1
		}
		if len(b) < 3 || !e.branch(in(b[2], 0x80, 0xBF)) {
			return bad, 1
		}
		if len(b) < 4 || !e.branch(in(b[3], 0x80, 0xBF)) {
			return bad, 1
		}
		return or(bits(b0, 0x07, 18), bits(b[1], 0x3F, 12), bits(b[2], 0x3F, 6), bits(b[3], 0x3F, 0)), 4
	}
	return bad, 1
}

func (fr *frame) slice(instr *ssa.Slice, x, lo, hi, max Value) Value {
	e := fr.e
	var length, capacity int
	switch x := x.(type) {
	case Str:
		length, capacity = len(x.b), len(x.b)
	case Slice:
		length, capacity = len(x.a), cap(x.a)
	case *Value:
		if x == nil {
			fr.rtPanic(instr, "invalid memory address or nil pointer dereference (slice of nil array pointer)")
		}
		a := (*x).(Array)
		length, capacity = len(a), len(a)
	default:
		panic(engineError{fmt.Sprintf("slice of %T", x)})
	}
	_ = length
	// Evaluate bounds: 0 <= lo <= hi <= max <= cap. Symbolic bounds are
	// range-checked with one fork and then concretised.
	getBound := func(v Value, t ssa.Value, def int) *Term {
		if v == nil {
			return e.tt.BV(64, uint64(def))
		}
		return e.toInt64(v.(*Term), t.Type())
	}
	capT := e.tt.BV(64, uint64(capacity))
	var mx *Term
	if max != nil {
		mx = getBound(max, instr.Max, capacity)
	} else {
		mx = capT
	}
	var h *Term
	if hi != nil {
		h = getBound(hi, instr.High, length)
	} else {
		h = e.tt.BV(64, uint64(length))
	}
	l := getBound(lo, instr.Low, 0)
	// validity: 0<=l<=h<=mx<=cap (unsigned compare handles negatives)
	upper := capT
	if max == nil {
		if _, isStr := x.(Str); isStr {
			upper = e.tt.BV(64, uint64(length))
		}
	}
	valid := e.tt.And(e.tt.Cmp(OpUle, mx, upper), e.tt.And(e.tt.Cmp(OpUle, h, mx), e.tt.Cmp(OpUle, l, h)))
	if !e.branch(valid) {
		fr.rtPanic(instr, "slice bounds out of range")
	}
	li := int(e.concretize(l, "slice low at "+e.pos(instr.Pos())))
	hi2 := int(e.concretize(h, "slice high at "+e.pos(instr.Pos())))
	mi := int(e.concretize(mx, "slice max at "+e.pos(instr.Pos())))
	switch x := x.(type) {
	case Str:
		return Str{x.b[li:hi2]}
	case Slice:
		if x.a == nil {
			return Slice{}
		}
		return Slice{x.a[li:hi2:mi]}
	case *Value:
		a := (*x).(Array)
		return Slice{[]Value(a)[li:hi2:mi]}
	}
	return nil
}

// ---------- maps ----------

func (e *Exec) newMap(keyT types.Type) *MapV {
	return &MapV{keyT: keyT, idx: map[string]int{}}
}

// mapFind returns the slot index holding key, or -1. Forks when equality with
// a symbolic key is undetermined.
func (e *Exec) mapFind(m *MapV, key Value) int {
	if m == nil {
		return -1
	}
	ks, conc := keyString(key)
	if conc {
		if i, ok := m.idx[ks]; ok && m.live[i] {
			return i
		}
	}
	for i := range m.keys {
		if !m.live[i] {
			continue
		}
		if conc {
			if _, c2 := keyString(m.keys[i]); c2 {
				continue // concrete and different (else idx would have hit)
			}
		}
		eq := e.eqVal(m.keys[i], key)
		if e.branch(eq) {
			return i
		}
	}
	return -1
}

func (e *Exec) mapInsert(m *MapV, key, val Value) {
	if i := e.mapFind(m, key); i >= 0 {
		m.vals[i] = copyVal(val)
		return
	}
	m.keys = append(m.keys, copyVal(key))
	m.vals = append(m.vals, copyVal(val))
	m.live = append(m.live, true)
	if ks, ok := keyString(key); ok {
		m.idx[ks] = len(m.keys) - 1
	}
	m.n++
}

func (e *Exec) mapDelete(m *MapV, key Value) {
	if i := e.mapFind(m, key); i >= 0 {
		m.live[i] = false
		if ks, ok := keyString(m.keys[i]); ok {
			delete(m.idx, ks)
		}
		m.n--
	}
}

func (fr *frame) lookup(instr *ssa.Lookup, x, idx Value) Value {
	e := fr.e
	switch x := x.(type) {
	case *MapV:
		var v Value
		i := e.mapFind(x, idx)
		ok := i >= 0
		if ok {
			v = copyVal(x.vals[i])
		} else {
			v = e.zero(instr.X.Type().Underlying().(*types.Map).Elem())
		}
		if instr.CommaOk {
			return Tuple{v, e.tt.Bool(ok)}
		}
		return v
	case Str:
		return fr.indexValue(instr, idx.(*Term), instr.Index.Type(), len(x.b), func(i int) Value { return x.b[i] })
	}
	panic(engineError{fmt.Sprintf("lookup on %T", x)})
}

// ---------- range ----------

type iterator interface {
	next(fr *frame, instr *ssa.Next) Value
}

type mapIter struct {
	m    *MapV
	keys []Value
	pos  int
}

func (it *mapIter) next(fr *frame, instr *ssa.Next) Value {
	e := fr.e
	for it.pos < len(it.keys) {
		k := it.keys[it.pos]
		it.pos++
		// entry may have been deleted during iteration
		i := e.mapFind(it.m, k)
		if i < 0 {
			continue
		}
		return Tuple{e.tt.True, copyVal(k), copyVal(it.m.vals[i])}
	}
	return Tuple{e.tt.False, nil, nil}
}

type strIter struct {
	s   Str
	pos int
}

func (it *strIter) next(fr *frame, instr *ssa.Next) Value {
	e := fr.e
	if it.pos >= len(it.s.b) {
		return Tuple{e.tt.False, e.tt.BV(64, 0), e.tt.BV(32, 0)}
	}
	r, w := fr.decodeRune(it.s.b[it.pos:])
	p := it.pos
	it.pos += w
	return Tuple{e.tt.True, e.tt.BV(64, uint64(p)), e.tt.Extract(r, 31, 0)}
}

func (fr *frame) rangeIter(instr *ssa.Range, x Value) iterator {
	switch x := x.(type) {
	case *MapV:
		it := &mapIter{m: x}
		if x != nil {
			for i, k := range x.keys {
				if x.live[i] {
					it.keys = append(it.keys, k)
				}
			}
			if fr.e.mapOrderAny && len(it.keys) > 1 && len(it.keys) <= 4 {
				it.keys = fr.e.permute(it.keys)
			}
		}
		return it
	case Str:
		return &strIter{s: x}
	}
	panic(engineError{fmt.Sprintf("range over %T", x)})
}

// permute chooses one permutation of keys by scheduler-style choices.
func (e *Exec) permute(keys []Value) []Value {
	rest := append([]Value{}, keys...)
	var out []Value
	for len(rest) > 0 {
		i := e.chooseN(len(rest), "map order")
		out = append(out, rest[i])
		rest = append(rest[:i], rest[i+1:]...)
	}
	return out
}

var _ = math.MaxInt64
