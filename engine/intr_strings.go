package main

// Fork-free summaries of pure string/byte search primitives: results are
// ite-chains over the (concrete-length) operands, so callers fork only where
// they use the result as a shape (slice bound, make size).

import "unicode/utf8"

func bytesOf(v Value) []*Term {
	switch x := v.(type) {
	case Str:
		return x.b
	case Slice:
		out := make([]*Term, len(x.a))
		for i, el := range x.a {
			out[i] = el.(*Term)
		}
		return out
	}
	panic(engineError{"bytesOf: not a byte sequence"})
}

func (e *Exec) matchAt(s, sub []*Term, i int) *Term {
	r := e.tt.True
	for j := range sub {
		r = e.tt.And(r, e.tt.Eq(s[i+j], sub[j]))
		if r == e.tt.False {
			break
		}
	}
	return r
}

func (e *Exec) indexTerm(s, sub []*Term) *Term {
	tt := e.tt
	r := tt.BV(64, ^uint64(0))
	for i := len(s) - len(sub); i >= 0; i-- {
		r = tt.Ite(e.matchAt(s, sub, i), tt.BV(64, uint64(i)), r)
	}
	return r
}

func (e *Exec) lastIndexTerm(s, sub []*Term) *Term {
	tt := e.tt
	r := tt.BV(64, ^uint64(0))
	for i := 0; i+len(sub) <= len(s); i++ {
		r = tt.Ite(e.matchAt(s, sub, i), tt.BV(64, uint64(i)), r)
	}
	return r
}

func (e *Exec) containsTerm(s, sub []*Term) *Term {
	r := e.tt.False
	for i := 0; i+len(sub) <= len(s); i++ {
		r = e.tt.Or(r, e.matchAt(s, sub, i))
	}
	return r
}

func (e *Exec) countByteTerm(s []*Term, c *Term) *Term {
	tt := e.tt
	// the count is at most len(s): add in the narrowest sufficient width
	w := uint8(8)
	if len(s) >= 255 {
		w = 32
	}
	r := tt.BV(w, 0)
	for _, b := range s {
		r = tt.Bin(OpAdd, r, tt.Ite(tt.Eq(b, c), tt.BV(w, 1), tt.BV(w, 0)))
	}
	return tt.ZExt(r, 64)
}

func init() {
	idx := func(fr *frame, args []Value) Value {
		return fr.e.indexTerm(bytesOf(args[0]), bytesOf(args[1]))
	}
	idxByte := func(fr *frame, args []Value) Value {
		return fr.e.indexTerm(bytesOf(args[0]), []*Term{args[1].(*Term)})
	}
	lastIdx := func(fr *frame, args []Value) Value {
		return fr.e.lastIndexTerm(bytesOf(args[0]), bytesOf(args[1]))
	}
	lastIdxByte := func(fr *frame, args []Value) Value {
		return fr.e.lastIndexTerm(bytesOf(args[0]), []*Term{args[1].(*Term)})
	}
	contains := func(fr *frame, args []Value) Value {
		return fr.e.containsTerm(bytesOf(args[0]), bytesOf(args[1]))
	}
	hasPrefix := func(fr *frame, args []Value) Value {
		s, p := bytesOf(args[0]), bytesOf(args[1])
		if len(p) > len(s) {
			return fr.e.tt.False
		}
		return fr.e.matchAt(s, p, 0)
	}
	hasSuffix := func(fr *frame, args []Value) Value {
		s, p := bytesOf(args[0]), bytesOf(args[1])
		if len(p) > len(s) {
			return fr.e.tt.False
		}
		return fr.e.matchAt(s, p, len(s)-len(p))
	}
	equal := func(fr *frame, args []Value) Value {
		a, b := bytesOf(args[0]), bytesOf(args[1])
		if len(a) != len(b) {
			return fr.e.tt.False
		}
		return fr.e.matchAt(a, b, 0)
	}
	countByte := func(fr *frame, args []Value) Value {
		return fr.e.countByteTerm(bytesOf(args[0]), args[1].(*Term))
	}
	for _, p := range []string{"strings.", "internal/stringslite.", "bytes."} {
		reg(p+"Index", idx)
		reg(p+"IndexByte", idxByte)
		reg(p+"LastIndex", lastIdx)
		reg(p+"LastIndexByte", lastIdxByte)
		reg(p+"Contains", contains)
		reg(p+"HasPrefix", hasPrefix)
		reg(p+"HasSuffix", hasSuffix)
	}
	reg("bytes.Equal", equal)
	reg("internal/bytealg.Equal", equal)
	reg("internal/bytealg.IndexByteString", idxByte)
	reg("internal/bytealg.IndexByte", idxByte)
	reg("internal/bytealg.IndexString", idx)
	reg("internal/bytealg.Index", idx)
	reg("internal/bytealg.LastIndexByteString", lastIdxByte)
	reg("internal/bytealg.LastIndexByte", lastIdxByte)
	reg("internal/bytealg.CountString", countByte)
	reg("internal/bytealg.Count", countByte)
	reg("internal/bytealg.MakeNoZero", func(fr *frame, args []Value) Value {
		e := fr.e
		n := int(e.concretize(args[0].(*Term), "MakeNoZero"))
		a := make([]Value, n)
		for i := range a {
			a[i] = e.tt.BV(8, 0)
		}
		return Slice{a}
	})
	reg("internal/bytealg.Compare", func(fr *frame, args []Value) Value {
		e := fr.e
		a, b := Str{bytesOf(args[0])}, Str{bytesOf(args[1])}
		lt := e.strLess(a, b)
		gt := e.strLess(b, a)
		return e.tt.Ite(lt, e.tt.BV(64, ^uint64(0)), e.tt.Ite(gt, e.tt.BV(64, 1), e.tt.BV(64, 0)))
	})
	reg("strings.Compare", intrinsics["internal/bytealg.Compare"])
	reg("bytes.Compare", intrinsics["internal/bytealg.Compare"])
	reg("internal/stringslite.Clone", func(fr *frame, args []Value) Value { return args[0] })
	reg("strings.Clone", func(fr *frame, args []Value) Value { return args[0] })

	// strings.Builder: buf is field 1
	reg("(*strings.Builder).copyCheck", func(fr *frame, args []Value) Value { return nil })
	reg("(*strings.Builder).String", func(fr *frame, args []Value) Value {
		st := (*fr.derefArg(args[0], "Builder.String")).(Struct)
		return Str{bytesOf(st[1])}
	})

	// ---- unicode/utf8 ----
	decode := func(fr *frame, args []Value) Value {
		e := fr.e
		b := bytesOf(args[0])
		if len(b) == 0 {
			return Tuple{e.tt.BV(32, uint64(utf8.RuneError)), e.tt.BV(64, 0)}
		}
		r, w := fr.decodeRune(b)
		return Tuple{e.tt.Extract(r, 31, 0), e.tt.BV(64, uint64(w))}
	}
	reg("unicode/utf8.DecodeRuneInString", decode)
	reg("unicode/utf8.DecodeRune", decode)
	valid := func(fr *frame, args []Value) Value {
		e := fr.e
		b := bytesOf(args[0])
		for pos := 0; pos < len(b); {
			r, w := fr.decodeRune(b[pos:])
			if w == 1 && r.IsConst() && r.k == uint64(utf8.RuneError) {
				return e.tt.False
			}
			pos += w
		}
		return e.tt.True
	}
	reg("unicode/utf8.ValidString", valid)
	reg("unicode/utf8.Valid", valid)
	runeCount := func(fr *frame, args []Value) Value {
		b := bytesOf(args[0])
		n := 0
		for pos := 0; pos < len(b); n++ {
			_, w := fr.decodeRune(b[pos:])
			pos += w
		}
		return fr.e.tt.BV(64, uint64(n))
	}
	reg("unicode/utf8.RuneCountInString", runeCount)
	reg("unicode/utf8.RuneCount", runeCount)
}

func init() {
	// ASCII-only, fork-free ToLower/ToUpper; a feasible non-ASCII byte ends
	// the path as unsupported (outside the claim of every harness using it).
	mk := func(lo, hi uint64, delta uint64) intrinsicFn {
		return func(fr *frame, args []Value) Value {
			e := fr.e
			b := bytesOf(args[0])
			nonASCII := e.tt.False
			for _, c := range b {
				nonASCII = e.tt.Or(nonASCII, e.tt.Cmp(OpUle, e.tt.BV(8, 0x80), c))
			}
			if e.branch(nonASCII) {
				unsupported("strings.ToLower/ToUpper on non-ASCII input")
			}
			out := make([]*Term, len(b))
			for i, c := range b {
				in := e.tt.And(e.tt.Cmp(OpUle, e.tt.BV(8, lo), c), e.tt.Cmp(OpUle, c, e.tt.BV(8, hi)))
				out[i] = e.tt.Ite(in, e.tt.Bin(OpAdd, c, e.tt.BV(8, delta)), c)
			}
			return Str{out}
		}
	}
	reg("strings.ToLower", mk('A', 'Z', 32))
	reg("strings.ToUpper", mk('a', 'z', 0x100-32))
}

func init() {
	// ContainsAny / IndexAny for ASCII character sets (concrete chars)
	anyOf := func(e *Exec, c *Term, chars string) *Term {
		r := e.tt.False
		for i := 0; i < len(chars); i++ {
			r = e.tt.Or(r, e.tt.Eq(c, e.tt.BV(8, uint64(chars[i]))))
		}
		return r
	}
	asciiSet := func(e *Exec, v Value) string {
		chars := e.mustConcStr(v, "character set")
		for i := 0; i < len(chars); i++ {
			if chars[i] >= 0x80 {
				unsupported("non-ASCII character set in ContainsAny/IndexAny")
			}
		}
		return chars
	}
	reg("strings.ContainsAny", func(fr *frame, args []Value) Value {
		e := fr.e
		chars := asciiSet(e, args[1])
		r := e.tt.False
		for _, c := range bytesOf(args[0]) {
			r = e.tt.Or(r, anyOf(e, c, chars))
		}
		return r
	})
	reg("strings.IndexAny", func(fr *frame, args []Value) Value {
		e := fr.e
		chars := asciiSet(e, args[1])
		s := bytesOf(args[0])
		r := e.tt.BV(64, ^uint64(0))
		for i := len(s) - 1; i >= 0; i-- {
			r = e.tt.Ite(anyOf(e, s[i], chars), e.tt.BV(64, uint64(i)), r)
		}
		return r
	})

	// regexp models: backslash un-escaping patterns with replacement "$1"
	regexModels["ReplaceAllString"] = func(fr *frame, pattern string, args []Value) (Value, bool) {
		e := fr.e
		repl, ok := concStr(args[1].(Str))
		if !ok || repl != "$1" {
			return nil, false
		}
		var skipBackslash bool
		dotAll := true
		switch pattern {
		case `\\([^\\])`:
			skipBackslash = false // a backslash followed by a backslash is not a match
		case `(?s)\\(.)`:
			skipBackslash = true
		case `\\(.)`:
			skipBackslash = true
			dotAll = false // without the s flag the dot does not match a line feed
		default:
			return nil, false
		}
		s := args[0].(Str).b
		var out []*Term
		bs := e.tt.BV(8, '\\')
		for i := 0; i < len(s); {
			if i+1 < len(s) && e.branch(e.tt.Eq(s[i], bs)) {
				matches := skipBackslash || !e.branch(e.tt.Eq(s[i+1], bs))
				if matches && !dotAll && e.branch(e.tt.Eq(s[i+1], e.tt.BV(8, '\n'))) {
					matches = false
				}
				if matches {
					out = append(out, s[i+1])
					i += 2
					continue
				}
			}
			out = append(out, s[i])
			i++
		}
		return Str{out}, true
	}
}
