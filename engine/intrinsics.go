package main

// Intrinsics: functions intercepted by name. Harness primitives (zz_verifrt),
// sync / sync/atomic with sequentially consistent semantics, and environment
// stubs. Every hit is counted and reported in the evidence.

import (
	"fmt"
	"go/types"
	"os"
	"strings"

	"golang.org/x/tools/go/ssa"
)

type ssaFunction = ssa.Function

var intrinsics = map[string]intrinsicFn{}

type prefixIntrinsic struct {
	prefix string
	fn     intrinsicFn
}

var prefixIntrinsics []prefixIntrinsic

func regPrefix(prefix string, f intrinsicFn) {
	prefixIntrinsics = append(prefixIntrinsics, prefixIntrinsic{prefix, f})
}

func reg(name string, f intrinsicFn) { intrinsics[name] = f }

func init() {
	rt := rtPkgPath + "."
	mkVar := func(w uint8) intrinsicFn {
		return func(fr *frame, args []Value) Value {
			return fr.e.freshVar(fr.e.mustConcStr(args[0], "input name"), w)
		}
	}
	reg(rt+"U8", mkVar(8))
	reg(rt+"U16", mkVar(16))
	reg(rt+"U32", mkVar(32))
	reg(rt+"U64", mkVar(64))
	reg(rt+"Bool", func(fr *frame, args []Value) Value {
		return fr.e.freshVar(fr.e.mustConcStr(args[0], "input name"), 0)
	})
	reg(rt+"Len", func(fr *frame, args []Value) Value {
		e := fr.e
		v := e.freshVar(e.mustConcStr(args[0], "input name"), 64)
		lo := int64(e.concretize(args[1].(*Term), "Len lo"))
		hi := int64(e.concretize(args[2].(*Term), "Len hi"))
		return e.tt.BV(64, uint64(e.forkRange(v, lo, hi)))
	})
	reg(rt+"Concretize", func(fr *frame, args []Value) Value {
		e := fr.e
		return e.tt.BV(64, e.concretize(args[0].(*Term), "rt.Concretize"))
	})
	reg(rt+"Assume", func(fr *frame, args []Value) Value {
		fr.e.assume(args[0].(*Term))
		return nil
	})
	reg(rt+"Assert", func(fr *frame, args []Value) Value {
		e := fr.e
		id := e.mustConcStr(args[1], "assert id")
		e.assertCond(args[0].(*Term), id, "")
		return nil
	})
	reg(rt+"Reach", func(fr *frame, args []Value) Value {
		e := fr.e
		e.reaches[e.mustConcStr(args[0], "reach id")] = true
		return nil
	})
	reg(rt+"Region", func(fr *frame, args []Value) Value {
		e := fr.e
		e.regions = append(e.regions, region{e.mustConcStr(args[0], "region id"), args[1].(*Term)})
		return nil
	})
	reg(rt+"Yield", func(fr *frame, args []Value) Value {
		fr.e.yield(fr.e.curG(fr))
		return nil
	})
	reg(rt+"SchedYieldOnly", func(fr *frame, args []Value) Value {
		fr.e.sched.yieldOnly = fr.e.branch(args[0].(*Term))
		return nil
	})
	reg(rt+"Preemptions", func(fr *frame, args []Value) Value {
		fr.e.sched.preemptBudget = int(int64(fr.e.concretize(args[0].(*Term), "preemption budget")))
		return nil
	})
	reg(rt+"PreemptedRunLast", func(fr *frame, args []Value) Value {
		fr.e.sched.demote = fr.e.branch(args[0].(*Term))
		return nil
	})
	reg(rt+"Debug", func(fr *frame, args []Value) Value {
		var parts []string
		for _, a := range variadic(args[0]) {
			if iv, ok := a.(Iface); ok {
				if iv.t != nil && types.Implements(iv.t, errorIface) {
					if m := fr.e.findMethod(iv.t, "Error"); m != nil {
						parts = append(parts, "err:"+showD(fr.e.callSSA(fr, 0, m, []Value{iv.v}, nil), 3))
						continue
					}
				}
				parts = append(parts, showD(iv.v, 4))
			} else {
				parts = append(parts, showD(a, 4))
			}
		}
		fmt.Fprintln(os.Stderr, "RT-DEBUG:", strings.Join(parts, " "))
		return nil
	})
	reg(rt+"SetUnwind", func(fr *frame, args []Value) Value {
		fr.e.unwind = int(fr.e.concretize(args[0].(*Term), "unwind"))
		return nil
	})
	reg(rt+"NoTimers", func(fr *frame, args []Value) Value {
		fr.e.sched.noTimers = true
		return nil
	})
	// sync.Pool: a per-pool free list (the contract: Get returns any item that
	// was Put and not yet handed out again, or New())
	reg("(*sync.Pool).Put", func(fr *frame, args []Value) Value {
		e := fr.e
		key := fmt.Sprintf("syncpool%p", args[0].(*Value))
		lst, _ := e.objs[key].([]Value)
		if it, ok := args[1].(Iface); ok && it.t != nil {
			e.objs[key] = append(lst, args[1])
		}
		return nil
	})
	reg("(*sync.Pool).Get", func(fr *frame, args []Value) Value {
		e := fr.e
		key := fmt.Sprintf("syncpool%p", args[0].(*Value))
		lst, _ := e.objs[key].([]Value)
		if len(lst) > 0 {
			it := lst[len(lst)-1]
			e.objs[key] = lst[:len(lst)-1]
			return it
		}
		pool := (*fr.derefArg(args[0], "sync.Pool.Get")).(Struct)
		pt := e.namedType("sync", "Pool")
		newFn := *getField(pool, pt, "New")
		if cl, ok := newFn.(*Closure); !ok || cl == nil {
			return Iface{} // no New function: nil
		}
		return e.call(fr, 0, newFn, nil)
	})
	reg(rt+"NativeTimeout", func(fr *frame, args []Value) Value { return nil })
	reg(rt+"TimersFireTogether", func(fr *frame, args []Value) Value {
		fr.e.sched.timersTogether = fr.e.branch(args[0].(*Term))
		return nil
	})
	reg(rt+"AnyMapOrder", func(fr *frame, args []Value) Value {
		fr.e.mapOrderAny = fr.e.branch(args[0].(*Term))
		return nil
	})
	reg(rt+"Observe", func(fr *frame, args []Value) Value {
		e := fr.e
		e.observedT = append(e.observedT, obsEntry{e.mustConcStr(args[0], "observe"), []*Term{args[1].(*Term)}, false})
		return nil
	})
	reg(rt+"ObserveBool", func(fr *frame, args []Value) Value {
		e := fr.e
		e.observedT = append(e.observedT, obsEntry{e.mustConcStr(args[0], "observe"), []*Term{e.tt.Ite(args[1].(*Term), e.tt.BV(64, 1), e.tt.BV(64, 0))}, false})
		return nil
	})
	reg(rt+"ObserveStr", func(fr *frame, args []Value) Value {
		e := fr.e
		e.observedT = append(e.observedT, obsEntry{e.mustConcStr(args[0], "observe"), args[1].(Str).b, true})
		return nil
	})
	reg(rt+"ObserveBytes", func(fr *frame, args []Value) Value {
		e := fr.e
		e.observedT = append(e.observedT, obsEntry{e.mustConcStr(args[0], "observe"), bytesOf(args[1]), true})
		return nil
	})
	reg(rt+"All", func(fr *frame, args []Value) Value {
		r := fr.e.tt.True
		for _, c := range args[0].(Slice).a {
			r = fr.e.tt.And(r, c.(*Term))
		}
		return r
	})
	reg(rt+"Any", func(fr *frame, args []Value) Value {
		r := fr.e.tt.False
		for _, c := range args[0].(Slice).a {
			r = fr.e.tt.Or(r, c.(*Term))
		}
		return r
	})
	reg(rt+"Implies", func(fr *frame, args []Value) Value {
		return fr.e.tt.Or(fr.e.tt.Not(args[0].(*Term)), args[1].(*Term))
	})
	reg(rt+"EqBytes", func(fr *frame, args []Value) Value {
		e := fr.e
		a, b := args[0].(Slice).a, args[1].(Slice).a
		if len(a) != len(b) {
			return e.tt.False
		}
		r := e.tt.True
		for i := range a {
			r = e.tt.And(r, e.tt.Eq(a[i].(*Term), b[i].(*Term)))
		}
		return r
	})
	reg(rt+"EqStr", func(fr *frame, args []Value) Value {
		return fr.e.strEq(args[0].(Str), args[1].(Str))
	})
	reg(rt+"IteU64", func(fr *frame, args []Value) Value {
		return fr.e.tt.Ite(args[0].(*Term), args[1].(*Term), args[2].(*Term))
	})
	reg(rt+"Symbolic", func(fr *frame, args []Value) Value { return fr.e.tt.True })
	reg(rt+"Thorough", func(fr *frame, args []Value) Value { return fr.e.tt.Bool(fr.e.cfg.Thorough) })
	reg(rt+"CodecFaults", func(fr *frame, args []Value) Value {
		t := args[0].(*Term)
		fr.e.codecNoFaults = t.IsConst() && t.k == 0
		return nil
	})
	reg(rt+"AllowDeadlock", func(fr *frame, args []Value) Value { fr.e.allowDeadlock = true; return nil })
	reg(rt+"SpinLimit", func(fr *frame, args []Value) Value {
		fr.e.spinLimit = int(fr.e.concretize(args[0].(*Term), "spin limit"))
		return nil
	})
	reg(rt+"AllowPanic", func(fr *frame, args []Value) Value { fr.e.allowPanic = true; return nil })

	// ---- sync.Mutex (field 0 = state) ----
	lock := func(fr *frame, args []Value) Value {
		e := fr.e
		e.preemptPoint(fr)
		p := args[0].(*Value)
		if p == nil {
			panic(targetPanic{e.runtimeError("nil pointer dereference (Mutex.Lock)"), "sync.Mutex.Lock"})
		}
		st := (*p).(Struct)
		e.block(e.curG(fr), "Mutex.Lock", func() bool { return st[0].(*Term).k == 0 })
		st[0] = e.tt.BV(32, 1)
		return nil
	}
	unlock := func(fr *frame, args []Value) Value {
		e := fr.e
		e.preemptPoint(fr)
		st := (*args[0].(*Value)).(Struct)
		if st[0].(*Term).k == 0 {
			panic(pathEnd{"fatal", "sync: unlock of unlocked mutex"})
		}
		st[0] = e.tt.BV(32, 0)
		return nil
	}
	reg("(*sync.Mutex).Lock", lock)
	reg("(*sync.Mutex).Unlock", unlock)
	reg("(*sync.Mutex).TryLock", func(fr *frame, args []Value) Value {
		e := fr.e
		st := (*args[0].(*Value)).(Struct)
		if st[0].(*Term).k != 0 {
			return e.tt.False
		}
		st[0] = e.tt.BV(32, 1)
		return e.tt.True
	})
	// ---- sync.RWMutex: w.state (field0.field0) = writer flag, readerSem (field 2) = reader count ----
	rw := func(args []Value) (Struct, Struct) {
		st := (*args[0].(*Value)).(Struct)
		return st, st[0].(Struct)
	}
	reg("(*sync.RWMutex).Lock", func(fr *frame, args []Value) Value {
		e := fr.e
		e.preemptPoint(fr)
		st, w := rw(args)
		e.block(e.curG(fr), "RWMutex.Lock", func() bool { return w[0].(*Term).k == 0 && st[2].(*Term).k == 0 })
		w[0] = e.tt.BV(32, 1)
		return nil
	})
	reg("(*sync.RWMutex).Unlock", func(fr *frame, args []Value) Value {
		e := fr.e
		e.preemptPoint(fr)
		_, w := rw(args)
		if w[0].(*Term).k == 0 {
			panic(pathEnd{"fatal", "sync: Unlock of unlocked RWMutex"})
		}
		w[0] = e.tt.BV(32, 0)
		return nil
	})
	reg("(*sync.RWMutex).RLock", func(fr *frame, args []Value) Value {
		e := fr.e
		e.preemptPoint(fr)
		st, w := rw(args)
		e.block(e.curG(fr), "RWMutex.RLock", func() bool { return w[0].(*Term).k == 0 })
		st[2] = e.tt.BV(32, st[2].(*Term).k+1)
		return nil
	})
	reg("(*sync.RWMutex).RUnlock", func(fr *frame, args []Value) Value {
		e := fr.e
		e.preemptPoint(fr)
		st, _ := rw(args)
		if st[2].(*Term).k == 0 {
			panic(pathEnd{"fatal", "sync: RUnlock of unlocked RWMutex"})
		}
		st[2] = e.tt.BV(32, st[2].(*Term).k-1)
		return nil
	})
	// ---- sync.WaitGroup: sema (field 2) = counter ----
	reg("(*sync.WaitGroup).Add", func(fr *frame, args []Value) Value {
		e := fr.e
		st := (*args[0].(*Value)).(Struct)
		d := int64(e.concretize(args[1].(*Term), "WaitGroup.Add"))
		n := int64(int32(st[2].(*Term).k)) + d
		if n < 0 {
			panic(targetPanic{e.runtimeErrorPlain("sync: negative WaitGroup counter"), "WaitGroup.Add"})
		}
		st[2] = e.tt.BV(32, uint64(n))
		return nil
	})
	reg("(*sync.WaitGroup).Done", func(fr *frame, args []Value) Value {
		e := fr.e
		st := (*args[0].(*Value)).(Struct)
		n := int64(int32(st[2].(*Term).k)) - 1
		if n < 0 {
			panic(targetPanic{e.runtimeErrorPlain("sync: negative WaitGroup counter"), "WaitGroup.Done"})
		}
		st[2] = e.tt.BV(32, uint64(n))
		return nil
	})
	reg("(*sync.WaitGroup).Wait", func(fr *frame, args []Value) Value {
		e := fr.e
		st := (*args[0].(*Value)).(Struct)
		e.block(e.curG(fr), "WaitGroup.Wait", func() bool { return st[2].(*Term).k == 0 })
		return nil
	})

	// ---- sync/atomic ----
	for _, ty := range []string{"Int32", "Int64", "Uint32", "Uint64", "Uintptr"} {
		ty := ty
		reg("sync/atomic.Load"+ty, func(fr *frame, args []Value) Value {
			fr.e.preemptPoint(fr)
			return *fr.derefArg(args[0], "atomic.Load")
		})
		reg("sync/atomic.Store"+ty, func(fr *frame, args []Value) Value {
			fr.e.preemptPoint(fr)
			*fr.derefArg(args[0], "atomic.Store") = args[1]
			return nil
		})
		reg("sync/atomic.Add"+ty, func(fr *frame, args []Value) Value {
			fr.e.preemptPoint(fr)
			p := fr.derefArg(args[0], "atomic.Add")
			*p = fr.e.tt.Bin(OpAdd, (*p).(*Term), args[1].(*Term))
			return *p
		})
		reg("sync/atomic.Swap"+ty, func(fr *frame, args []Value) Value {
			fr.e.preemptPoint(fr)
			p := fr.derefArg(args[0], "atomic.Swap")
			old := *p
			*p = args[1]
			return old
		})
		reg("sync/atomic.CompareAndSwap"+ty, func(fr *frame, args []Value) Value {
			fr.e.preemptPoint(fr)
			e := fr.e
			p := fr.derefArg(args[0], "atomic.CAS")
			if e.branch(e.tt.Eq((*p).(*Term), args[1].(*Term))) {
				*p = args[2]
				return e.tt.True
			}
			return e.tt.False
		})
	}
	reg("sync/atomic.LoadPointer", func(fr *frame, args []Value) Value {
		return *fr.derefArg(args[0], "atomic.LoadPointer")
	})
	reg("sync/atomic.StorePointer", func(fr *frame, args []Value) Value {
		*fr.derefArg(args[0], "atomic.StorePointer") = args[1]
		return nil
	})
	reg("sync/atomic.SwapPointer", func(fr *frame, args []Value) Value {
		p := fr.derefArg(args[0], "atomic.SwapPointer")
		old := *p
		*p = args[1]
		return old
	})
	reg("sync/atomic.CompareAndSwapPointer", func(fr *frame, args []Value) Value {
		e := fr.e
		p := fr.derefArg(args[0], "atomic.CASPointer")
		if (*p).(*Value) == args[1].(*Value) {
			*p = args[2]
			return e.tt.True
		}
		return e.tt.False
	})
	// atomic.Value: field 0 (v any) holds the interface
	reg("(*sync/atomic.Value).Load", func(fr *frame, args []Value) Value {
		st := (*fr.derefArg(args[0], "atomic.Value.Load")).(Struct)
		return st[0]
	})
	reg("(*sync/atomic.Value).Store", func(fr *frame, args []Value) Value {
		e := fr.e
		st := (*fr.derefArg(args[0], "atomic.Value.Store")).(Struct)
		if args[1].(Iface).t == nil {
			panic(targetPanic{e.runtimeErrorPlain("sync/atomic: store of nil value into Value"), "atomic.Value.Store"})
		}
		st[0] = args[1]
		return nil
	})
	reg("(*sync/atomic.Value).Swap", func(fr *frame, args []Value) Value {
		st := (*fr.derefArg(args[0], "atomic.Value.Swap")).(Struct)
		old := st[0]
		st[0] = args[1]
		return old
	})
	reg("(*sync/atomic.Value).CompareAndSwap", func(fr *frame, args []Value) Value {
		e := fr.e
		st := (*fr.derefArg(args[0], "atomic.Value.CAS")).(Struct)
		if e.branch(e.eqVal(st[0], args[1])) {
			st[0] = args[2]
			return e.tt.True
		}
		return e.tt.False
	})

	// ---- misc runtime ----
	noop := func(fr *frame, args []Value) Value { return nil }
	reg("runtime.Gosched", func(fr *frame, args []Value) Value { return nil })
	reg("runtime.KeepAlive", noop)
	reg("runtime.SetFinalizer", noop)
	reg("runtime.GOMAXPROCS", func(fr *frame, args []Value) Value { return fr.e.tt.BV(64, 4) })
	reg("runtime.NumCPU", func(fr *frame, args []Value) Value { return fr.e.tt.BV(64, 4) })
	reg("runtime/debug.Stack", func(fr *frame, args []Value) Value {
		s := fr.e.strConst("<stack>")
		a := make([]Value, len(s.b))
		for i, b := range s.b {
			a[i] = b
		}
		return Slice{a}
	})
	reg("runtime/debug.PrintStack", noop)
	reg("os.Exit", func(fr *frame, args []Value) Value {
		panic(pathEnd{"exit", "os.Exit called"})
	})
	reg("internal/race.Enabled", noop)

	// errors.Is / errors.As use reflectlite; model Is by identity + Unwrap/Is methods
	reg("errors.Is", func(fr *frame, args []Value) Value { return fr.e.errorsIs(fr, args[0].(Iface), args[1].(Iface)) })
	// errors.init uses reflectlite; replace by its observable effect
	reg("errors.init", func(fr *frame, args []Value) Value {
		e := fr.e
		p := e.ld.pkgs["errors"]
		if g, ok := p.Members["ErrUnsupported"].(*ssa.Global); ok {
			*e.global(g) = e.callSSA(fr, 0, p.Func("New"), []Value{e.strConst("unsupported operation")}, nil)
		}
		return nil
	})
	reg("errors.As", func(fr *frame, args []Value) Value { return fr.e.errorsAs(fr, args[0].(Iface), args[1].(Iface)) })
}

func (fr *frame) derefArg(p Value, what string) *Value {
	ptr, ok := p.(*Value)
	if !ok || ptr == nil {
		panic(targetPanic{fr.e.runtimeError("invalid memory address or nil pointer dereference (" + what + ")"), what})
	}
	return ptr
}

// runtimeErrorPlain builds a panic value that is a plain string (as used by
// sync and others: panic("...")).
func (e *Exec) runtimeErrorPlain(msg string) Value {
	return Iface{t: types.Typ[types.String], v: e.strConst(msg)}
}

// errorsIs models errors.Is: identity comparison along the Unwrap chain, and
// an Is(error) bool method when present.
func (e *Exec) errorsIs(fr *frame, err, target Iface) Value {
	tt := e.tt
	if err.t == nil || target.t == nil {
		return tt.Bool(err.t == nil && target.t == nil)
	}
	for depth := 0; depth < 16; depth++ {
		if types.Comparable(err.t) && types.Identical(err.t, target.t) {
			if e.branch(e.eqVal(err.v, target.v)) {
				return tt.True
			}
		}
		if m := e.findMethod(err.t, "Is"); m != nil && m.Signature.Params().Len() == 2 {
			r := e.callSSA(fr, fr.fn.Pos(), m, []Value{err.v, target}, nil)
			if e.branch(r.(*Term)) {
				return tt.True
			}
		}
		m := e.findMethod(err.t, "Unwrap")
		if m == nil {
			return tt.False
		}
		res := m.Signature.Results()
		if res.Len() != 1 {
			return tt.False
		}
		r := e.callSSA(fr, fr.fn.Pos(), m, []Value{err.v}, nil)
		switch r := r.(type) {
		case Iface:
			if r.t == nil {
				return tt.False
			}
			err = r
		case Slice:
			for _, x := range r.a {
				if xi := x.(Iface); xi.t != nil {
					if e.branch(e.errorsIs(fr, xi, target).(*Term)) {
						return tt.True
					}
				}
			}
			return tt.False
		default:
			return tt.False
		}
	}
	return tt.False
}

func (e *Exec) findMethod(t types.Type, name string) *ssaFunction {
	ms := e.ld.prog.MethodSets.MethodSet(t)
	for i := 0; i < ms.Len(); i++ {
		sel := ms.At(i)
		if sel.Obj().Name() == name {
			return e.ld.prog.MethodValue(sel)
		}
	}
	return nil
}

var _ = strings.HasPrefix

// errorsAs models errors.As for pointer-to-concrete-type and pointer-to-
// interface targets along the Unwrap chain.
func (e *Exec) errorsAs(fr *frame, err, target Iface) Value {
	tt := e.tt
	if target.t == nil {
		panic(targetPanic{e.runtimeErrorPlain("errors: target cannot be nil"), "errors.As"})
	}
	pt, ok := target.t.Underlying().(*types.Pointer)
	if !ok {
		panic(targetPanic{e.runtimeErrorPlain("errors: target must be a non-nil pointer"), "errors.As"})
	}
	want := pt.Elem()
	cell := target.v.(*Value)
	for depth := 0; depth < 16 && err.t != nil; depth++ {
		if it, isI := want.Underlying().(*types.Interface); isI {
			if types.Implements(err.t, it) {
				*cell = err
				return tt.True
			}
		} else if types.Identical(err.t, want) {
			*cell = err.v
			return tt.True
		}
		m := e.findMethod(err.t, "Unwrap")
		if m == nil || m.Signature.Results().Len() != 1 {
			return tt.False
		}
		r, ok := e.callSSA(fr, fr.fn.Pos(), m, []Value{err.v}, nil).(Iface)
		if !ok {
			return tt.False
		}
		err = r
	}
	return tt.False
}
