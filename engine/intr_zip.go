package main

// archive/zip stub: OpenReader returns a reader whose entries were registered
// by the harness (rt.ZipEntry); entry contents are empty.

import (
	"fmt"
	"go/types"
	"regexp"
)

func setField(v Struct, t types.Type, name string, val Value) {
	st := t.Underlying().(*types.Struct)
	for i := 0; i < st.NumFields(); i++ {
		if st.Field(i).Name() == name {
			v[i] = val
			return
		}
	}
	panic(engineError{"setField: no field " + name + " in " + t.String()})
}

func getField(v Struct, t types.Type, name string) *Value {
	st := t.Underlying().(*types.Struct)
	for i := 0; i < st.NumFields(); i++ {
		if st.Field(i).Name() == name {
			return &v[i]
		}
	}
	panic(engineError{"getField: no field " + name + " in " + t.String()})
}

type zipEntry struct {
	name Str
	kind int // 0 intact, 1 data breaks off, 2 wrong checksum
}

func init() {
	rt := rtPkgPath + "."
	reg(rt+"ZipEntry", func(fr *frame, args []Value) Value {
		fr.e.zipList = append(fr.e.zipList, zipEntry{args[0].(Str), 0})
		return nil
	})
	reg(rt+"ZipEntryDamaged", func(fr *frame, args []Value) Value {
		e := fr.e
		kind := int(e.concretize(args[1].(*Term), "zip entry damage kind"))
		e.zipList = append(e.zipList, zipEntry{args[0].(Str), kind})
		return nil
	})
	reg(rt+"ZipMaterialize", func(fr *frame, args []Value) Value { return nil })
	reg("archive/zip.OpenReader", func(fr *frame, args []Value) Value {
		e := fr.e
		ok, err := e.fsFork3("zipopen", "ErrNotExist")
		e.fsRecord("zipopen", args[0].(Str), Str{}, ok)
		if !ok {
			return Tuple{(*Value)(nil), err}
		}
		rcT := e.namedType("archive/zip", "ReadCloser")
		rT := e.namedType("archive/zip", "Reader")
		fT := e.namedType("archive/zip", "File")
		hT := e.namedType("archive/zip", "FileHeader")
		rc := e.zero(rcT).(Struct)
		rd := getField(rc, rcT, "Reader")
		var files []Value
		for _, ze := range e.zipList {
			f := e.zero(fT).(Struct)
			h := (*getField(f, fT, "FileHeader")).(Struct)
			setField(h, hT, "Name", ze.name)
			var cell Value = f
			files = append(files, &cell)
		}
		if files == nil {
			files = []Value{}
		}
		setField((*rd).(Struct), rT, "File", Slice{files})
		var cell Value = rc
		return Tuple{&cell, Iface{}}
	})
	reg("(*archive/zip.ReadCloser).Close", func(fr *frame, args []Value) Value { return Iface{} })
	reg("(*archive/zip.File).Open", func(fr *frame, args []Value) Value {
		e := fr.e
		if !e.fsFork("zipentryopen") {
			return Tuple{Iface{}, e.fsError("zipentryopen")}
		}
		t := e.namedType(rtPkgPath, "NopReader")
		if t == nil {
			unsupported("rt.NopReader missing")
		}
		rd := e.zero(t).(Struct)
		// the entry's registered damage kind
		f := (*fr.derefArg(args[0], "zip.File.Open")).(Struct)
		fT := e.namedType("archive/zip", "File")
		hT := e.namedType("archive/zip", "FileHeader")
		h := (*getField(f, fT, "FileHeader")).(Struct)
		if name, ok := concStr((*getField(h, hT, "Name")).(Str)); ok {
			for _, ze := range e.zipList {
				if zn, ok := concStr(ze.name); ok && zn == name {
					setField(rd, t, "Kind", e.tt.BV(64, uint64(ze.kind)))
				}
			}
		}
		var cell Value = rd
		return Tuple{Iface{t: types.NewPointer(t), v: &cell}, Iface{}}
	})
	for _, m := range []string{"FindString", "MatchString", "Match", "FindStringSubmatch", "ReplaceAllString", "FindAllString", "FindStringIndex", "ReplaceAllStringFunc", "FindAllStringSubmatch", "Split"} {
		m := m
		reg("(*regexp.Regexp)."+m, func(fr *frame, args []Value) Value {
			e := fr.e
			if h := regexModels[m]; h != nil {
				if r := e.regexOf(args[0]); r != nil {
					if v, ok := h(fr, r.pattern, args[1:]); ok {
						return v
					}
				}
			}
			pat := "?"
			if r := e.regexOf(args[0]); r != nil {
				pat = r.pattern
				// concrete subject: evaluate with the host's regexp package
				// (same standard library, pure function of its inputs)
				if v, ok := e.regexConcrete(m, pat, args[1:]); ok {
					return v
				}
				// symbolic subject: backtracking interpreter over the compiled program
				if v, ok := e.regexSymbolic(m, pat, args[1:]); ok {
					e.stubsHit["regexp-interpreter:"+pat]++
					return v
				}
			}
			unsupported("regexp %s on pattern %q (no model)", m, pat)
			return nil
		})
	}
}

// regexModels: hand-written models for specific (method, pattern) pairs.
var regexModels = map[string]func(fr *frame, pattern string, args []Value) (Value, bool){}

// regexConcrete evaluates FindString / MatchString / FindStringIndex on a
// concrete subject.
func (e *Exec) regexConcrete(method, pattern string, args []Value) (Value, bool) {
	if len(args) != 1 {
		return nil, false
	}
	sv, ok := args[0].(Str)
	if !ok {
		return nil, false
	}
	subject, ok := concStr(sv)
	if !ok {
		return nil, false
	}
	re, err := regexp.Compile(pattern)
	if err != nil {
		return nil, false
	}
	switch method {
	case "FindString":
		return e.strConst(re.FindString(subject)), true
	case "MatchString":
		return e.tt.Bool(re.MatchString(subject)), true
	}
	return nil, false
}

var _ = fmt.Sprintf
