package main

// Environment stubs: fmt, logging, time, codecs (contract stubs), misc.

import (
	"fmt"
	"go/types"
	"reflect"
	"strings"

	"golang.org/x/tools/go/ssa"
)

const unixToInternal int64 = (1969*365 + 1969/4 - 1969/100 + 1969/400) * 86400

func (e *Exec) clockBase() *Term {
	if e.clock == nil {
		v := e.freshVar("clock.T0", 64)
		// 2001-09-09 .. 2096 in internal seconds; keeps all arithmetic far from overflow
		lo := e.tt.BV(64, uint64(unixToInternal+1_000_000_000))
		hi := e.tt.BV(64, uint64(unixToInternal+4_000_000_000))
		e.addPC(e.tt.Cmp(OpSle, lo, v))
		e.addPC(e.tt.Cmp(OpSle, v, hi))
		e.clock = v
	}
	return e.clock
}

// timeValue builds a time.Time for the current virtual instant (no monotonic
// reading, UTC): symbolic base + concrete virtual offset.
func (e *Exec) timeValue() Value {
	now := e.sched.now
	sec := e.tt.Bin(OpAdd, e.clockBase(), e.tt.BV(64, uint64(now/1_000_000_000)))
	return Struct{e.tt.BV(64, uint64(now%1_000_000_000)), sec, (*Value)(nil)}
}

func (e *Exec) durationArg(v Value, what string) int64 {
	t := v.(*Term)
	if !t.IsConst() {
		// a duration that is not positive behaves like zero, whatever its value
		// (eg. the time until an instant that lies in the past of a symbolic clock)
		if e.branch(e.tt.Cmp(OpSle, t, e.tt.BV(t.w, 0))) {
			return 0
		}
	}
	return int64(e.concretize(t, what))
}

// formatMsg renders a printf-style message: strings are spliced in (symbolic
// bytes kept), constant integers printed, everything else a placeholder.
func (e *Exec) formatMsg(format Str, args []Value) Str {
	fs, ok := concStr(format)
	if !ok {
		return e.strConst("<symbolic format>")
	}
	var out []*Term
	emit := func(s string) {
		out = append(out, e.strConst(s).b...)
	}
	ai := 0
	for i := 0; i < len(fs); i++ {
		c := fs[i]
		if c != '%' || i+1 >= len(fs) {
			out = append(out, e.tt.BV(8, uint64(c)))
			continue
		}
		specStart := i
		j := i + 1
		for j < len(fs) && strings.IndexByte("+-# 0123456789.", fs[j]) >= 0 {
			j++
		}
		if j >= len(fs) {
			break
		}
		verb := fs[j]
		i = j
		if verb == '%' {
			emit("%")
			continue
		}
		if ai >= len(args) {
			emit("%!" + string(verb) + "(MISSING)")
			continue
		}
		a := args[ai]
		ai++
		if iv, ok := a.(Iface); ok {
			a = iv.v
			if iv.t == nil {
				emit("<nil>")
				continue
			}
		}
		switch x := a.(type) {
		case Float:
			// concrete floats: the host's formatting with the same flags and verb
			emit(fmt.Sprintf(fs[specStart:j+1], x.v))
		case Str:
			if verb == 'q' {
				emit("\"")
				out = append(out, x.b...)
				emit("\"")
			} else {
				out = append(out, x.b...)
			}
		case *Term:
			if x.IsConst() && x.w > 0 {
				if verb == 'x' {
					emit(fmt.Sprintf("%x", x.k))
				} else {
					emit(fmt.Sprintf("%d", x.SConst()))
				}
			} else if x.IsConst() {
				emit(fmt.Sprintf("%v", x.k == 1))
			} else {
				emit("<sym>")
			}
		case Slice:
			allBytes := true
			var bs []*Term
			for _, el := range x.a {
				t, ok := el.(*Term)
				if !ok || t.w != 8 {
					allBytes = false
					break
				}
				bs = append(bs, t)
			}
			if allBytes && (verb == 's' || verb == 'q') {
				out = append(out, bs...)
			} else {
				emit("<slice>")
			}
		default:
			emit("<?>")
		}
	}
	return Str{out}
}

func (e *Exec) namedType(pkg, name string) types.Type {
	p := e.ld.pkgs[pkg]
	if p == nil {
		return nil
	}
	t := p.Type(name)
	if t == nil {
		return nil
	}
	return t.Object().Type()
}

func (e *Exec) newErrorString(msg Str) Value {
	t := e.namedType("errors", "errorString")
	var cell Value = Struct{msg}
	return Iface{t: types.NewPointer(t), v: &cell}
}

func variadic(v Value) []Value {
	if s, ok := v.(Slice); ok {
		return s.a
	}
	return nil
}

func init() {
	noop := func(fr *frame, args []Value) Value { return nil }
	reg("fmt.Errorf", func(fr *frame, args []Value) Value {
		e := fr.e
		va := variadic(args[1])
		msg := e.formatMsg(args[0].(Str), va)
		fs, _ := concStr(args[0].(Str))
		if strings.Contains(fs, "%w") {
			for _, a := range va {
				if iv, ok := a.(Iface); ok && iv.t != nil && types.Implements(iv.t, errorIface) {
					if wt := e.namedType("fmt", "wrapError"); wt != nil {
						var cell Value = Struct{msg, iv}
						return Iface{t: types.NewPointer(wt), v: &cell}
					}
				}
			}
		}
		return e.newErrorString(msg)
	})
	reg("fmt.Sprintf", func(fr *frame, args []Value) Value {
		return fr.e.formatMsg(args[0].(Str), variadic(args[1]))
	})
	sprint := func(fr *frame, args []Value) Value {
		e := fr.e
		var out []*Term
		for _, a := range variadic(args[0]) {
			if iv, ok := a.(Iface); ok {
				if s, ok := iv.v.(Str); ok {
					out = append(out, s.b...)
					continue
				}
				if t, ok := iv.v.(*Term); ok && t.IsConst() && t.w > 0 {
					out = append(out, e.strConst(fmt.Sprintf("%d", t.SConst())).b...)
					continue
				}
			}
			out = append(out, e.strConst("<?>").b...)
		}
		return Str{out}
	}
	reg("fmt.Sprint", sprint)
	reg("fmt.Sprintln", sprint)
	retZeroNil := func(fr *frame, args []Value) Value {
		return Tuple{fr.e.tt.BV(64, 0), Iface{}}
	}
	for _, n := range []string{"fmt.Printf", "fmt.Println", "fmt.Print", "fmt.Fprintf", "fmt.Fprintln", "fmt.Fprint"} {
		reg(n, retZeroNil)
	}

	// portbase logging: formatting and output are not the subject (except C20,
	// which disables these stubs)
	lp := "github.com/safing/portbase/log."
	for _, n := range []string{"Trace", "Debug", "Info", "Warning", "Error", "Critical"} {
		reg(lp+n, noop)
		reg(lp+n+"f", noop)
	}
	reg(lp+"Tracer", func(fr *frame, args []Value) Value { return (*Value)(nil) })
	reg(lp+"AddTracer", func(fr *frame, args []Value) Value { return Tuple{args[0], (*Value)(nil)} })

	// ---- time ----
	reg("time.Now", func(fr *frame, args []Value) Value { return fr.e.timeValue() })
	reg("time.runtimeNano", func(fr *frame, args []Value) Value {
		return fr.e.tt.BV(64, uint64(fr.e.sched.now+1))
	})
	reg("time.Sleep", func(fr *frame, args []Value) Value {
		e := fr.e
		d := e.durationArg(args[0], "Sleep duration")
		if d <= 0 {
			return nil
		}
		fired := false
		e.addTimer(d, nil, func() { fired = true }, 0)
		e.block(e.curG(fr), "time.Sleep", func() bool { return fired })
		return nil
	})
	reg("time.After", func(fr *frame, args []Value) Value {
		e := fr.e
		d := e.durationArg(args[0], "After duration")
		ch := &ChanV{cap: 1, id: e.sched.nextChanID()}
		e.addTimer(d, ch, nil, 0)
		return ch
	})
	reg("time.Since", func(fr *frame, args []Value) Value {
		e := fr.e
		// seconds resolution on the symbolic base, nanoseconds on the virtual offset
		t := args[0].(Struct)
		now := e.timeValue().(Struct)
		dsec := e.tt.Bin(OpSub, now[1].(*Term), t[1].(*Term))
		dns := e.tt.Bin(OpSub, now[0].(*Term), t[0].(*Term))
		return e.saturatedDuration(dsec, dns)
	})
}

var errorIface = types.Universe.Lookup("error").Type().Underlying().(*types.Interface)

// ---------- codec contract stubs ----------

type codecEntry struct {
	codec   string
	payload []*Term
	val     Iface
}

func (e *Exec) codecMarshal(fr *frame, codec string, v Iface) Value {
	// fork: error or success with a fresh payload of 0..2 bytes
	if !e.codecNoFaults {
		ok := e.freshVar(codec+".marshal.ok", 0)
		if !e.branch(ok) {
			return Tuple{Slice{}, e.newErrorString(e.strConst(codec + ": marshal error (stub)"))}
		}
	}
	lv := e.freshVar(codec+".payload.len", 64)
	n := e.forkRange(lv, 1, 2) // a codec never produces an empty document
	a := make([]Value, n)
	p := make([]*Term, n)
	for i := range a {
		p[i] = e.freshVar(fmt.Sprintf("%s.payload.%d", codec, i), 8)
		a[i] = p[i]
	}
	e.codecLog = append(e.codecLog, codecEntry{codec, p, v})
	return Tuple{Slice{a}, Iface{}}
}

// codecUnmarshal: succeeds with an equal value iff data was produced by the
// same codec's marshal stub; otherwise returns an error or havocs the target.
func (e *Exec) codecUnmarshal(fr *frame, codec string, data Slice, target Iface) Value {
	for i := len(e.codecLog) - 1; i >= 0; i-- {
		ent := e.codecLog[i]
		if ent.codec != codec || len(ent.payload) != len(data.a) {
			continue
		}
		eq := e.tt.True
		for j := range ent.payload {
			eq = e.tt.And(eq, e.tt.Eq(ent.payload[j], data.a[j].(*Term)))
		}
		if e.branch(eq) {
			e.codecCopy(ent.val, target)
			e.codecHits++
			return Iface{}
		}
	}
	ok := e.freshVar(codec+".unmarshal.ok", 0)
	if !e.branch(ok) {
		return e.newErrorString(e.strConst(codec + ": unmarshal error (stub)"))
	}
	e.havocTarget(target)
	return Iface{}
}

// codecCopy copies the exported, serialisable fields of src into *dst.
func (e *Exec) codecCopy(src, dst Iface) {
	dp, ok := dst.v.(*Value)
	if !ok || dp == nil {
		return
	}
	var sv Value
	st := src.t
	if sp, ok := src.v.(*Value); ok {
		if sp == nil {
			return
		}
		sv = *sp
		if pt, ok := st.Underlying().(*types.Pointer); ok {
			st = pt.Elem()
		}
	} else {
		sv = src.v
	}
	dt := dst.t
	if pt, ok := dt.Underlying().(*types.Pointer); ok {
		dt = pt.Elem()
	}
	if !types.Identical(st, dt) {
		e.havocTarget(dst)
		return
	}
	stt, ok := st.Underlying().(*types.Struct)
	if !ok {
		storeVal(dp, copyVal(sv))
		return
	}
	ss, ds := sv.(Struct), (*dp).(Struct)
	for i := 0; i < stt.NumFields(); i++ {
		f := stt.Field(i)
		tag := reflect.StructTag(stt.Tag(i))
		if !f.Exported() || tag.Get("json") == "-" {
			continue
		}
		if f.Embedded() && (f.Name() == "Mutex" || f.Name() == "RWMutex" || f.Name() == "Base") {
			continue
		}
		storeVal(&ds[i], copyVal(ss[i]))
	}
}

// havocTarget assigns fresh symbolic values to the integer/bool fields
// reachable (without pointers) from *target.
func (e *Exec) havocTarget(target Iface) {
	dp, ok := target.v.(*Value)
	if !ok || dp == nil || target.t == nil {
		return
	}
	pt, ok := target.t.Underlying().(*types.Pointer)
	if !ok {
		return
	}
	e.havocSeq++
	*dp = e.havocValue(*dp, pt.Elem(), fmt.Sprintf("havoc%d", e.havocSeq))
}

func (e *Exec) havocValue(v Value, t types.Type, name string) Value {
	switch u := t.Underlying().(type) {
	case *types.Basic:
		if ik, ok := basicInt(u); ok {
			return e.freshVar(name, ik.w)
		}
		if isBool(u) {
			return e.freshVar(name, 0)
		}
	case *types.Struct:
		s := v.(Struct)
		for i := range s {
			if u.Field(i).Embedded() && (u.Field(i).Name() == "Mutex" || u.Field(i).Name() == "RWMutex") {
				continue
			}
			s[i] = e.havocValue(s[i], u.Field(i).Type(), name+"."+u.Field(i).Name())
		}
		return s
	case *types.Array:
		a := v.(Array)
		for i := range a {
			a[i] = e.havocValue(a[i], u.Elem(), fmt.Sprintf("%s.%d", name, i))
		}
		return a
	}
	return v
}

func init() {
	for codec, pkg := range map[string]string{
		"json":    "encoding/json",
		"yaml":    "github.com/ghodss/yaml",
		"cbor":    "github.com/fxamacker/cbor/v2",
		"msgpack": "github.com/vmihailenco/msgpack/v5",
	} {
		codec := codec
		reg(pkg+".Marshal", func(fr *frame, args []Value) Value {
			return fr.e.codecMarshal(fr, codec, args[0].(Iface))
		})
		reg(pkg+".Unmarshal", func(fr *frame, args []Value) Value {
			var target Iface
			for _, a := range args[1:] {
				if iv, ok := a.(Iface); ok {
					target = iv
					break
				}
			}
			return fr.e.codecUnmarshal(fr, codec, args[0].(Slice), target)
		})
	}
	reg("encoding/json.MarshalIndent", func(fr *frame, args []Value) Value {
		return fr.e.codecMarshal(fr, "json", args[0].(Iface))
	})
}

var _ = ssa.NewProgram

// ---------- gzip contract stub ----------
// Writer: compressed form = 1f 8b ++ data (three bytes for inputs of 64 bytes
// and more: any compression ratio is possible), remembered; Reader: input that
// equals a remembered compressed form yields the original data, anything
// else yields an error or arbitrary bytes (0..2).

type gzipEntry struct {
	comp []*Term
	orig []*Term
}

type gzipReaderState struct {
	out  []*Term
	good bool // produced by the writer stub: Close succeeds
}

func (e *Exec) ifaceBytesBuffer(r Iface) []*Term {
	if r.t == nil {
		unsupported("gzip.NewReader(nil)")
	}
	if r.t.String() != "*bytes.Buffer" {
		unsupported("gzip.NewReader over %s", r.t.String())
	}
	st := (*r.v.(*Value)).(Struct)
	buf := bytesOf(st[0])
	off := int(e.concretize(st[1].(*Term), "Buffer.off"))
	return buf[off:]
}

func init() {
	reg("compress/gzip.NewReader", func(fr *frame, args []Value) Value {
		e := fr.e
		data := e.ifaceBytesBuffer(args[0].(Iface))
		rt := e.namedType("compress/gzip", "Reader")
		var cell Value = e.zero(rt)
		p := &cell
		for i := len(e.gzipLog) - 1; i >= 0; i-- {
			ent := e.gzipLog[i]
			if len(ent.comp) != len(data) {
				continue
			}
			if e.branch(e.matchAt(data, ent.comp, 0)) {
				e.objs[fmt.Sprintf("gzr%p", p)] = &gzipReaderState{out: ent.orig, good: true}
				return Tuple{p, Iface{}}
			}
		}
		ok := e.freshVar("gzip.reader.ok", 0)
		if !e.branch(ok) {
			return Tuple{(*Value)(nil), e.newErrorString(e.strConst("gzip: invalid header (stub)"))}
		}
		n := e.forkRange(e.freshVar("gzip.out.len", 64), 0, 2)
		out := make([]*Term, n)
		for i := range out {
			out[i] = e.freshVar(fmt.Sprintf("gzip.out.%d", i), 8)
		}
		e.objs[fmt.Sprintf("gzr%p", p)] = &gzipReaderState{out: out}
		return Tuple{p, Iface{}}
	})
	reg("(*compress/gzip.Reader).Read", func(fr *frame, args []Value) Value {
		e := fr.e
		st, _ := e.objs[fmt.Sprintf("gzr%p", args[0].(*Value))].(*gzipReaderState)
		if st == nil {
			unsupported("gzip.Reader.Read on unknown reader")
		}
		dst := args[1].(Slice)
		n := len(st.out)
		if n > len(dst.a) {
			n = len(dst.a)
		}
		for i := 0; i < n; i++ {
			dst.a[i] = st.out[i]
		}
		st.out = st.out[n:]
		if len(st.out) == 0 && n == 0 {
			eof := e.ld.pkgs["io"].Members["EOF"].(*ssa.Global)
			return Tuple{e.tt.BV(64, 0), *e.global(eof)}
		}
		return Tuple{e.tt.BV(64, uint64(n)), Iface{}}
	})
	reg("(*compress/gzip.Reader).Close", func(fr *frame, args []Value) Value {
		e := fr.e
		if st, _ := e.objs[fmt.Sprintf("gzr%p", args[0].(*Value))].(*gzipReaderState); st != nil && st.good {
			return Iface{}
		}
		if e.branch(e.freshVar("gzip.close.ok", 0)) {
			return Iface{}
		}
		return e.newErrorString(e.strConst("gzip: close error (stub)"))
	})
	reg("compress/gzip.NewWriterLevel", func(fr *frame, args []Value) Value {
		e := fr.e
		wt := e.namedType("compress/gzip", "Writer")
		var cell Value = e.zero(wt)
		p := &cell
		e.objs[fmt.Sprintf("gzw%p", p)] = args[0]
		return Tuple{p, Iface{}}
	})
	reg("(*compress/gzip.Writer).Write", func(fr *frame, args []Value) Value {
		e := fr.e
		w, _ := e.objs[fmt.Sprintf("gzw%p", args[0].(*Value))].(Iface)
		if w.t == nil {
			unsupported("gzip.Writer.Write on unknown writer")
		}
		data := bytesOf(args[1])
		comp := append([]*Term{e.tt.BV(8, 0x1f), e.tt.BV(8, 0x8b)}, data...)
		if len(data) >= 64 {
			// long input: gzip may compress at any ratio - here down to a
			// three byte token (the original is remembered)
			comp = []*Term{e.tt.BV(8, 0x1f), e.tt.BV(8, 0x8b), e.tt.BV(8, uint64(0xC0|len(e.gzipLog)&0x3f))}
		}
		e.gzipLog = append(e.gzipLog, gzipEntry{comp, data})
		a := make([]Value, len(comp))
		for i, b := range comp {
			a[i] = b
		}
		m := e.findMethod(w.t, "Write")
		if m == nil {
			unsupported("gzip writer target without Write")
		}
		res := e.callSSA(fr, 0, m, []Value{w.v, Slice{a}}, nil).(Tuple)
		if ie, ok := res[1].(Iface); ok && ie.t != nil {
			return Tuple{e.tt.BV(64, 0), ie}
		}
		return Tuple{e.tt.BV(64, uint64(len(data))), Iface{}}
	})
	reg("(*compress/gzip.Writer).Close", func(fr *frame, args []Value) Value { return Iface{} })
}

// ---------- regexp: opaque compiled object, pattern remembered ----------

type regexObj struct{ pattern string }

func init() {
	compile := func(must bool) intrinsicFn {
		return func(fr *frame, args []Value) Value {
			e := fr.e
			pat := e.mustConcStr(args[0], "regexp pattern")
			rt := e.namedType("regexp", "Regexp")
			var cell Value = e.zero(rt)
			p := &cell
			e.objs[fmt.Sprintf("regexp%p", p)] = &regexObj{pat}
			if must {
				return p
			}
			return Tuple{p, Iface{}}
		}
	}
	reg("regexp.MustCompile", compile(true))
	reg("regexp.Compile", compile(false))
}

func (e *Exec) regexOf(v Value) *regexObj {
	p, _ := v.(*Value)
	if p == nil {
		return nil
	}
	r, _ := e.objs[fmt.Sprintf("regexp%p", p)].(*regexObj)
	return r
}

func init() {
	// command-line flag registration in package inits: irrelevant to every property
	regPrefix("flag.", func(fr *frame, args []Value) Value { return fr.e.zeroResults(fr.fn) })
	// context tracer methods are logging
	regPrefix("(*github.com/safing/portbase/log.ContextTracer).", func(fr *frame, args []Value) Value { return fr.e.zeroResults(fr.fn) })
}

// ---------- fmt.Fprintf to buffers, reflect.DeepEqual on plain data ----------

func init() {
	fprint := func(render func(e *Exec, args []Value) Str) intrinsicFn {
		return func(fr *frame, args []Value) Value {
			e := fr.e
			w := args[0].(Iface)
			msg := render(e, args[1:])
			if w.t == nil {
				panic(targetPanic{e.runtimeError("invalid memory address or nil pointer dereference (Fprintf to nil writer)"), "fmt.Fprintf"})
			}
			if w.t.String() == "*os.File" {
				return Tuple{e.tt.BV(64, uint64(len(msg.b))), Iface{}}
			}
			m := e.findMethod(w.t, "Write")
			if m == nil {
				unsupported("Fprintf: writer without Write")
			}
			a := make([]Value, len(msg.b))
			for i, b := range msg.b {
				a[i] = b
			}
			return e.callSSA(fr, 0, m, []Value{w.v, Slice{a}}, nil)
		}
	}
	reg("fmt.Fprintf", fprint(func(e *Exec, args []Value) Str { return e.formatMsg(args[0].(Str), variadic(args[1])) }))
	plain := func(nl bool) func(e *Exec, args []Value) Str {
		return func(e *Exec, args []Value) Str {
			var out []*Term
			for i, a := range variadic(args[0]) {
				if i > 0 && nl {
					out = append(out, e.tt.BV(8, ' '))
				}
				out = append(out, e.formatMsg(e.strConst("%v"), []Value{a}).b...)
			}
			if nl {
				out = append(out, e.tt.BV(8, '\n'))
			}
			return Str{out}
		}
	}
	reg("fmt.Fprint", fprint(plain(false)))
	reg("fmt.Fprintln", fprint(plain(true)))
	reg("reflect.DeepEqual", func(fr *frame, args []Value) Value {
		e := fr.e
		a, b := args[0].(Iface), args[1].(Iface)
		if a.t == nil || b.t == nil {
			return e.tt.Bool(a.t == nil && b.t == nil)
		}
		if !types.Identical(a.t, b.t) {
			return e.tt.False
		}
		return e.deepEq(a.v, b.v)
	})
}

func (e *Exec) deepEq(x, y Value) *Term {
	switch xv := x.(type) {
	case Slice:
		yv, ok := y.(Slice)
		if !ok || len(xv.a) != len(yv.a) || (xv.a == nil) != (yv.a == nil) {
			return e.tt.False
		}
		r := e.tt.True
		for i := range xv.a {
			r = e.tt.And(r, e.deepEq(xv.a[i], yv.a[i]))
		}
		return r
	case *Term, Str, Float:
		return e.eqVal(x, y)
	case Struct:
		yv, ok := y.(Struct)
		if !ok || len(xv) != len(yv) {
			return e.tt.False
		}
		r := e.tt.True
		for i := range xv {
			r = e.tt.And(r, e.deepEq(xv[i], yv[i]))
		}
		return r
	case Array:
		yv, ok := y.(Array)
		if !ok || len(xv) != len(yv) {
			return e.tt.False
		}
		r := e.tt.True
		for i := range xv {
			r = e.tt.And(r, e.deepEq(xv[i], yv[i]))
		}
		return r
	case Iface:
		yv, ok := y.(Iface)
		if !ok {
			return e.tt.False
		}
		if xv.t == nil || yv.t == nil {
			return e.tt.Bool(xv.t == nil && yv.t == nil)
		}
		if !types.Identical(xv.t, yv.t) {
			return e.tt.False
		}
		return e.deepEq(xv.v, yv.v)
	}
	unsupported("reflect.DeepEqual on %T", x)
	return nil
}

// ---------- hashicorp/go-version: concrete version strings ----------

func init() {
	reg("github.com/hashicorp/go-version.NewVersion", func(fr *frame, args []Value) Value {
		e := fr.e
		s := e.mustConcStr(args[0], "version string")
		vt := e.namedType("github.com/hashicorp/go-version", "Version")
		core, pre := s, ""
		if i := strings.IndexByte(s, '-'); i >= 0 {
			core, pre = s[:i], s[i+1:]
		}
		core = strings.TrimPrefix(core, "v")
		parts := strings.Split(core, ".")
		if len(parts) == 0 || len(parts) > 3 || core == "" {
			return Tuple{(*Value)(nil), e.newErrorString(e.strConst("Malformed version: " + s))}
		}
		var segs []Value
		for _, p := range parts {
			var n uint64
			if p == "" {
				return Tuple{(*Value)(nil), e.newErrorString(e.strConst("Malformed version: " + s))}
			}
			for _, c := range p {
				if c < '0' || c > '9' {
					return Tuple{(*Value)(nil), e.newErrorString(e.strConst("Malformed version: " + s))}
				}
				n = n*10 + uint64(c-'0')
			}
			segs = append(segs, e.tt.BV(64, n))
		}
		si := len(segs)
		for len(segs) < 3 {
			segs = append(segs, e.tt.BV(64, 0))
		}
		v := e.zero(vt).(Struct)
		setField(v, vt, "segments", Slice{segs})
		setField(v, vt, "pre", e.strConst(pre))
		setField(v, vt, "si", e.tt.BV(64, uint64(si)))
		setField(v, vt, "original", e.strConst(s))
		var cell Value = v
		return Tuple{&cell, Iface{}}
	})
	// String(): normalised "a.b.c[-pre]" (fmt based in the original)
	reg("(*github.com/hashicorp/go-version.Version).String", func(fr *frame, args []Value) Value {
		e := fr.e
		vt := e.namedType("github.com/hashicorp/go-version", "Version")
		v := (*fr.derefArg(args[0], "Version.String")).(Struct)
		segs := (*getField(v, vt, "segments")).(Slice)
		var parts []string
		for _, s := range segs.a {
			parts = append(parts, fmt.Sprint(s.(*Term).k))
		}
		out := strings.Join(parts, ".")
		pre, _ := concStr((*getField(v, vt, "pre")).(Str))
		if pre != "" {
			out += "-" + pre
		}
		return e.strConst(out)
	})
}

func init() {
	// the log writer's trigger channel (log package init is not executed unless
	// the log package itself is under test): a channel nobody receives from
	reg("github.com/safing/portbase/log.TriggerWriterChannel", func(fr *frame, args []Value) Value {
		return &ChanV{cap: 0, id: fr.e.sched.nextChanID()}
	})
}

// ---------- time.Timer / time.Ticker on the virtual clock ----------

func init() {
	mkTimerObj := func(e *Exec, typeName string, d int64, period int64) (*Value, *timer) {
		tt := e.namedType("time", typeName)
		st := e.zero(tt).(Struct)
		ch := &ChanV{cap: 1, id: e.sched.nextChanID()}
		setField(st, tt, "C", ch)
		var cell Value = st
		p := &cell
		t := e.addTimer(d, ch, nil, period)
		e.objs[fmt.Sprintf("timer%p", p)] = t
		return p, t
	}
	reg("time.NewTimer", func(fr *frame, args []Value) Value {
		e := fr.e
		p, _ := mkTimerObj(e, "Timer", e.durationArg(args[0], "NewTimer"), 0)
		return p
	})
	reg("time.NewTicker", func(fr *frame, args []Value) Value {
		e := fr.e
		d := e.durationArg(args[0], "NewTicker")
		if d <= 0 {
			panic(targetPanic{e.runtimeErrorPlain("non-positive interval for NewTicker"), "time.NewTicker"})
		}
		p, _ := mkTimerObj(e, "Ticker", d, d)
		return p
	})
	timerOf := func(fr *frame, v Value) *timer {
		p, _ := v.(*Value)
		if p == nil {
			panic(targetPanic{fr.e.runtimeError("nil timer"), "time.Timer"})
		}
		t, _ := fr.e.objs[fmt.Sprintf("timer%p", p)].(*timer)
		if t == nil {
			unsupported("time.Timer not created by the engine")
		}
		return t
	}
	reg("(*time.Timer).Stop", func(fr *frame, args []Value) Value {
		t := timerOf(fr, args[0])
		was := t.active
		t.active = false
		return fr.e.tt.Bool(was)
	})
	reg("(*time.Ticker).Stop", func(fr *frame, args []Value) Value {
		timerOf(fr, args[0]).active = false
		return nil
	})
	reg("(*time.Timer).Reset", func(fr *frame, args []Value) Value {
		e := fr.e
		t := timerOf(fr, args[0])
		was := t.active
		t.when = e.sched.now + e.durationArg(args[1], "Timer.Reset")
		if !t.active {
			t.active = true
			e.sched.timers = append(e.sched.timers, t)
		}
		return e.tt.Bool(was)
	})
	reg("(*time.Ticker).Reset", func(fr *frame, args []Value) Value {
		e := fr.e
		t := timerOf(fr, args[0])
		d := e.durationArg(args[1], "Ticker.Reset")
		t.when, t.period = e.sched.now+d, d
		if !t.active {
			t.active = true
			e.sched.timers = append(e.sched.timers, t)
		}
		return nil
	})
	reg("time.AfterFunc", func(fr *frame, args []Value) Value {
		e := fr.e
		d := e.durationArg(args[0], "AfterFunc")
		fn := args[1]
		tt := e.namedType("time", "Timer")
		var cell Value = e.zero(tt)
		p := &cell
		t := e.addTimer(d, nil, func() { e.spawn(fr, 0, fn, nil) }, 0)
		e.objs[fmt.Sprintf("timer%p", p)] = t
		return p
	})
	reg("time.Until", func(fr *frame, args []Value) Value {
		e := fr.e
		t := args[0].(Struct)
		now := e.timeValue().(Struct)
		dsec := e.tt.Bin(OpSub, t[1].(*Term), now[1].(*Term))
		dns := e.tt.Bin(OpSub, t[0].(*Term), now[0].(*Term))
		return e.saturatedDuration(dsec, dns)
	})
}

// saturatedDuration is dsec seconds plus dns nanoseconds as a time.Duration,
// saturating at the ends of its range like Time.Sub does.
func (e *Exec) saturatedDuration(dsec, dns *Term) *Term {
	const limit = 9223372035 // whole seconds that surely fit
	d := e.tt.Bin(OpAdd, e.tt.Bin(OpMul, dsec, e.tt.BV(64, 1_000_000_000)), dns)
	neg := int64(-limit)
	tooLow := e.tt.Cmp(OpSlt, dsec, e.tt.BV(64, uint64(neg)))
	tooHigh := e.tt.Cmp(OpSlt, e.tt.BV(64, limit), dsec)
	d = e.tt.Ite(tooHigh, e.tt.BV(64, uint64(1<<63-1)), d)
	return e.tt.Ite(tooLow, e.tt.BV(64, uint64(1)<<63), d)
}

func init() {
	// reflection is outside the encoder: end the path cleanly
	regPrefix("reflect.", func(fr *frame, args []Value) Value {
		unsupported("reflect call %s", fr.fn.String())
		return nil
	})
	regPrefix("(reflect.", func(fr *frame, args []Value) Value {
		unsupported("reflect call %s", fr.fn.String())
		return nil
	})
}

func init() {
	reg("(time.Time).Format", func(fr *frame, args []Value) Value { return fr.e.strConst("<time>") })
	reg("(time.Time).String", func(fr *frame, args []Value) Value { return fr.e.strConst("<time>") })
	// runtime.Caller: the harness declares the source position (natively the
	// real position of the call site is used)
	reg(rtPkgPath+".CallerFile", func(fr *frame, args []Value) Value {
		fr.e.callerFile = args[0].(Str)
		fr.e.callerLine = args[1].(*Term)
		return nil
	})
	reg("runtime.Caller", func(fr *frame, args []Value) Value {
		e := fr.e
		if e.callerLine == nil {
			return Tuple{e.tt.BV(64, 0), e.strConst("/repo/unknown/file.go"), e.tt.BV(64, 1), e.tt.True}
		}
		return Tuple{e.tt.BV(64, 0), e.callerFile, e.callerLine, e.tt.True}
	})
}

func init() {
	// context.WithValue without the reflectlite comparability check
	reg("context.WithValue", func(fr *frame, args []Value) Value {
		e := fr.e
		parent := args[0].(Iface)
		if parent.t == nil {
			panic(targetPanic{e.runtimeErrorPlain("cannot create context from nil parent"), "context.WithValue"})
		}
		vt := e.namedType("context", "valueCtx")
		st := e.zero(vt).(Struct)
		setField(st, vt, "Context", parent)
		setField(st, vt, "key", args[1])
		setField(st, vt, "val", args[2])
		var cell Value = st
		return Iface{t: types.NewPointer(vt), v: &cell}
	})
}
