package main

// Hash-consed SMT terms over Bool and fixed-width bit-vectors with constant
// folding at construction. One TermTable per executor (no global state).

import (
	"fmt"
	"strings"
)

type Op uint8

const (
	OpConst Op = iota
	OpVar
	OpNot
	OpAnd
	OpOr
	OpIte
	OpEq
	OpAdd
	OpSub
	OpMul
	OpUDiv
	OpURem
	OpSDiv
	OpSRem
	OpBAnd
	OpBOr
	OpBXor
	OpShl
	OpLShr
	OpAShr
	OpNeg
	OpBNot
	OpUlt
	OpUle
	OpSlt
	OpSle
	OpConcat
	OpExtract // k = hi<<8 | lo
	OpZExt    // to width w
	OpSExt    // to width w
)

var opNames = map[Op]string{
	OpNot: "not", OpAnd: "and", OpOr: "or", OpIte: "ite", OpEq: "=",
	OpAdd: "bvadd", OpSub: "bvsub", OpMul: "bvmul", OpUDiv: "bvudiv", OpURem: "bvurem",
	OpSDiv: "bvsdiv", OpSRem: "bvsrem", OpBAnd: "bvand", OpBOr: "bvor", OpBXor: "bvxor",
	OpShl: "bvshl", OpLShr: "bvlshr", OpAShr: "bvashr", OpNeg: "bvneg", OpBNot: "bvnot",
	OpUlt: "bvult", OpUle: "bvule", OpSlt: "bvslt", OpSle: "bvsle", OpConcat: "concat",
}

// Term is an immutable, hash-consed node. w==0 means Bool.
type Term struct {
	id      int32
	op      Op
	w       uint8
	a, b, c *Term
	k       uint64
	name    string
	emitted bool // define-fun already sent to the solver
}

type termKey struct {
	op      Op
	w       uint8
	a, b, c int32
	k       uint64
	name    string
}

type TermTable struct {
	tab   map[termKey]*Term
	next  int32
	vars  []*Term
	True  *Term
	False *Term
}

func NewTermTable() *TermTable {
	t := &TermTable{tab: make(map[termKey]*Term)}
	t.False = t.mk(OpConst, 0, nil, nil, nil, 0, "")
	t.True = t.mk(OpConst, 0, nil, nil, nil, 1, "")
	return t
}

func tid(t *Term) int32 {
	if t == nil {
		return -1
	}
	return t.id
}

func (tt *TermTable) mk(op Op, w uint8, a, b, c *Term, k uint64, name string) *Term {
	key := termKey{op, w, tid(a), tid(b), tid(c), k, name}
	if t, ok := tt.tab[key]; ok {
		return t
	}
	t := &Term{id: tt.next, op: op, w: w, a: a, b: b, c: c, k: k, name: name}
	tt.next++
	tt.tab[key] = t
	if op == OpVar {
		tt.vars = append(tt.vars, t)
	}
	return t
}

func mask(w uint8) uint64 {
	if w >= 64 {
		return ^uint64(0)
	}
	return (uint64(1) << w) - 1
}

func (t *Term) IsConst() bool { return t.op == OpConst }
func (t *Term) IsBool() bool  { return t.w == 0 }

// Const returns the unsigned constant value.
func (t *Term) Const() uint64 { return t.k }

// SConst returns the constant as sign-extended int64.
func (t *Term) SConst() int64 { return signExt(t.k, t.w) }

func signExt(v uint64, w uint8) int64 {
	if w >= 64 {
		return int64(v)
	}
	if v&(uint64(1)<<(w-1)) != 0 {
		return int64(v | ^mask(w))
	}
	return int64(v)
}

func (tt *TermTable) BV(w uint8, v uint64) *Term {
	return tt.mk(OpConst, w, nil, nil, nil, v&mask(w), "")
}

func (tt *TermTable) Bool(b bool) *Term {
	if b {
		return tt.True
	}
	return tt.False
}

func (tt *TermTable) Var(name string, w uint8) *Term {
	return tt.mk(OpVar, w, nil, nil, nil, 0, name)
}

func (tt *TermTable) Not(a *Term) *Term {
	if a.IsConst() {
		return tt.Bool(a.k == 0)
	}
	if a.op == OpNot {
		return a.a
	}
	return tt.mk(OpNot, 0, a, nil, nil, 0, "")
}

func (tt *TermTable) And(a, b *Term) *Term {
	if a.IsConst() {
		if a.k == 0 {
			return tt.False
		}
		return b
	}
	if b.IsConst() {
		if b.k == 0 {
			return tt.False
		}
		return a
	}
	if a == b {
		return a
	}
	if a.id > b.id {
		a, b = b, a
	}
	return tt.mk(OpAnd, 0, a, b, nil, 0, "")
}

func (tt *TermTable) Or(a, b *Term) *Term {
	if a.IsConst() {
		if a.k == 1 {
			return tt.True
		}
		return b
	}
	if b.IsConst() {
		if b.k == 1 {
			return tt.True
		}
		return a
	}
	if a == b {
		return a
	}
	if a.id > b.id {
		a, b = b, a
	}
	return tt.mk(OpOr, 0, a, b, nil, 0, "")
}

func (tt *TermTable) Ite(c, a, b *Term) *Term {
	if c.IsConst() {
		if c.k == 1 {
			return a
		}
		return b
	}
	if a == b {
		return a
	}
	if a.w == 0 {
		// boolean ite
		if a.IsConst() && b.IsConst() {
			if a.k == 1 {
				return c
			}
			return tt.Not(c)
		}
		if a.IsConst() {
			if a.k == 1 {
				return tt.Or(c, b)
			}
			return tt.And(tt.Not(c), b)
		}
		if b.IsConst() {
			if b.k == 1 {
				return tt.Or(tt.Not(c), a)
			}
			return tt.And(c, a)
		}
	}
	return tt.mk(OpIte, a.w, c, a, b, 0, "")
}

func (tt *TermTable) Eq(a, b *Term) *Term {
	if a.w != b.w {
		panic(fmt.Sprintf("Eq width mismatch %d vs %d", a.w, b.w))
	}
	if a == b {
		return tt.True
	}
	if a.IsConst() && b.IsConst() {
		return tt.Bool(a.k == b.k)
	}
	if a.w == 0 {
		if a.IsConst() {
			if a.k == 1 {
				return b
			}
			return tt.Not(b)
		}
		if b.IsConst() {
			if b.k == 1 {
				return a
			}
			return tt.Not(a)
		}
	}
	// (ite c k1 k2) == k3
	if b.IsConst() && a.op == OpIte && a.a != nil && a.b.IsConst() && a.c.IsConst() {
		return tt.Ite(a.a, tt.Bool(a.b.k == b.k), tt.Bool(a.c.k == b.k))
	}
	if a.IsConst() && b.op == OpIte && b.b.IsConst() && b.c.IsConst() {
		return tt.Ite(b.a, tt.Bool(b.b.k == a.k), tt.Bool(b.c.k == a.k))
	}
	// zext(x) == const
	if b.IsConst() && a.op == OpZExt {
		if b.k > mask(a.a.w) {
			return tt.False
		}
		return tt.Eq(a.a, tt.BV(a.a.w, b.k))
	}
	if a.IsConst() && b.op == OpZExt {
		return tt.Eq(b, a)
	}
	if a.id > b.id {
		a, b = b, a
	}
	return tt.mk(OpEq, 0, a, b, nil, 0, "")
}

func (tt *TermTable) Neq(a, b *Term) *Term { return tt.Not(tt.Eq(a, b)) }

func foldBin(op Op, w uint8, x, y uint64) (uint64, bool) {
	m := mask(w)
	switch op {
	case OpAdd:
		return (x + y) & m, true
	case OpSub:
		return (x - y) & m, true
	case OpMul:
		return (x * y) & m, true
	case OpUDiv:
		if y == 0 {
			return m, true
		}
		return x / y, true
	case OpURem:
		if y == 0 {
			return x, true
		}
		return x % y, true
	case OpSDiv:
		sx, sy := signExt(x, w), signExt(y, w)
		if sy == 0 {
			if sx >= 0 {
				return m, true
			}
			return 1, true
		}
		if sy == -1 {
			return uint64(-sx) & m, true
		}
		return uint64(sx/sy) & m, true
	case OpSRem:
		sx, sy := signExt(x, w), signExt(y, w)
		if sy == 0 {
			return x, true
		}
		if sy == -1 {
			return 0, true
		}
		return uint64(sx%sy) & m, true
	case OpBAnd:
		return x & y, true
	case OpBOr:
		return x | y, true
	case OpBXor:
		return x ^ y, true
	case OpShl:
		if y >= uint64(w) {
			return 0, true
		}
		return (x << y) & m, true
	case OpLShr:
		if y >= uint64(w) {
			return 0, true
		}
		return x >> y, true
	case OpAShr:
		sx := signExt(x, w)
		if y >= uint64(w) {
			if sx < 0 {
				return m, true
			}
			return 0, true
		}
		return uint64(sx>>y) & m, true
	}
	return 0, false
}

func (tt *TermTable) Bin(op Op, a, b *Term) *Term {
	if a.w != b.w || a.w == 0 {
		panic(fmt.Sprintf("Bin %s width mismatch %d vs %d", opNames[op], a.w, b.w))
	}
	w := a.w
	if a.IsConst() && b.IsConst() {
		if v, ok := foldBin(op, w, a.k, b.k); ok {
			return tt.BV(w, v)
		}
	}
	switch op {
	case OpAdd:
		if a.IsConst() && a.k == 0 {
			return b
		}
		if b.IsConst() && b.k == 0 {
			return a
		}
		// (x + c1) + c2 -> x + (c1+c2)
		if b.IsConst() {
			if base, off, ok := splitOffset(a); ok {
				return tt.Bin(OpAdd, base, tt.BV(w, off+b.k))
			}
		}
		if a.IsConst() {
			if base, off, ok := splitOffset(b); ok {
				return tt.Bin(OpAdd, base, tt.BV(w, off+a.k))
			}
		}
	case OpSub:
		if b.IsConst() && b.k == 0 {
			return a
		}
		if a == b {
			return tt.BV(w, 0)
		}
		if b.IsConst() {
			return tt.Bin(OpAdd, a, tt.BV(w, -b.k))
		}
		// (x + c1) - (x + c2) -> c1 - c2
		{
			ba, oa, oka := splitOffset(a)
			bb, ob, okb := splitOffset(b)
			if !oka {
				ba, oa = a, 0
			}
			if !okb {
				bb, ob = b, 0
			}
			if ba == bb && (oka || okb) {
				return tt.BV(w, oa-ob)
			}
		}
	case OpBOr, OpBXor:
		if a.IsConst() && a.k == 0 {
			return b
		}
		if b.IsConst() && b.k == 0 {
			return a
		}
		if op == OpBOr && a == b {
			return a
		}
	case OpBAnd:
		if (a.IsConst() && a.k == 0) || (b.IsConst() && b.k == 0) {
			return tt.BV(w, 0)
		}
		if a.IsConst() && a.k == mask(w) {
			return b
		}
		if b.IsConst() && b.k == mask(w) {
			return a
		}
		if a == b {
			return a
		}
	case OpShl, OpLShr, OpAShr:
		if b.IsConst() && b.k == 0 {
			return a
		}
		if a.IsConst() && a.k == 0 {
			return a
		}
	case OpMul:
		if a.IsConst() && a.k == 1 {
			return b
		}
		if b.IsConst() && b.k == 1 {
			return a
		}
		if (a.IsConst() && a.k == 0) || (b.IsConst() && b.k == 0) {
			return tt.BV(w, 0)
		}
	}
	switch op {
	case OpAdd, OpMul, OpBAnd, OpBOr, OpBXor:
		if a.id > b.id {
			a, b = b, a
		}
	}
	return tt.mk(op, w, a, b, nil, 0, "")
}

func (tt *TermTable) Cmp(op Op, a, b *Term) *Term {
	if a.w != b.w || a.w == 0 {
		panic(fmt.Sprintf("Cmp %s width mismatch %d vs %d", opNames[op], a.w, b.w))
	}
	if a.IsConst() && b.IsConst() {
		switch op {
		case OpUlt:
			return tt.Bool(a.k < b.k)
		case OpUle:
			return tt.Bool(a.k <= b.k)
		case OpSlt:
			return tt.Bool(a.SConst() < b.SConst())
		case OpSle:
			return tt.Bool(a.SConst() <= b.SConst())
		}
	}
	if a == b {
		return tt.Bool(op == OpUle || op == OpSle)
	}
	// unsigned comparisons of zero-extended narrow values against constants
	if op == OpUlt || op == OpUle {
		if a.op == OpZExt && b.IsConst() && b.k > mask(a.a.w) {
			return tt.True
		}
		if b.op == OpZExt && a.IsConst() && a.k > mask(b.a.w) {
			return tt.False
		}
		if op == OpUlt && b.IsConst() && b.k == 0 {
			return tt.False
		}
		if op == OpUle && a.IsConst() && a.k == 0 {
			return tt.True
		}
	}
	if op == OpSlt || op == OpSle {
		// zext(x) is non-negative when widened
		if a.op == OpZExt && a.a.w < a.w && b.IsConst() {
			bs := b.SConst()
			if bs < 0 {
				return tt.False
			}
			if uint64(bs) > mask(a.a.w) {
				return tt.True
			}
		}
		if b.op == OpZExt && b.a.w < b.w && a.IsConst() {
			as := a.SConst()
			if as < 0 {
				return tt.True
			}
			if uint64(as) > mask(b.a.w) {
				return tt.False
			}
		}
	}
	return tt.mk(op, 0, a, b, nil, 0, "")
}

func (tt *TermTable) Neg(a *Term) *Term {
	if a.IsConst() {
		return tt.BV(a.w, -a.k)
	}
	return tt.mk(OpNeg, a.w, a, nil, nil, 0, "")
}

func (tt *TermTable) BNot(a *Term) *Term {
	if a.IsConst() {
		return tt.BV(a.w, ^a.k)
	}
	return tt.mk(OpBNot, a.w, a, nil, nil, 0, "")
}

func (tt *TermTable) Extract(a *Term, hi, lo uint8) *Term {
	w := hi - lo + 1
	if lo == 0 && w == a.w {
		return a
	}
	if a.IsConst() {
		return tt.BV(w, a.k>>lo)
	}
	if (a.op == OpZExt || a.op == OpSExt) && hi < a.a.w {
		return tt.Extract(a.a, hi, lo)
	}
	if a.op == OpZExt && lo >= a.a.w {
		return tt.BV(w, 0)
	}
	return tt.mk(OpExtract, w, a, nil, nil, uint64(hi)<<8|uint64(lo), "")
}

func (tt *TermTable) ZExt(a *Term, w uint8) *Term {
	if a.w == w {
		return a
	}
	if a.w > w {
		return tt.Extract(a, w-1, 0)
	}
	if a.IsConst() {
		return tt.BV(w, a.k)
	}
	if a.op == OpZExt {
		return tt.ZExt(a.a, w)
	}
	return tt.mk(OpZExt, w, a, nil, nil, 0, "")
}

func (tt *TermTable) SExt(a *Term, w uint8) *Term {
	if a.w == w {
		return a
	}
	if a.w > w {
		return tt.Extract(a, w-1, 0)
	}
	if a.IsConst() {
		return tt.BV(w, uint64(a.SConst()))
	}
	if a.op == OpZExt && a.a.w < a.w {
		return tt.ZExt(a.a, w)
	}
	return tt.mk(OpSExt, w, a, nil, nil, 0, "")
}

func (tt *TermTable) Concat(hi, lo *Term) *Term {
	w := hi.w + lo.w
	if hi.IsConst() && lo.IsConst() {
		return tt.BV(w, hi.k<<lo.w|lo.k)
	}
	return tt.mk(OpConcat, w, hi, lo, nil, 0, "")
}

// ---------- SMT-LIB printing ----------

func sortName(w uint8) string {
	if w == 0 {
		return "Bool"
	}
	return fmt.Sprintf("(_ BitVec %d)", w)
}

func constLit(t *Term) string {
	if t.w == 0 {
		if t.k == 1 {
			return "true"
		}
		return "false"
	}
	if t.w%4 == 0 {
		return fmt.Sprintf("#x%0*x", int(t.w/4), t.k)
	}
	return fmt.Sprintf("#b%0*b", int(t.w), t.k)
}

func ref(t *Term) string {
	switch t.op {
	case OpConst:
		return constLit(t)
	case OpVar:
		return "|" + t.name + "|"
	}
	return fmt.Sprintf("n%d", t.id)
}

// body renders the defining expression of a non-leaf term by reference to
// its children.
func body(t *Term) string {
	switch t.op {
	case OpNot, OpNeg, OpBNot:
		return "(" + opNames[t.op] + " " + ref(t.a) + ")"
	case OpIte:
		return "(ite " + ref(t.a) + " " + ref(t.b) + " " + ref(t.c) + ")"
	case OpExtract:
		return fmt.Sprintf("((_ extract %d %d) %s)", t.k>>8, t.k&0xff, ref(t.a))
	case OpZExt:
		return fmt.Sprintf("((_ zero_extend %d) %s)", t.w-t.a.w, ref(t.a))
	case OpSExt:
		return fmt.Sprintf("((_ sign_extend %d) %s)", t.w-t.a.w, ref(t.a))
	default:
		return "(" + opNames[t.op] + " " + ref(t.a) + " " + ref(t.b) + ")"
	}
}

// emitDefs appends the (declare-const / define-fun) lines needed for t that
// have not been sent yet, children first.
func emitDefs(t *Term, sb *strings.Builder, rec *[]*Term) {
	if t == nil || t.emitted {
		return
	}
	// iterative post-order to avoid deep recursion on long chains
	type item struct {
		t    *Term
		done bool
	}
	stack := []item{{t, false}}
	for len(stack) > 0 {
		it := stack[len(stack)-1]
		stack = stack[:len(stack)-1]
		x := it.t
		if x == nil || x.emitted {
			continue
		}
		if x.op == OpConst {
			continue
		}
		if x.op == OpVar {
			fmt.Fprintf(sb, "(declare-const |%s| %s)\n", x.name, sortName(x.w))
			x.emitted = true
			*rec = append(*rec, x)
			continue
		}
		if it.done {
			fmt.Fprintf(sb, "(define-fun n%d () %s %s)\n", x.id, sortName(x.w), body(x))
			x.emitted = true
			*rec = append(*rec, x)
			continue
		}
		stack = append(stack, item{x, true})
		stack = append(stack, item{x.a, false}, item{x.b, false}, item{x.c, false})
	}
}

// String renders the term fully inlined (debugging / samples; bounded depth).
func (t *Term) String() string { return t.str(6) }

func (t *Term) str(d int) string {
	switch t.op {
	case OpConst:
		if t.w == 0 {
			return constLit(t)
		}
		return fmt.Sprintf("%d", t.k)
	case OpVar:
		return t.name
	}
	if d == 0 {
		return "…"
	}
	switch t.op {
	case OpNot, OpNeg, OpBNot:
		return "(" + opNames[t.op] + " " + t.a.str(d-1) + ")"
	case OpIte:
		return "(ite " + t.a.str(d-1) + " " + t.b.str(d-1) + " " + t.c.str(d-1) + ")"
	case OpExtract:
		return fmt.Sprintf("(extract[%d:%d] %s)", t.k>>8, t.k&0xff, t.a.str(d-1))
	case OpZExt:
		return fmt.Sprintf("(zext%d %s)", t.w, t.a.str(d-1))
	case OpSExt:
		return fmt.Sprintf("(sext%d %s)", t.w, t.a.str(d-1))
	}
	return "(" + opNames[t.op] + " " + t.a.str(d-1) + " " + t.b.str(d-1) + ")"
}

// Eval evaluates t under a (total) assignment of variables; vars missing from
// the model evaluate to 0.
func (t *Term) Eval(m map[string]uint64, memo map[int32]uint64) uint64 {
	switch t.op {
	case OpConst:
		return t.k
	case OpVar:
		return m[t.name] & maskB(t.w)
	}
	if v, ok := memo[t.id]; ok {
		return v
	}
	var r uint64
	switch t.op {
	case OpNot:
		r = 1 - t.a.Eval(m, memo)
	case OpAnd:
		r = t.a.Eval(m, memo) & t.b.Eval(m, memo)
	case OpOr:
		r = t.a.Eval(m, memo) | t.b.Eval(m, memo)
	case OpIte:
		if t.a.Eval(m, memo) == 1 {
			r = t.b.Eval(m, memo)
		} else {
			r = t.c.Eval(m, memo)
		}
	case OpEq:
		r = b2u(t.a.Eval(m, memo) == t.b.Eval(m, memo))
	case OpUlt:
		r = b2u(t.a.Eval(m, memo) < t.b.Eval(m, memo))
	case OpUle:
		r = b2u(t.a.Eval(m, memo) <= t.b.Eval(m, memo))
	case OpSlt:
		r = b2u(signExt(t.a.Eval(m, memo), t.a.w) < signExt(t.b.Eval(m, memo), t.b.w))
	case OpSle:
		r = b2u(signExt(t.a.Eval(m, memo), t.a.w) <= signExt(t.b.Eval(m, memo), t.b.w))
	case OpNeg:
		r = (-t.a.Eval(m, memo)) & mask(t.w)
	case OpBNot:
		r = (^t.a.Eval(m, memo)) & mask(t.w)
	case OpExtract:
		hi, lo := uint8(t.k>>8), uint8(t.k&0xff)
		r = (t.a.Eval(m, memo) >> lo) & mask(hi-lo+1)
	case OpZExt:
		r = t.a.Eval(m, memo)
	case OpSExt:
		r = uint64(signExt(t.a.Eval(m, memo), t.a.w)) & mask(t.w)
	case OpConcat:
		r = t.a.Eval(m, memo)<<t.b.w | t.b.Eval(m, memo)
	default:
		r, _ = foldBin(t.op, t.w, t.a.Eval(m, memo), t.b.Eval(m, memo))
	}
	memo[t.id] = r
	return r
}

func maskB(w uint8) uint64 {
	if w == 0 {
		return 1
	}
	return mask(w)
}

func b2u(b bool) uint64 {
	if b {
		return 1
	}
	return 0
}

// splitOffset decomposes t = base + const.
func splitOffset(t *Term) (*Term, uint64, bool) {
	if t.op == OpAdd {
		if t.a.IsConst() {
			return t.b, t.a.k, true
		}
		if t.b.IsConst() {
			return t.a, t.b.k, true
		}
	}
	return nil, 0, false
}
