package main

import "fmt"

// net/http.Header as a plain map with caller-supplied canonical keys.

func init() {
	reg("(net/http.Header).Get", func(fr *frame, args []Value) Value {
		e := fr.e
		m, _ := args[0].(*MapV)
		i := e.mapFind(m, args[1])
		if i < 0 {
			return Str{}
		}
		vs := m.vals[i].(Slice)
		if len(vs.a) == 0 {
			return Str{}
		}
		return vs.a[0]
	})
	reg("(net/http.Header).Set", func(fr *frame, args []Value) Value {
		e := fr.e
		m, _ := args[0].(*MapV)
		if m == nil {
			panic(targetPanic{e.runtimeError("assignment to entry in nil map"), "http.Header.Set"})
		}
		e.mapInsert(m, args[1], Slice{[]Value{args[2]}})
		return nil
	})
	reg("(net/http.Header).Add", func(fr *frame, args []Value) Value {
		e := fr.e
		m, _ := args[0].(*MapV)
		if m == nil {
			panic(targetPanic{e.runtimeError("assignment to entry in nil map"), "http.Header.Add"})
		}
		if i := e.mapFind(m, args[1]); i >= 0 {
			vs := m.vals[i].(Slice)
			m.vals[i] = Slice{append(append([]Value{}, vs.a...), args[2])}
			return nil
		}
		e.mapInsert(m, args[1], Slice{[]Value{args[2]}})
		return nil
	})
	reg("(net/http.Header).Del", func(fr *frame, args []Value) Value {
		m, _ := args[0].(*MapV)
		if m != nil {
			fr.e.mapDelete(m, args[1])
		}
		return nil
	})
}

func init() {
	// (*http.Request).Cookie: "name=value" pairs in the single Cookie header value
	reg("(*net/http.Request).Cookie", func(fr *frame, args []Value) Value {
		e := fr.e
		r := (*fr.derefArg(args[0], "Request.Cookie")).(Struct)
		rt := e.namedType("net/http", "Request")
		hdr, _ := (*getField(r, rt, "Header")).(*MapV)
		name := args[1].(Str)
		noCookie := func() Value {
			return Tuple{(*Value)(nil), e.newErrorString(e.strConst("http: named cookie not present"))}
		}
		i := e.mapFind(hdr, e.strConst("Cookie"))
		if i < 0 {
			return noCookie()
		}
		vs := hdr.vals[i].(Slice)
		if len(vs.a) == 0 {
			return noCookie()
		}
		line := vs.a[0].(Str)
		prefix := append(append([]*Term{}, name.b...), e.tt.BV(8, '='))
		if len(line.b) < len(prefix) || !e.branch(e.matchAt(line.b, prefix, 0)) {
			return noCookie()
		}
		val := line.b[len(prefix):]
		// value ends at ';' if any
		for j, c := range val {
			if e.branch(e.tt.Eq(c, e.tt.BV(8, ';'))) {
				val = val[:j]
				break
			}
		}
		ct := e.namedType("net/http", "Cookie")
		ck := e.zero(ct).(Struct)
		setField(ck, ct, "Name", name)
		setField(ck, ct, "Value", Str{val})
		var cell Value = ck
		return Tuple{&cell, Iface{}}
	})
	// BasicAuth: arbitrary decoded user/password (base64 decoding is not the subject)
	reg("(*net/http.Request).BasicAuth", func(fr *frame, args []Value) Value {
		e := fr.e
		mk := func(name string) Str {
			n := e.forkRange(e.freshVar(name+".len", 64), 0, 3)
			b := make([]*Term, n)
			for i := range b {
				b[i] = e.freshVar(fmt.Sprintf("%s.%d", name, i), 8)
			}
			return Str{b}
		}
		return Tuple{mk("basicauth.user"), mk("basicauth.pass"), e.freshVar("basicauth.ok", 0)}
	})
	reg("net/http.SetCookie", func(fr *frame, args []Value) Value { return nil })
	reg("github.com/safing/portbase/rng.Bytes", func(fr *frame, args []Value) Value {
		e := fr.e
		n := int(e.concretize(args[0].(*Term), "rng.Bytes n"))
		a := make([]Value, n)
		for i := range a {
			a[i] = e.tt.BV(8, 0)
		}
		return Tuple{Slice{a}, Iface{}}
	})
}
