package main

// net/http.Header as a plain map with caller-supplied canonical keys.

func init() {
	reg("(net/http.Header).Get", func(fr *frame, args []Value) Value {
		e := fr.e
		m, _ := args[0].(*MapV)
		i := e.mapFind(m, args[1])
		if i < 0 {
			return Str{}
		}
		vs := m.vals[i].(Slice)
		if len(vs.a) == 0 {
			return Str{}
		}
		return vs.a[0]
	})
	reg("(net/http.Header).Set", func(fr *frame, args []Value) Value {
		e := fr.e
		m, _ := args[0].(*MapV)
		if m == nil {
			panic(targetPanic{e.runtimeError("assignment to entry in nil map"), "http.Header.Set"})
		}
		e.mapInsert(m, args[1], Slice{[]Value{args[2]}})
		return nil
	})
	reg("(net/http.Header).Add", func(fr *frame, args []Value) Value {
		e := fr.e
		m, _ := args[0].(*MapV)
		if m == nil {
			panic(targetPanic{e.runtimeError("assignment to entry in nil map"), "http.Header.Add"})
		}
		if i := e.mapFind(m, args[1]); i >= 0 {
			vs := m.vals[i].(Slice)
			m.vals[i] = Slice{append(append([]Value{}, vs.a...), args[2])}
			return nil
		}
		e.mapInsert(m, args[1], Slice{[]Value{args[2]}})
		return nil
	})
	reg("(net/http.Header).Del", func(fr *frame, args []Value) Value {
		m, _ := args[0].(*MapV)
		if m != nil {
			fr.e.mapDelete(m, args[1])
		}
		return nil
	})
}
