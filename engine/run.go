package main

// Running one harness entry: worklist of decision prefixes, a pool of
// executors (one solver each), aggregation of path results.

import (
	"fmt"
	"os"
	"sort"
	"strings"
	"sync"
	"time"

	"golang.org/x/tools/go/ssa"
)

type HarnessResult struct {
	Harness      string         `json:"harness"`
	Package      string         `json:"package"`
	Paths        int            `json:"paths"`
	Outcomes     map[string]int `json:"outcomes"`
	Steps        int64          `json:"ssa_instructions"`
	Asserts      int            `json:"assertion_queries"`
	Trivial      int            `json:"assertions_constant_true"`
	NonTrivial   int            `json:"paths_reaching_assertion"`
	Violations   []Violation    `json:"violations,omitempty"`
	Reaches      []string       `json:"reached"`
	Incon        []string       `json:"inconclusive,omitempty"`
	Truncated    []string       `json:"truncated,omitempty"`
	Unsupported  []string       `json:"unsupported,omitempty"`
	Solver       SolverStats    `json:"solver"`
	WallS        float64        `json:"wall_s"`
	Samples      []PathSample   `json:"samples,omitempty"`
	Funcs        map[string]int `json:"-"`
	Stubs        map[string]int `json:"-"`
	MaxDepth     int            `json:"max_decisions"`
	EngineError  string         `json:"engine_error,omitempty"`
	Vars         int            `json:"symbolic_inputs_max"`
	Switches     int            `json:"goroutine_switches"`
	Group        int            `json:"-"`
	SelfSamples  []SelfSample   `json:"-"`
	CrossChecked int            `json:"cross_checked_obligations"`
	CrossSolver  string         `json:"cross_solver,omitempty"`
	CrossSeconds float64        `json:"cross_solver_s"`
}

type PathSample struct {
	Outcome   string   `json:"outcome"`
	Decisions string   `json:"decisions"`
	PC        []string `json:"path_condition"`
	Inputs    []string `json:"inputs"`
}

func decString(ds []Decision) string {
	var sb strings.Builder
	for i, d := range ds {
		if i > 0 {
			sb.WriteByte(' ')
		}
		fmt.Fprintf(&sb, "%c%d", d.Kind, d.V)
		if d.Forced {
			sb.WriteByte('!')
		}
	}
	return sb.String()
}

// runPath executes the harness once along the given decision prefix.
func (e *Exec) runPath(pkg *ssa.Package, fn *ssa.Function, prefix []Decision) (res *PathResult) {
	e.pc = e.pc[:0]
	e.prefix = prefix
	e.taken = e.taken[:0]
	e.pending = nil
	e.globals = map[*ssa.Global]*Value{}
	e.steps = 0
	e.varCount = map[string]int{}
	e.inputs = nil
	e.regions = nil
	e.reaches = map[string]bool{}
	e.unwind = e.cfg.Unwind
	e.mapOrderAny = false
	e.observed = nil
	e.observedT = nil
	e.codecNoFaults = false
	e.model = nil
	e.allowPanic = false
	e.allowDeadlock = false
	e.spinLimit = 0
	e.spinParked = 0
	e.codecLog = nil
	e.fsTrace = nil
	e.fsSeq = 0
	e.fsModelOn = false
	e.fsStatFromWalk = false
	e.fsFaultBudget = -1
	e.stubSeq = 0
	e.callerLine = nil
	e.fsStatDirs = false
	e.fsFaultOps = nil
	e.walkList = nil
	e.fsFiles = nil
	e.fsFileOrder = nil
	e.zipList = nil
	e.gzipLog = nil
	e.havocSeq = 0
	e.objs = map[string]Value{}
	e.clock = nil
	e.errSeq = 0
	e.sched = e.newSched()
	res = &PathResult{}
	e.res = res
	e.paths++
	defer func() {
		r := recover()
		switch r := r.(type) {
		case nil:
			res.Outcome = "returned"
			if e.spinParked > 0 && len(res.Violations) == 0 {
				e.incon("a goroutine was parked after spinning (rt.SpinLimit) and no obligation failed on that path")
			}
		case pathEnd:
			res.Outcome = r.kind
			res.Reason = r.reason
			if r.kind == "deadlock" && !e.allowDeadlock {
				// every goroutine blocked for good: a lost wake-up / missing
				// completion is a violation of the implicit progress obligation
				e.checkFail(e.tt.True, "deadlock", "deadlock", r.reason, "")
			}
		case crashEnd:
			res.Outcome = "panicked"
			res.Reason = fmt.Sprintf("goroutine g%d: %s at %s", r.g, e.panicString(r.tp.v), r.tp.site)
			e.panicViolation(r.tp)
		case targetPanic:
			res.Outcome = "panicked"
			res.Reason = e.panicString(r.v) + " at " + r.site
			e.panicViolation(r)
		case engineError:
			res.Outcome = "engine-error"
			res.Reason = r.msg
		default:
			res.Outcome = "engine-error"
			res.Reason = fmt.Sprintf("%v", r)
		}
		func() {
			defer func() {
				if r := recover(); r != nil {
					res.Outcome = "engine-error"
					res.Reason = fmt.Sprintf("killAll: %v", r)
				}
			}()
			e.killAll()
		}()
		if res.Outcome != "engine-error" && len(e.taken) < len(e.prefix) {
			res.Outcome = "engine-error"
			res.Reason = fmt.Sprintf("replay divergence: prefix %d decisions, consumed %d (%s)", len(e.prefix), len(e.taken), res.Reason)
		}
		res.Steps = e.steps
		res.Depth = len(e.taken)
		for k := range e.reaches {
			res.Reaches = append(res.Reaches, k)
		}
		res.Inputs = e.inputs
	}()
	defer func() {
		// translation validation sample: a model of the finished path and the
		// observation values under it
		if r := recover(); r != nil {
			panic(r)
		}
		if e.selfWant > 0 && len(e.observedT) > 0 && !e.replaying() {
			// reservoir sampling over the worker's returned paths (deterministic)
			e.selfSeen++
			slot := len(e.selfSamples)
			if slot >= e.selfWant {
				h := uint64(e.selfSeen) * 0x9e3779b97f4a7c15
				h ^= h >> 29
				slot = int(h % uint64(e.selfSeen))
				if slot >= e.selfWant {
					return
				}
			}
			if sr, m := e.solver.Check(e.pc, nil, true); sr == Sat {
				ss := SelfSample{Model: map[string]uint64{}}
				for _, in := range e.inputs {
					ss.Model[in] = m[in]
				}
				memo := map[int32]uint64{}
				for _, o := range e.observedT {
					if o.bytes {
						buf := make([]byte, len(o.terms))
						for i, t := range o.terms {
							buf[i] = byte(t.Eval(m, memo))
						}
						ss.Observations = append(ss.Observations, fmt.Sprintf("%s=%x", o.name, buf))
					} else {
						t := o.terms[0]
						v := t.Eval(m, memo)
						ss.Observations = append(ss.Observations, fmt.Sprintf("%s=%d", o.name, v))
					}
				}
				if slot < len(e.selfSamples) {
					e.selfSamples[slot] = ss
				} else {
					e.selfSamples = append(e.selfSamples, ss)
				}
			}
		}
	}()
	if init := pkg.Func("init"); init != nil {
		if e.ld.initAllowed(pkg) {
			e.callSSA(nil, 0, init, nil, nil)
		} else {
			// package init skipped (harness sets the globals it needs): still
			// initialise the imported packages whose init is executed
			for _, imp := range pkg.Pkg.Imports() {
				if ip := e.ld.prog.Package(imp); ip != nil {
					if f := ip.Func("init"); f != nil {
						e.callSSA(nil, 0, f, nil, nil)
					}
				}
			}
		}
	}
	e.callSSA(nil, 0, fn, nil, nil)
	return
}

func (e *Exec) panicString(v Value) string {
	iv, ok := v.(Iface)
	if !ok {
		return show(v)
	}
	if iv.t == nil {
		return "nil"
	}
	if s, ok := iv.v.(Str); ok {
		if cs, ok := concStr(s); ok {
			return cs
		}
	}
	return iv.t.String() + ":" + show(iv.v)
}

// panicViolation records an escaped panic as a violation of the implicit
// no-panic obligation (unless the harness allows panics).
func (e *Exec) panicViolation(tp targetPanic) {
	if e.allowPanic {
		return
	}
	msg := e.panicString(tp.v)
	e.checkFail(e.tt.True, "panic", "panic", msg, tp.site)
}

type workItem struct{ prefix []Decision }

// runHarness explores all paths of one harness entry function.
func runHarness(ld *Loaded, cfg Config, pkg *ssa.Package, fn *ssa.Function, workers int, deadline time.Time, maxPaths int) *HarnessResult {
	t0 := time.Now()
	hr := &HarnessResult{Harness: fn.Name(), Package: pkg.Pkg.Path(), Outcomes: map[string]int{},
		Funcs: map[string]int{}, Stubs: map[string]int{}}
	var mu sync.Mutex
	cond := sync.NewCond(&mu)
	stack := []workItem{{nil}}
	active := 0
	stop := false
	reaches := map[string]bool{}
	seenViol := map[string]int{}
	uniq := func(list *[]string, s string) {
		for _, x := range *list {
			if x == s {
				return
			}
		}
		if len(*list) < 12 {
			*list = append(*list, s)
		}
	}
	var wg sync.WaitGroup
	for w := 0; w < workers; w++ {
		wg.Add(1)
		go func(w int) {
			defer wg.Done()
			e, err := NewExec(ld, cfg)
			if err != nil {
				mu.Lock()
				hr.EngineError = err.Error()
				stop = true
				cond.Broadcast()
				mu.Unlock()
				return
			}
			e.harness = fn.Name()
			e.selfWant = cfg.SelfSamples
			defer func() {
				mu.Lock()
				s := e.solver.Stats
				hr.Solver.Queries += s.Queries
				hr.Solver.Sat += s.Sat
				hr.Solver.Unsat += s.Unsat
				hr.Solver.Unknown += s.Unknown
				hr.Solver.Seconds += s.Seconds
				hr.Solver.Errors += s.Errors
				hr.Solver.Restarts += s.Restarts
				hr.SelfSamples = append(hr.SelfSamples, e.selfSamples...)
				hr.CrossChecked += e.crossChecked
				if e.cross != nil {
					hr.CrossSolver = e.cross.kind
					hr.CrossSeconds += e.cross.Stats.Seconds
				}
				for f, n := range e.funcsSeen {
					hr.Funcs[f.String()+" @"+e.pos(f.Pos())] += n
				}
				for f, n := range e.stubsHit {
					hr.Stubs[f] += n
				}
				mu.Unlock()
				e.Close()
			}()
			for {
				mu.Lock()
				for len(stack) == 0 && active > 0 && !stop {
					cond.Wait()
				}
				if stop || (len(stack) == 0 && active == 0) {
					cond.Broadcast()
					mu.Unlock()
					return
				}
				it := stack[len(stack)-1]
				stack = stack[:len(stack)-1]
				active++
				mu.Unlock()

				res := e.runPath(pkg, fn, it.prefix)
				if res.Outcome == "engine-error" && strings.Contains(res.Reason, "engine crash in") {
					// A path is a deterministic function of its decision prefix: a
					// crash inside the engine that does not repeat on a second run
					// of the same prefix was transient (it is counted and reported);
					// one that repeats is an engine error.
					first := res.Reason
					res = e.runPath(pkg, fn, it.prefix)
					mu.Lock()
					hr.Stubs["engine: path re-run after a crash that did not repeat ("+first+")"]++
					mu.Unlock()
				}

				mu.Lock()
				active--
				hr.Paths++
				hr.Outcomes[res.Outcome]++
				hr.Steps += res.Steps
				hr.Asserts += res.Asserts
				hr.Trivial += res.Trivial
				if res.Asserts > res.Trivial {
					hr.NonTrivial++
				}
				if res.Depth > hr.MaxDepth {
					hr.MaxDepth = res.Depth
				}
				if len(res.Inputs) > hr.Vars {
					hr.Vars = len(res.Inputs)
				}
				hr.Switches += e.sched.switches
				for _, r := range res.Reaches {
					reaches[r] = true
				}
				for _, v := range res.Violations {
					key := v.ID + "|" + v.Known + "|" + v.Kind + "|" + v.Site
					// up to three counterexamples (from different paths) per obligation:
					// alternates are replayed when the first does not reproduce natively
					// with different inputs
					mk := key + "#"
					names := make([]string, 0, len(v.Model))
					for n := range v.Model {
						if n != "clock.T0" {
							names = append(names, n)
						}
					}
					sort.Strings(names)
					for _, n := range names {
						mk += fmt.Sprintf("%s=%d,", n, v.Model[n])
					}
					if seenViol[key] < 6 && seenViol[mk] == 0 {
						seenViol[key]++
						seenViol[mk]++
						hr.Violations = append(hr.Violations, v)
					}
				}
				for _, s := range res.Incon {
					uniq(&hr.Incon, s)
				}
				if pl := os.Getenv("SYMGO_PATHLOG"); pl != "" {
					if f, err := os.OpenFile(pl, os.O_APPEND|os.O_CREATE|os.O_WRONLY, 0o644); err == nil {
						var pcs []string
						for _, c := range e.pc {
							pcs = append(pcs, c.String())
						}
						fmt.Fprintf(f, "%s\t%s\t%s\n", res.Outcome, decString(e.taken), strings.Join(pcs, " & "))
						f.Close()
					}
				}
				switch res.Outcome {
				case "truncated":
					uniq(&hr.Truncated, res.Reason)
				case "unsupported":
					uniq(&hr.Unsupported, res.Reason)
				case "engine-error":
					if hr.EngineError == "" {
						hr.EngineError = res.Reason + " [prefix " + decString(it.prefix) + "]"
					}
				case "fatal", "exit":
					uniq(&hr.Truncated, res.Outcome+": "+res.Reason)
				case "infeasible":
					if os.Getenv("SYMGO_DEBUG") != "" {
						fmt.Fprintf(os.Stderr, "infeasible: %s [%s]\n", res.Reason, decString(e.taken))
					}
				}
				if len(hr.Samples) < 6 && (res.Outcome == "returned" || res.Outcome == "panicked") && (hr.Paths%7 == 1 || len(hr.Samples) < 2) {
					ps := PathSample{Outcome: res.Outcome, Decisions: decString(e.taken), Inputs: res.Inputs}
					for i, c := range e.pc {
						if i >= 8 {
							ps.PC = append(ps.PC, "…")
							break
						}
						ps.PC = append(ps.PC, c.String())
					}
					if len(ps.Inputs) > 12 {
						ps.Inputs = append(ps.Inputs[:12:12], "…")
					}
					hr.Samples = append(hr.Samples, ps)
				}
				for _, p := range e.pending {
					stack = append(stack, workItem{p})
				}
				if !stop && time.Now().After(deadline) && (len(stack) > 0) {
					uniq(&hr.Truncated, fmt.Sprintf("time budget exhausted with %d prefixes pending", len(stack)))
					stop = true
				}
				if !stop && maxPaths > 0 && hr.Paths >= maxPaths && len(stack) > 0 {
					uniq(&hr.Truncated, fmt.Sprintf("path budget %d exhausted with %d prefixes pending", maxPaths, len(stack)))
					stop = true
				}
				cond.Broadcast()
				mu.Unlock()
			}
		}(w)
	}
	wg.Wait()
	for r := range reaches {
		hr.Reaches = append(hr.Reaches, r)
	}
	sort.Strings(hr.Reaches)
	hr.WallS = time.Since(t0).Seconds()
	return hr
}
