package main

// Path exploration by re-execution: a path is identified by the sequence of
// decisions taken at symbolic fork points. Only the frontier decision of a
// path asks the solver; replayed prefixes are followed blindly.

import (
	"fmt"
	"go/types"
	"sort"

	"golang.org/x/tools/go/ssa"
)

type Decision struct {
	V      int64
	Forced bool // only one feasible alternative: nothing added to the path condition
	Kind   byte // 'b' branch, 'c' concretise, 's' scheduler/choice
}

type Violation struct {
	Harness string            `json:"harness"`
	ID      string            `json:"assert"`
	Kind    string            `json:"kind"` // assert | panic | deadlock | unwind
	Msg     string            `json:"msg"`
	Known   string            `json:"known,omitempty"` // known-finding region it falls into
	Model   map[string]uint64 `json:"model,omitempty"`
	Site    string            `json:"site,omitempty"`
}

type PathResult struct {
	Outcome    string
	Reason     string
	Violations []Violation
	Reaches    []string
	Steps      int64
	Depth      int
	Asserts    int // assertion obligations discharged on this path
	Trivial    int // assertions that were constant-true
	Incon      []string
	PC         string
	Inputs     []string
}

type obsEntry struct {
	name  string
	terms []*Term
	bytes bool
}

// SelfSample is one concrete input vector of an explored path with the values
// the engine computed for the harness' observations.
type SelfSample struct {
	Model        map[string]uint64 `json:"model"`
	Observations []string          `json:"observations"`
}

type region struct {
	name string
	cond *Term
}

type Config struct {
	Unwind     int
	MaxSteps   int64
	FanOut     int
	TimeoutMs  int
	SolverKind string
	// known-finding id -> set of assertion ids it may excuse ("*" = any)
	Known       map[string]map[string]bool
	Trace       bool
	SelfSamples int    // per worker: returned paths sampled for translation validation
	Cross       string // secondary solver for cross-checking assertion queries ("" = off)
	Thorough    bool
	Disable     map[string]bool
}

type Exec struct {
	ld           *Loaded
	tt           *TermTable
	solver       *Solver
	cross        *Solver
	crossChecked int
	cfg          Config

	harness string

	// per path
	pc             []*Term
	prefix         []Decision
	taken          []Decision
	pending        [][]Decision
	globals        map[*ssa.Global]*Value
	steps          int64
	varCount       map[string]int
	inputs         []string
	regions        []region
	res            *PathResult
	reaches        map[string]bool
	trace          []Value
	sched          *Sched
	unwind         int
	allowPanic     bool
	allowDeadlock  bool
	spinLimit      int // rt.SpinLimit: a goroutine other than main looping this often through one block without handing over is parked
	spinParked     int
	errSeq         int
	objs           map[string]Value // per-path named singletons (opaque objects)
	clock          *Term
	model          map[string]uint64 // satisfies the current pc when non-nil
	codecLog       []codecEntry
	fsTrace        []fsEvent
	fsSeq          int
	fsModelOn      bool
	fsStatFromWalk bool
	fsFaultBudget  int
	stubSeq        int
	callerFile     Str
	callerLine     *Term
	curFn          *ssa.Function
	fsStatDirs     bool
	fsFaultOps     map[string]bool
	walkList       []walkEntry
	fsFiles        map[string]Slice
	fsFileOrder    []string
	zipList        []zipEntry
	gzipLog        []gzipEntry
	codecHits      int
	havocSeq       int
	mapOrderAny    bool
	observed       []string
	observedT      []obsEntry
	selfSamples    []SelfSample // concrete samples of returned paths (translation validation)
	selfSeen       int
	codecNoFaults  bool // rt.CodecFaults(false): marshal stubs never fail
	selfWant       int

	// statistics over the whole run
	funcsSeen map[*ssa.Function]int
	stubsHit  map[string]int
	paths     int
}

func NewExec(ld *Loaded, cfg Config) (*Exec, error) {
	e := &Exec{ld: ld, cfg: cfg, tt: NewTermTable(),
		funcsSeen: map[*ssa.Function]int{}, stubsHit: map[string]int{}}
	s, err := NewSolver(cfg.SolverKind, e.tt, cfg.TimeoutMs)
	if err != nil {
		return nil, err
	}
	e.solver = s
	if cfg.Cross != "" {
		// the secondary solver gets its own term flags: it is only ever used
		// through self-contained scripts
		c, err := NewSolver(cfg.Cross, e.tt, cfg.TimeoutMs)
		if err == nil {
			e.cross = c
		}
	}
	return e, nil
}

func (e *Exec) Close() {
	e.solver.Close()
	if e.cross != nil {
		e.cross.Close()
	}
}

// replaying reports whether execution is still inside the forced prefix.
func (e *Exec) replaying() bool { return len(e.taken) < len(e.prefix) }

func (e *Exec) incon(why string) {
	e.res.Incon = append(e.res.Incon, why)
}

func (e *Exec) addPC(c *Term) {
	if c.IsConst() {
		if c.k == 0 {
			panic(pathEnd{"infeasible", "false added to pc"})
		}
		return
	}
	if e.model != nil && c.Eval(e.model, map[int32]uint64{}) != 1 {
		e.model = nil
	}
	e.pc = append(e.pc, c)
}

func (e *Exec) sat(extra ...*Term) SatResult {
	r, _ := e.solver.Check(e.pc, extra, false)
	return r
}

// branch decides a symbolic condition, forking when both sides are feasible.
func (e *Exec) branch(c *Term) bool {
	if c.IsConst() {
		return c.k == 1
	}
	if i := len(e.taken); i < len(e.prefix) {
		d := e.prefix[i]
		if d.Kind != 'b' {
			panic(engineError{fmt.Sprintf("replay divergence: expected %c got branch at decision %d", d.Kind, i)})
		}
		e.taken = append(e.taken, d)
		if !d.Forced {
			if d.V == 1 {
				e.addPC(c)
			} else {
				e.addPC(e.tt.Not(c))
			}
		}
		return d.V == 1
	}
	var rt, rf SatResult
	if e.model != nil {
		if c.Eval(e.model, map[int32]uint64{}) == 1 {
			rt = Sat
			rf = e.sat(e.tt.Not(c))
		} else {
			var m map[string]uint64
			rt, m = e.solver.Check(e.pc, []*Term{c}, true)
			if rt == Sat {
				rf = Sat
				e.model = m
			} else if rt == Unsat {
				rf = Sat
			} else {
				rf = Sat
			}
		}
	} else {
		var m map[string]uint64
		rt, m = e.solver.Check(e.pc, []*Term{c}, true)
		if rt == Sat {
			e.model = m
		}
		if rt == Unsat {
			rf = Sat // pc is satisfiable by construction
		} else {
			rf = e.sat(e.tt.Not(c))
		}
	}
	switch {
	case rt != Unsat && rf != Unsat:
		alt := append(append([]Decision{}, e.taken...), Decision{0, false, 'b'})
		e.pending = append(e.pending, alt)
		e.taken = append(e.taken, Decision{1, false, 'b'})
		e.addPC(c)
		return true
	case rt != Unsat:
		e.taken = append(e.taken, Decision{1, true, 'b'})
		return true
	case rf != Unsat:
		e.taken = append(e.taken, Decision{0, true, 'b'})
		return false
	}
	panic(pathEnd{"infeasible", "both branch sides unsat"})
}

// concretize returns a concrete value for t, forking once per feasible value.
func (e *Exec) concretize(t *Term, what string) uint64 {
	if t.IsConst() {
		return t.k
	}
	if i := len(e.taken); i < len(e.prefix) {
		d := e.prefix[i]
		if d.Kind != 'c' {
			panic(engineError{fmt.Sprintf("replay divergence: expected %c got concretize(%s) at decision %d", d.Kind, what, i)})
		}
		e.taken = append(e.taken, d)
		if !d.Forced {
			e.addPC(e.tt.Eq(t, e.tt.BV(t.w, uint64(d.V))))
		}
		return uint64(d.V) & maskB(t.w)
	}
	var vals []uint64
	var excl []*Term
	for {
		r, m := e.solver.Check(e.pc, excl, true)
		if r == Unsat {
			break
		}
		if r == Unknown {
			e.incon("concretize unknown: " + what)
			break
		}
		v := t.Eval(m, map[int32]uint64{})
		vals = append(vals, v)
		excl = append(excl, e.tt.Not(e.tt.Eq(t, e.tt.BV(t.w, v))))
		if len(vals) > e.cfg.FanOut {
			panic(pathEnd{"truncated", fmt.Sprintf("fan-out > %d concretising %s", e.cfg.FanOut, what)})
		}
	}
	if len(vals) == 0 {
		panic(pathEnd{"infeasible", "no value for " + what})
	}
	sort.Slice(vals, func(i, j int) bool { return vals[i] < vals[j] })
	forced := len(vals) == 1
	for _, v := range vals[1:] {
		alt := append(append([]Decision{}, e.taken...), Decision{int64(v), false, 'c'})
		e.pending = append(e.pending, alt)
	}
	e.taken = append(e.taken, Decision{int64(vals[0]), forced, 'c'})
	if !forced {
		e.addPC(e.tt.Eq(t, e.tt.BV(t.w, vals[0])))
	}
	return vals[0]
}

// forkRange concretises a fresh variable v over [lo,hi] without solver calls:
// v occurs nowhere else, so every value in the range is feasible.
func (e *Exec) forkRange(v *Term, lo, hi int64) int64 {
	if hi < lo {
		panic(pathEnd{"infeasible", "empty range"})
	}
	if i := len(e.taken); i < len(e.prefix) {
		d := e.prefix[i]
		if d.Kind != 'c' {
			panic(engineError{fmt.Sprintf("replay divergence: expected %c got forkRange at decision %d", d.Kind, i)})
		}
		e.taken = append(e.taken, d)
		e.addPC(e.tt.Eq(v, e.tt.BV(v.w, uint64(d.V))))
		return d.V
	}
	for x := hi; x > lo; x-- {
		alt := append(append([]Decision{}, e.taken...), Decision{x, false, 'c'})
		e.pending = append(e.pending, alt)
	}
	e.taken = append(e.taken, Decision{lo, false, 'c'})
	e.addPC(e.tt.Eq(v, e.tt.BV(v.w, uint64(lo))))
	return lo
}

// chooseN is a non-solver choice among n alternatives (scheduler).
func (e *Exec) chooseN(n int, what string) int {
	if n <= 1 {
		return 0
	}
	if i := len(e.taken); i < len(e.prefix) {
		d := e.prefix[i]
		if d.Kind != 's' {
			panic(engineError{fmt.Sprintf("replay divergence: expected %c got choice(%s) at decision %d", d.Kind, what, i)})
		}
		e.taken = append(e.taken, d)
		return int(d.V)
	}
	for k := 1; k < n; k++ {
		alt := append(append([]Decision{}, e.taken...), Decision{int64(k), false, 's'})
		e.pending = append(e.pending, alt)
	}
	e.taken = append(e.taken, Decision{0, false, 's'})
	return 0
}

func (e *Exec) freshVar(name string, w uint8) *Term {
	k := e.varCount[name]
	e.varCount[name] = k + 1
	full := name
	if k > 0 {
		full = fmt.Sprintf("%s#%d", name, k)
	}
	e.inputs = append(e.inputs, full)
	return e.tt.Var(full, w)
}

// applicableRegions returns known-finding regions that may excuse assert id.
func (e *Exec) applicableRegions(id string) []region {
	var out []region
	for _, r := range e.regions {
		set, ok := e.cfg.Known[r.name]
		if !ok {
			continue
		}
		if set["*"] || set[id] {
			out = append(out, r)
		}
	}
	return out
}

// checkFail records violations for a failure condition `fail` (a Bool term
// that is true exactly when the obligation is violated) under the current pc.
func (e *Exec) checkFail(fail *Term, id, kind, msg, site string) bool {
	if e.replaying() {
		// already discharged by the path this prefix was forked from
		return false
	}
	e.res.Asserts++
	if fail.IsConst() && fail.k == 0 {
		e.res.Trivial++
		return false
	}
	r, m := e.solver.Check(e.pc, []*Term{fail}, true)
	if e.cross != nil && r != Unknown {
		// cross-solver diff: the same obligation on an independent solver
		e.crossChecked++
		r2 := e.cross.checkStandalone(e.pc, []*Term{fail})
		if r2 != Unknown && r2 != r {
			panic(engineError{fmt.Sprintf("cross-solver disagreement on %s: %s says %s, %s says %s", id, e.solver.kind, r, e.cross.kind, r2)})
		}
	}
	if r == Unsat {
		return false
	}
	if r == Unknown {
		e.incon("assertion query unknown: " + id + " " + e.solver.lastErr)
		return false
	}
	regs := e.applicableRegions(id)
	if len(regs) == 0 {
		e.res.Violations = append(e.res.Violations, Violation{Harness: e.harness, ID: id, Kind: kind, Msg: msg, Model: m, Site: site})
		return true
	}
	extra := []*Term{fail}
	for _, rg := range regs {
		extra = append(extra, e.tt.Not(rg.cond))
	}
	r2, m2 := e.solver.Check(e.pc, extra, true)
	if r2 == Sat {
		e.res.Violations = append(e.res.Violations, Violation{Harness: e.harness, ID: id, Kind: kind, Msg: msg, Model: m2, Site: site})
	} else if r2 == Unknown {
		e.incon("assertion/region query unknown: " + id)
	}
	for _, rg := range regs {
		r3, m3 := e.solver.Check(e.pc, []*Term{fail, rg.cond}, true)
		if r3 == Sat {
			e.res.Violations = append(e.res.Violations, Violation{Harness: e.harness, ID: id, Kind: kind, Msg: msg, Model: m3, Known: rg.name, Site: site})
		}
	}
	return true
}

// assertCond is rt.Assert: check, then continue under the assumption.
func (e *Exec) assertCond(cond *Term, id, msg string) {
	failed := e.checkFail(e.tt.Not(cond), id, "assert", msg, "")
	if failed {
		if e.sat(cond) == Unsat {
			panic(pathEnd{"stop", "assertion " + id + " fails on the whole path"})
		}
		e.addPC(cond)
	}
}

func (e *Exec) assume(cond *Term) {
	if cond.IsConst() {
		if cond.k == 0 {
			panic(pathEnd{"infeasible", "assume(false)"})
		}
		return
	}
	if !e.replaying() {
		if e.sat(cond) == Unsat {
			panic(pathEnd{"infeasible", "assume unsat"})
		}
	}
	e.addPC(cond)
}

func typeString(t types.Type) string {
	return types.TypeString(t, nil)
}
