package main

import (
	"encoding/json"
	"flag"
	"fmt"
	"os"
	"path/filepath"
	"regexp"
	"runtime"
	"sort"
	"strings"
	"time"

	"golang.org/x/tools/go/ssa"
)

func main() {
	if len(os.Args) < 2 {
		fmt.Fprintln(os.Stderr, "usage: symgo run|check ...")
		os.Exit(2)
	}
	switch os.Args[1] {
	case "run":
		cmdRun(os.Args[2:])
	case "check":
		cmdCheck(os.Args[2:])
	default:
		fmt.Fprintln(os.Stderr, "unknown subcommand", os.Args[1])
		os.Exit(2)
	}
}

func defaultConfig() Config {
	return Config{Unwind: 2000, MaxSteps: 5_000_000, FanOut: 64, TimeoutMs: 10000, SolverKind: "z3", Known: map[string]map[string]bool{}}
}

// harnessEntries lists package-level functions whose name matches re.
func harnessEntries(pkg *ssa.Package, re *regexp.Regexp) []*ssa.Function {
	var out []*ssa.Function
	for name, m := range pkg.Members {
		if f, ok := m.(*ssa.Function); ok && re.MatchString(name) && f.Signature.Params().Len() == 0 && f.Signature.Recv() == nil {
			out = append(out, f)
		}
	}
	sort.Slice(out, func(i, j int) bool { return out[i].Name() < out[j].Name() })
	return out
}

func cmdRun(args []string) {
	fs := flag.NewFlagSet("run", flag.ExitOnError)
	repo := fs.String("repo", "/repo", "repository root")
	verif := fs.String("verif", "/verif", "verif root")
	pkgRel := fs.String("pkg", "", "package directory relative to repo")
	files := fs.String("files", "", "comma-separated harness files")
	fnRe := fs.String("fn", "^Verif", "regexp of harness entry functions")
	workers := fs.Int("j", runtime.NumCPU(), "workers")
	trace := fs.Bool("trace", false, "trace instructions")
	solver := fs.String("solver", "z3", "z3|z3-new|cvc5")
	timeout := fs.Duration("time", 10*time.Minute, "time budget per harness")
	inits := fs.String("init", "", "comma-separated extra packages whose init is executed")
	unwind := fs.Int("unwind", 2000, "unwind bound")
	maxPaths := fs.Int("maxpaths", 0, "path budget")
	fs.Parse(args)
	var hf []string
	for _, f := range strings.Split(*files, ",") {
		if f != "" {
			hf = append(hf, f)
		}
	}
	ov, err := buildOverlay(*repo, *verif, *pkgRel, hf)
	if err != nil {
		fmt.Fprintln(os.Stderr, err)
		os.Exit(2)
	}
	t0 := time.Now()
	var extra []string
	if *inits != "" {
		extra = strings.Split(*inits, ",")
	}
	pkgPath := "github.com/safing/portbase/" + *pkgRel
	extra = append(extra, pkgPath)
	ld, err := loadProgram(*repo, ov, []string{"./" + *pkgRel}, extra)
	if err != nil {
		fmt.Fprintln(os.Stderr, err)
		os.Exit(2)
	}
	fmt.Fprintf(os.Stderr, "loaded in %.1fs\n", time.Since(t0).Seconds())
	pkg := ld.pkgs[pkgPath]
	if pkg == nil {
		fmt.Fprintln(os.Stderr, "package not found:", pkgPath)
		os.Exit(2)
	}
	pkg.Build()
	cfg := defaultConfig()
	cfg.Trace = *trace
	cfg.SolverKind = *solver
	cfg.Unwind = *unwind
	re := regexp.MustCompile(*fnRe)
	for _, fn := range harnessEntries(pkg, re) {
		hr := runHarness(ld, cfg, pkg, fn, *workers, time.Now().Add(*timeout), *maxPaths)
		b, _ := json.MarshalIndent(hr, "", " ")
		fmt.Println(string(b))
	}
	_ = filepath.Join
}
