package main

// Symbolic regular-expression matching: a backtracking interpreter over the
// compiled program of regexp/syntax (leftmost-first semantics, as Go's own
// backtracker), run on strings of concrete length with symbolic ASCII bytes.
// Every byte-class test is a path branch, so within one path the matcher is
// deterministic. Non-ASCII subject bytes end the path as unsupported.

import (
	"math"
	"regexp/syntax"
	"strconv"
)

type rxMatcher struct {
	e       *Exec
	prog    *syntax.Prog
	s       []*Term
	visited map[[2]int]bool
	caps    []int
}

func (e *Exec) rxCompile(pattern string) *syntax.Prog {
	re, err := syntax.Parse(pattern, syntax.Perl)
	if err != nil {
		return nil
	}
	prog, err := syntax.Compile(re.Simplify())
	if err != nil {
		return nil
	}
	return prog
}

// classCond: does byte b (known ASCII on this path) belong to the rune class?
func (m *rxMatcher) classCond(i *syntax.Inst, b *Term) *Term {
	tt := m.e.tt
	in := func(lo, hi rune) *Term {
		if lo > 0x7f {
			return tt.False
		}
		if hi > 0x7f {
			hi = 0x7f
		}
		if lo == hi {
			return tt.Eq(b, tt.BV(8, uint64(lo)))
		}
		return tt.And(tt.Cmp(OpUle, tt.BV(8, uint64(lo)), b), tt.Cmp(OpUle, b, tt.BV(8, uint64(hi))))
	}
	switch i.Op {
	case syntax.InstRuneAny:
		return tt.True
	case syntax.InstRuneAnyNotNL:
		return tt.Not(tt.Eq(b, tt.BV(8, '\n')))
	}
	rs := i.Rune
	fold := syntax.Flags(i.Arg)&syntax.FoldCase != 0
	cond := tt.False
	if len(rs) == 1 {
		cond = in(rs[0], rs[0])
		if fold {
			r := rs[0]
			if r >= 'a' && r <= 'z' {
				cond = tt.Or(cond, in(r-32, r-32))
			} else if r >= 'A' && r <= 'Z' {
				cond = tt.Or(cond, in(r+32, r+32))
			}
		}
		return cond
	}
	for k := 0; k+1 < len(rs); k += 2 {
		cond = tt.Or(cond, in(rs[k], rs[k+1]))
	}
	return cond
}

func (m *rxMatcher) emptyOK(op syntax.EmptyOp, pos int) bool {
	if op&syntax.EmptyBeginText != 0 && pos != 0 {
		return false
	}
	if op&syntax.EmptyEndText != 0 && pos != len(m.s) {
		return false
	}
	if op&(syntax.EmptyBeginLine|syntax.EmptyEndLine|syntax.EmptyWordBoundary|syntax.EmptyNoWordBoundary) != 0 {
		unsupported("regexp: line/word boundary assertions on symbolic input")
	}
	return true
}

func (m *rxMatcher) run(pc, pos int) bool {
	for {
		key := [2]int{pc, pos}
		if m.visited[key] {
			return false
		}
		m.visited[key] = true
		i := &m.prog.Inst[pc]
		switch i.Op {
		case syntax.InstFail:
			return false
		case syntax.InstMatch:
			m.caps[1] = pos
			return true
		case syntax.InstNop:
			pc = int(i.Out)
		case syntax.InstCapture:
			if int(i.Arg) < len(m.caps) {
				old := m.caps[i.Arg]
				m.caps[i.Arg] = pos
				if m.run(int(i.Out), pos) {
					return true
				}
				m.caps[i.Arg] = old
				return false
			}
			pc = int(i.Out)
		case syntax.InstEmptyWidth:
			if !m.emptyOK(syntax.EmptyOp(i.Arg), pos) {
				return false
			}
			pc = int(i.Out)
		case syntax.InstAlt, syntax.InstAltMatch:
			if m.run(int(i.Out), pos) {
				return true
			}
			pc = int(i.Arg)
		case syntax.InstRune, syntax.InstRune1, syntax.InstRuneAny, syntax.InstRuneAnyNotNL:
			if pos >= len(m.s) {
				return false
			}
			b := m.s[pos]
			e := m.e
			if e.branch(e.tt.Cmp(OpUle, e.tt.BV(8, 0x80), b)) {
				unsupported("regexp on a non-ASCII subject byte")
			}
			if !e.branch(m.classCond(i, b)) {
				return false
			}
			pc = int(i.Out)
			pos++
		default:
			unsupported("regexp instruction %v", i.Op)
		}
	}
}

// rxFind: leftmost-first match; returns capture positions (pairs) or nil.
func (e *Exec) rxFind(pattern string, s []*Term) []int {
	prog := e.rxCompile(pattern)
	if prog == nil {
		unsupported("regexp %q does not compile", pattern)
	}
	for start := 0; start <= len(s); start++ {
		m := &rxMatcher{e: e, prog: prog, s: s, visited: map[[2]int]bool{}, caps: make([]int, 2*prog.NumCap)}
		for k := range m.caps {
			m.caps[k] = -1
		}
		if len(m.caps) < 2 {
			m.caps = make([]int, 2)
		}
		m.caps[0] = start
		if m.run(prog.Start, start) {
			return m.caps
		}
		// anchored at the beginning: no other start position can match
		if prog.StartCond()&syntax.EmptyBeginText != 0 {
			break
		}
	}
	return nil
}

// regexSymbolic implements the common methods on a (possibly symbolic) subject.
func (e *Exec) regexSymbolic(method, pattern string, args []Value) (Value, bool) {
	if len(args) != 1 {
		return nil, false
	}
	var s []*Term
	switch x := args[0].(type) {
	case Str:
		s = x.b
	case Slice:
		s = bytesOf(x)
	default:
		return nil, false
	}
	switch method {
	case "MatchString", "Match":
		return e.tt.Bool(e.rxFind(pattern, s) != nil), true
	case "FindString":
		c := e.rxFind(pattern, s)
		if c == nil {
			return Str{}, true
		}
		return Str{s[c[0]:c[1]]}, true
	case "FindStringIndex":
		c := e.rxFind(pattern, s)
		if c == nil {
			return Slice{}, true
		}
		return Slice{[]Value{e.tt.BV(64, uint64(c[0])), e.tt.BV(64, uint64(c[1]))}}, true
	case "FindStringSubmatch":
		c := e.rxFind(pattern, s)
		if c == nil {
			return Slice{}, true
		}
		out := make([]Value, len(c)/2)
		for k := range out {
			if c[2*k] < 0 || c[2*k+1] < 0 {
				out[k] = Str{}
			} else {
				out[k] = Str{s[c[2*k]:c[2*k+1]]}
			}
		}
		return Slice{out}, true
	}
	return nil, false
}

// ---------- math on concrete floats ----------

func init() {
	f1 := func(name string, fn func(float64) float64) {
		reg("math."+name, func(fr *frame, args []Value) Value {
			x, ok := args[0].(Float)
			if !ok {
				unsupported("math.%s on a symbolic value", name)
			}
			return Float{fn(x.v)}
		})
	}
	f1("Abs", math.Abs)
	f1("Floor", math.Floor)
	f1("Ceil", math.Ceil)
	f1("Trunc", math.Trunc)
	f2 := func(name string, fn func(float64, float64) float64) {
		reg("math."+name, func(fr *frame, args []Value) Value {
			x, ok1 := args[0].(Float)
			y, ok2 := args[1].(Float)
			if !ok1 || !ok2 {
				unsupported("math.%s on a symbolic value", name)
			}
			return Float{fn(x.v, y.v)}
		})
	}
	f2("Remainder", math.Remainder)
	f2("Mod", math.Mod)
	// strconv.ParseFloat on a concrete string: the host's result (the real
	// function is a pure function of its input; its bit-level arithmetic is
	// outside the encoder)
	reg("strconv.ParseFloat", func(fr *frame, args []Value) Value {
		e := fr.e
		str, ok := concStr(args[0].(Str))
		if !ok {
			unsupported("strconv.ParseFloat on a symbolic string")
		}
		bits := int(e.concretize(args[1].(*Term), "ParseFloat bit size"))
		v, err := strconv.ParseFloat(str, bits)
		if err != nil {
			return Tuple{Float{v}, e.newErrorString(e.strConst(err.Error()))}
		}
		return Tuple{Float{v}, Iface{}}
	})
	reg("math.Float64bits", func(fr *frame, args []Value) Value {
		x, ok := args[0].(Float)
		if !ok {
			unsupported("math.Float64bits on a symbolic value")
		}
		return fr.e.tt.BV(64, math.Float64bits(x.v))
	})
	reg("math.IsNaN", func(fr *frame, args []Value) Value {
		x, ok := args[0].(Float)
		if !ok {
			unsupported("math.IsNaN on a symbolic value")
		}
		return fr.e.tt.Bool(math.IsNaN(x.v))
	})
}
