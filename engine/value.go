package main

// Value model: concrete shape, symbolic content.

import (
	"fmt"
	"go/types"
	"strings"

	"golang.org/x/tools/go/ssa"
)

type Value interface{}

// Str is an immutable string value: concrete length, one 8-bit term per byte.
type Str struct{ b []*Term }

// Slice wraps a Go slice of values; aliasing, len and cap follow the Go slice.
type Slice struct{ a []Value }

type Array []Value
type Struct []Value
type Tuple []Value

// Iface is an interface value; the nil interface has t == nil.
type Iface struct {
	t types.Type
	v Value
}

type Closure struct {
	fn  *ssa.Function
	env []Value
}

// Float is a concrete floating-point value; symbolic floats are unsupported.
type Float struct{ v float64 }

// Complex placeholder (unsupported in arithmetic).
type Opaque struct{ what string }

type MapV struct {
	keyT types.Type
	keys []Value
	vals []Value
	live []bool
	idx  map[string]int // concrete-key index
	n    int
}

type pathEnd struct {
	kind   string // unsupported | truncated | infeasible | abort | stop
	reason string
}

type engineError struct{ msg string }

type targetPanic struct {
	v    Value // Iface
	site string
}

func unsupported(format string, args ...interface{}) {
	panic(pathEnd{"unsupported", fmt.Sprintf(format, args...)})
}

func (e *Exec) strConst(s string) Str {
	b := make([]*Term, len(s))
	for i := 0; i < len(s); i++ {
		b[i] = e.tt.BV(8, uint64(s[i]))
	}
	return Str{b}
}

// concStr returns the Go string if all bytes are constants.
func concStr(s Str) (string, bool) {
	buf := make([]byte, len(s.b))
	for i, t := range s.b {
		if !t.IsConst() {
			return "", false
		}
		buf[i] = byte(t.k)
	}
	return string(buf), true
}

func (e *Exec) mustConcStr(v Value, what string) string {
	s, ok := concStr(v.(Str))
	if !ok {
		unsupported("symbolic string where concrete needed: %s", what)
	}
	return s
}

type intKind struct {
	w      uint8
	signed bool
}

func basicInt(t types.Type) (intKind, bool) {
	b, ok := t.Underlying().(*types.Basic)
	if !ok {
		return intKind{}, false
	}
	switch b.Kind() {
	case types.Int8:
		return intKind{8, true}, true
	case types.Int16:
		return intKind{16, true}, true
	case types.Int32:
		return intKind{32, true}, true
	case types.Int64, types.Int, types.UntypedInt, types.UntypedRune:
		return intKind{64, true}, true
	case types.Uint8:
		return intKind{8, false}, true
	case types.Uint16:
		return intKind{16, false}, true
	case types.Uint32:
		return intKind{32, false}, true
	case types.Uint64, types.Uint, types.Uintptr:
		return intKind{64, false}, true
	}
	return intKind{}, false
}

func isBool(t types.Type) bool {
	b, ok := t.Underlying().(*types.Basic)
	return ok && b.Info()&types.IsBoolean != 0
}

func isString(t types.Type) bool {
	b, ok := t.Underlying().(*types.Basic)
	return ok && b.Info()&types.IsString != 0
}

func isFloat(t types.Type) bool {
	b, ok := t.Underlying().(*types.Basic)
	return ok && b.Info()&types.IsFloat != 0
}

func (e *Exec) zero(t types.Type) Value {
	switch u := t.Underlying().(type) {
	case *types.Basic:
		if u.Kind() == types.UnsafePointer {
			return (*Value)(nil)
		}
		if u.Kind() == types.UntypedNil {
			return nil
		}
		if ik, ok := basicInt(u); ok {
			return e.tt.BV(ik.w, 0)
		}
		if isBool(u) {
			return e.tt.False
		}
		if isString(u) {
			return Str{}
		}
		if isFloat(u) {
			return Float{0}
		}
		return Opaque{"zero " + u.String()}
	case *types.Pointer:
		return (*Value)(nil)
	case *types.Struct:
		s := make(Struct, u.NumFields())
		for i := range s {
			s[i] = e.zero(u.Field(i).Type())
		}
		return s
	case *types.Array:
		n := int(u.Len())
		a := make(Array, n)
		if n > 0 {
			z := e.zero(u.Elem())
			for i := range a {
				a[i] = copyVal(z)
			}
		}
		return a
	case *types.Slice:
		return Slice{}
	case *types.Map:
		return (*MapV)(nil)
	case *types.Chan:
		return (*ChanV)(nil)
	case *types.Signature:
		return (*Closure)(nil)
	case *types.Interface:
		return Iface{}
	case *types.Tuple:
		if u.Len() == 1 {
			return e.zero(u.At(0).Type())
		}
		tp := make(Tuple, u.Len())
		for i := range tp {
			tp[i] = e.zero(u.At(i).Type())
		}
		return tp
	}
	panic(engineError{fmt.Sprintf("zero: unhandled type %T %v", t, t)})
}

// copyVal copies aggregates (structs, arrays) deeply; everything else is
// immutable or a reference.
func copyVal(v Value) Value {
	switch v := v.(type) {
	case Struct:
		c := make(Struct, len(v))
		for i := range v {
			c[i] = copyVal(v[i])
		}
		return c
	case Array:
		c := make(Array, len(v))
		for i := range v {
			c[i] = copyVal(v[i])
		}
		return c
	case Tuple:
		panic(engineError{"copy of tuple"})
	}
	return v
}

// storeVal stores v into *addr in place so that interior pointers stay valid.
func storeVal(addr *Value, v Value) {
	switch rhs := v.(type) {
	case Struct:
		lhs, ok := (*addr).(Struct)
		if !ok || len(lhs) != len(rhs) {
			*addr = copyVal(v)
			return
		}
		for i := range lhs {
			storeVal(&lhs[i], rhs[i])
		}
	case Array:
		lhs, ok := (*addr).(Array)
		if !ok || len(lhs) != len(rhs) {
			*addr = copyVal(v)
			return
		}
		for i := range lhs {
			storeVal(&lhs[i], rhs[i])
		}
	default:
		*addr = v
	}
}

// eqVal builds the Bool term for x == y at static type t.
func (e *Exec) eqVal(x, y Value) *Term {
	tt := e.tt
	switch x := x.(type) {
	case *Term:
		yt, ok := y.(*Term)
		if !ok {
			return tt.False
		}
		if x.w != yt.w {
			return tt.False
		}
		return tt.Eq(x, yt)
	case Str:
		ys, ok := y.(Str)
		if !ok {
			return tt.False
		}
		return e.strEq(x, ys)
	case *Value:
		yp, ok := y.(*Value)
		return tt.Bool(ok && x == yp)
	case Float:
		yf, ok := y.(Float)
		return tt.Bool(ok && x.v == yf.v)
	case Struct:
		ys, ok := y.(Struct)
		if !ok || len(ys) != len(x) {
			return tt.False
		}
		r := tt.True
		for i := range x {
			r = tt.And(r, e.eqVal(x[i], ys[i]))
		}
		return r
	case Array:
		ys, ok := y.(Array)
		if !ok || len(ys) != len(x) {
			return tt.False
		}
		r := tt.True
		for i := range x {
			r = tt.And(r, e.eqVal(x[i], ys[i]))
		}
		return r
	case Iface:
		yi, ok := y.(Iface)
		if !ok {
			// comparison of interface with concrete nil
			return tt.Bool(x.t == nil && y == nil)
		}
		if x.t == nil || yi.t == nil {
			return tt.Bool(x.t == nil && yi.t == nil)
		}
		if !types.Identical(x.t, yi.t) {
			return tt.False
		}
		if !types.Comparable(x.t) {
			panic(targetPanic{e.runtimeError("comparing uncomparable type " + x.t.String()), "iface=="})
		}
		return e.eqVal(x.v, yi.v)
	case *MapV:
		ym, ok := y.(*MapV)
		return tt.Bool(ok && x == ym)
	case *ChanV:
		yc, ok := y.(*ChanV)
		return tt.Bool(ok && x == yc)
	case *Closure:
		yc, ok := y.(*Closure)
		return tt.Bool(ok && x == yc)
	case Slice:
		ys, ok := y.(Slice)
		// only comparison with nil is legal
		if ok && ys.a == nil {
			return tt.Bool(x.a == nil)
		}
		if ok && x.a == nil {
			return tt.Bool(ys.a == nil)
		}
		return tt.False
	case nil:
		switch y := y.(type) {
		case nil:
			return tt.True
		case Iface:
			return tt.Bool(y.t == nil)
		}
		return tt.False
	case Opaque:
		unsupported("comparison of opaque value %s", x.what)
	}
	panic(engineError{fmt.Sprintf("eqVal: unhandled %T vs %T", x, y)})
}

func (e *Exec) strEq(x, y Str) *Term {
	if len(x.b) != len(y.b) {
		return e.tt.False
	}
	r := e.tt.True
	for i := range x.b {
		r = e.tt.And(r, e.tt.Eq(x.b[i], y.b[i]))
		if r == e.tt.False {
			return r
		}
	}
	return r
}

// strLess builds the term for x < y (lexicographic, bytewise).
func (e *Exec) strLess(x, y Str) *Term {
	tt := e.tt
	n := len(x.b)
	if len(y.b) < n {
		n = len(y.b)
	}
	// result for equal common prefix
	r := tt.Bool(len(x.b) < len(y.b))
	for i := n - 1; i >= 0; i-- {
		r = tt.Ite(tt.Cmp(OpUlt, x.b[i], y.b[i]), tt.True,
			tt.Ite(tt.Cmp(OpUlt, y.b[i], x.b[i]), tt.False, r))
	}
	return r
}

// keyString returns a canonical string for fully concrete comparable values.
func keyString(v Value) (string, bool) {
	switch v := v.(type) {
	case *Term:
		if v.IsConst() {
			return fmt.Sprintf("i%d:%d", v.w, v.k), true
		}
		return "", false
	case Str:
		s, ok := concStr(v)
		return "s" + s, ok
	case *Value:
		return fmt.Sprintf("p%p", v), true
	case Float:
		return fmt.Sprintf("f%v", v.v), true
	case Iface:
		if v.t == nil {
			return "nil", true
		}
		s, ok := keyString(v.v)
		return "I" + v.t.String() + ":" + s, ok
	case Struct:
		var sb strings.Builder
		sb.WriteString("{")
		for _, f := range v {
			s, ok := keyString(f)
			if !ok {
				return "", false
			}
			fmt.Fprintf(&sb, "%d:%s,", len(s), s)
		}
		return sb.String(), true
	case Array:
		var sb strings.Builder
		sb.WriteString("[")
		for _, f := range v {
			s, ok := keyString(f)
			if !ok {
				return "", false
			}
			fmt.Fprintf(&sb, "%d:%s,", len(s), s)
		}
		return sb.String(), true
	case *ChanV:
		return fmt.Sprintf("c%p", v), true
	}
	return "", false
}

// show renders a value for samples and diagnostics.
func show(v Value) string {
	return showD(v, 3)
}

func showD(v Value, d int) string {
	if d == 0 {
		return "…"
	}
	switch v := v.(type) {
	case nil:
		return "nil"
	case *Term:
		return v.String()
	case Str:
		if s, ok := concStr(v); ok {
			return fmt.Sprintf("%q", s)
		}
		parts := make([]string, len(v.b))
		for i, b := range v.b {
			parts[i] = b.String()
		}
		return "str[" + strings.Join(parts, " ") + "]"
	case Slice:
		if v.a == nil {
			return "[]nil"
		}
		parts := make([]string, len(v.a))
		for i, x := range v.a {
			parts[i] = showD(x, d-1)
		}
		return "[" + strings.Join(parts, " ") + "]"
	case Array:
		parts := make([]string, len(v))
		for i, x := range v {
			parts[i] = showD(x, d-1)
		}
		return "arr[" + strings.Join(parts, " ") + "]"
	case Struct:
		parts := make([]string, len(v))
		for i, x := range v {
			parts[i] = showD(x, d-1)
		}
		return "{" + strings.Join(parts, ", ") + "}"
	case Tuple:
		parts := make([]string, len(v))
		for i, x := range v {
			parts[i] = showD(x, d-1)
		}
		return "(" + strings.Join(parts, ", ") + ")"
	case *Value:
		if v == nil {
			return "nilptr"
		}
		return "&" + showD(*v, d-1)
	case Iface:
		if v.t == nil {
			return "nil-iface"
		}
		return "iface(" + v.t.String() + ":" + showD(v.v, d-1) + ")"
	case *Closure:
		if v == nil {
			return "nilfunc"
		}
		return "func " + v.fn.String()
	case Float:
		return fmt.Sprintf("%v", v.v)
	case *MapV:
		if v == nil {
			return "nilmap"
		}
		return fmt.Sprintf("map[%d]", v.n)
	case *ChanV:
		if v == nil {
			return "nilchan"
		}
		return "chan"
	case Opaque:
		return "opaque(" + v.what + ")"
	}
	return fmt.Sprintf("%T", v)
}
