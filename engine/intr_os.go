package main

// File-system environment: every os / *os.File call is a nondeterministic
// stub that appends (op, path, path2, ok) to a trace the harness can read and
// fails or succeeds by a fresh symbolic bit, so every fault schedule is a path.

import (
	"fmt"
	"go/types"
	"os"
	"strings"

	"golang.org/x/tools/go/ssa"
)

type fsEvent struct {
	op   string
	a, b Str
	ok   *Term
}

type fileObj struct {
	name   Str
	closed bool
	reads  int
}

func (e *Exec) fsRecord(op string, a, b Str, ok bool) {
	e.fsTrace = append(e.fsTrace, fsEvent{op, a, b, e.tt.Bool(ok)})
}

// fsFork decides success/failure of a fallible call by a fresh symbolic bit.
func (e *Exec) fsFork(op string) bool {
	e.fsSeq++
	if e.fsFaultBudget == 0 {
		return true
	}
	if e.fsFaultOps != nil && !e.fsFaultOps[op] {
		return true
	}
	v := e.freshVar(fmt.Sprintf("fs%d.%s.ok", e.fsSeq, op), 0)
	ok := e.branch(v)
	if !ok && e.fsFaultBudget > 0 {
		e.fsFaultBudget--
	}
	return ok
}

func (e *Exec) sentinel(pkg, name string) Value {
	p := e.ld.pkgs[pkg]
	if p == nil {
		unsupported("package %s not loaded", pkg)
	}
	g, ok := p.Members[name].(*ssa.Global)
	if !ok {
		unsupported("global %s.%s not found", pkg, name)
	}
	return *e.global(g)
}

func (e *Exec) fsError(op string) Value {
	return e.newErrorString(e.strConst("fs stub: " + op + " failed"))
}

// fsFork3: ok / sentinel error (ErrNotExist or ErrExist) / other error
func (e *Exec) fsFork3(op, sentinelName string) (bool, Value) {
	if e.fsFork(op) {
		return true, Iface{}
	}
	e.fsSeq++
	v := e.freshVar(fmt.Sprintf("fs%d.%s.%s", e.fsSeq, op, sentinelName), 0)
	if e.branch(v) {
		return false, e.sentinel("internal/oserror", sentinelName)
	}
	return false, e.fsError(op)
}

func (e *Exec) newFile(name Str) *Value {
	ft := e.namedType("os", "File")
	var cell Value = e.zero(ft)
	p := &cell
	e.objs[fmt.Sprintf("file%p", p)] = &fileObj{name: name}
	return p
}

func (e *Exec) fileOf(v Value) *fileObj {
	p, _ := v.(*Value)
	if p == nil {
		panic(targetPanic{e.runtimeError("invalid memory address or nil pointer dereference (nil *os.File)"), "os.File"})
	}
	f, _ := e.objs[fmt.Sprintf("file%p", p)].(*fileObj)
	if f == nil {
		unsupported("*os.File not created by the stub layer")
	}
	return f
}

func (e *Exec) tempName(dir, pattern Str) Str {
	// last '*' is replaced by the random part, else it is appended
	ps, ok := concStr(pattern)
	var name []*Term
	name = append(name, dir.b...)
	name = append(name, e.tt.BV(8, '/'))
	if ok {
		star := -1
		for i := len(ps) - 1; i >= 0; i-- {
			if ps[i] == '*' {
				star = i
				break
			}
		}
		if star >= 0 {
			name = append(name, e.strConst(ps[:star]+"1234567"+ps[star+1:]).b...)
			return Str{name}
		}
	}
	name = append(name, pattern.b...)
	name = append(name, e.strConst("1234567").b...)
	return Str{name}
}

func (e *Exec) fileInfo(name Str) Value {
	t := e.namedType(rtPkgPath, "FileInfo")
	if t == nil {
		unsupported("rt.FileInfo missing")
	}
	e.fsSeq++
	var dir, mode *Term
	if e.fsStatDirs {
		dir, mode = e.tt.True, e.tt.BV(32, 0o755|1<<31)
	} else {
		dir = e.freshVar(fmt.Sprintf("fs%d.isdir", e.fsSeq), 0)
		mode = e.freshVar(fmt.Sprintf("fs%d.mode", e.fsSeq), 32)
	}
	var cell Value = Struct{name, dir, mode}
	return Iface{t: types.NewPointer(t), v: &cell}
}

func init() {
	reg("os.TempDir", func(fr *frame, args []Value) Value { return fr.e.strConst("/tmp") })
	reg("os.CreateTemp", func(fr *frame, args []Value) Value {
		e := fr.e
		dir, pattern := args[0].(Str), args[1].(Str)
		if len(dir.b) == 0 {
			dir = e.strConst("/tmp")
		}
		name := e.tempName(dir, pattern)
		if !e.fsFork("createtemp") {
			e.fsRecord("createtemp", name, dir, false)
			return Tuple{(*Value)(nil), e.fsError("createtemp")}
		}
		e.fsRecord("createtemp", name, dir, true)
		return Tuple{e.newFile(name), Iface{}}
	})
	reg("os.MkdirTemp", func(fr *frame, args []Value) Value {
		e := fr.e
		dir, pattern := args[0].(Str), args[1].(Str)
		if len(dir.b) == 0 {
			dir = e.strConst("/tmp")
		}
		name := e.tempName(dir, pattern)
		if !e.fsFork("mkdirtemp") {
			e.fsRecord("mkdirtemp", name, dir, false)
			return Tuple{Str{}, e.fsError("mkdirtemp")}
		}
		e.fsRecord("mkdirtemp", name, dir, true)
		return Tuple{name, Iface{}}
	})
	reg("(*os.File).Name", func(fr *frame, args []Value) Value { return fr.e.fileOf(args[0]).name })
	simpleFileOp := func(op string) intrinsicFn {
		return func(fr *frame, args []Value) Value {
			e := fr.e
			f := e.fileOf(args[0])
			if f.closed && op != "close" {
				e.fsRecord(op, f.name, Str{}, false)
				return e.sentinel("internal/oserror", "ErrClosed")
			}
			if op == "close" {
				if f.closed {
					e.fsRecord(op, f.name, Str{}, false)
					return e.sentinel("internal/oserror", "ErrClosed")
				}
				f.closed = true // the descriptor is released even when close reports an error
			}
			ok := e.fsFork(op)
			e.fsRecord(op, f.name, Str{}, ok)
			if ok {
				return Iface{}
			}
			return e.fsError(op)
		}
	}
	reg("(*os.File).Sync", simpleFileOp("sync"))
	reg("(*os.File).Close", simpleFileOp("close"))
	reg("(*os.File).Chmod", simpleFileOp("chmod"))
	fileWrite := func(fr *frame, f *fileObj, n int) (int, Value) {
		e := fr.e
		if f.closed {
			e.fsRecord("write", f.name, Str{}, false)
			return 0, e.sentinel("internal/oserror", "ErrClosed")
		}
		ok := e.fsFork("write")
		e.fsRecord("write", f.name, e.strConst(fmt.Sprint(n)), ok)
		if ok {
			return n, Iface{}
		}
		return 0, e.fsError("write")
	}
	reg("(*os.File).Write", func(fr *frame, args []Value) Value {
		n, err := fileWrite(fr, fr.e.fileOf(args[0]), len(args[1].(Slice).a))
		return Tuple{fr.e.tt.BV(64, uint64(n)), err}
	})
	reg("(*os.File).WriteString", func(fr *frame, args []Value) Value {
		n, err := fileWrite(fr, fr.e.fileOf(args[0]), len(args[1].(Str).b))
		return Tuple{fr.e.tt.BV(64, uint64(n)), err}
	})
	// ReadFrom (used by io.Copy): drain the reader in chunks, one write per chunk
	reg("(*os.File).ReadFrom", func(fr *frame, args []Value) Value {
		e := fr.e
		f := e.fileOf(args[0])
		r := args[1].(Iface)
		if r.t == nil {
			panic(targetPanic{e.runtimeError("nil reader"), "os.File.ReadFrom"})
		}
		m := e.findMethod(r.t, "Read")
		if m == nil {
			unsupported("ReadFrom: reader without Read")
		}
		total := 0
		for i := 0; i < 8; i++ {
			buf := make([]Value, 4)
			for j := range buf {
				buf[j] = e.tt.BV(8, 0)
			}
			res := e.callSSA(fr, 0, m, []Value{r.v, Slice{buf}}, nil).(Tuple)
			n := int(e.concretize(res[0].(*Term), "Read n"))
			if n > 0 {
				w, werr := fileWrite(fr, f, n)
				total += w
				if ie := werr.(Iface); ie.t != nil {
					return Tuple{e.tt.BV(64, uint64(total)), ie}
				}
			}
			if ie := res[1].(Iface); ie.t != nil {
				if e.branch(e.eqVal(ie, e.sentinel("io", "EOF"))) {
					return Tuple{e.tt.BV(64, uint64(total)), Iface{}}
				}
				return Tuple{e.tt.BV(64, uint64(total)), ie}
			}
			if n == 0 {
				break
			}
		}
		return Tuple{e.tt.BV(64, uint64(total)), Iface{}}
	})
	// Read: one chunk of 0..2 fresh bytes, then EOF; may fail
	reg("(*os.File).Read", func(fr *frame, args []Value) Value {
		e := fr.e
		f := e.fileOf(args[0])
		dst := args[1].(Slice)
		if !e.fsFork("read") {
			e.fsRecord("read", f.name, Str{}, false)
			return Tuple{e.tt.BV(64, 0), e.fsError("read")}
		}
		e.fsRecord("read", f.name, Str{}, true)
		if f.reads > 0 || len(dst.a) == 0 {
			return Tuple{e.tt.BV(64, 0), e.sentinel("io", "EOF")}
		}
		f.reads++
		e.fsSeq++
		n := int(e.forkRange(e.freshVar(fmt.Sprintf("fs%d.read.len", e.fsSeq), 64), 0, 2))
		if n > len(dst.a) {
			n = len(dst.a)
		}
		for i := 0; i < n; i++ {
			dst.a[i] = e.freshVar(fmt.Sprintf("fs%d.read.%d", e.fsSeq, i), 8)
		}
		if n == 0 {
			return Tuple{e.tt.BV(64, 0), e.sentinel("io", "EOF")}
		}
		return Tuple{e.tt.BV(64, uint64(n)), Iface{}}
	})
	twoPath := func(op, sentinelName string) intrinsicFn {
		return func(fr *frame, args []Value) Value {
			e := fr.e
			var ok bool
			var err Value
			if sentinelName != "" {
				ok, err = e.fsFork3(op, sentinelName)
			} else {
				ok = e.fsFork(op)
				err = Iface{}
				if !ok {
					err = e.fsError(op)
				}
			}
			e.fsRecord(op, args[0].(Str), args[1].(Str), ok)
			return err
		}
	}
	onePath := func(op, sentinelName string) intrinsicFn {
		return func(fr *frame, args []Value) Value {
			e := fr.e
			var ok bool
			var err Value
			if sentinelName != "" {
				ok, err = e.fsFork3(op, sentinelName)
			} else {
				ok = e.fsFork(op)
				err = Iface{}
				if !ok {
					err = e.fsError(op)
				}
			}
			e.fsRecord(op, args[0].(Str), Str{}, ok)
			return err
		}
	}
	reg("os.Rename", twoPath("rename", ""))
	reg("os.Symlink", twoPath("symlink", "ErrExist"))
	reg("os.Link", twoPath("link", "ErrExist"))
	reg("os.Remove", onePath("remove", "ErrNotExist"))
	reg("os.RemoveAll", onePath("removeall", ""))
	reg("os.Mkdir", onePath("mkdir", "ErrExist"))
	reg("os.MkdirAll", onePath("mkdirall", ""))
	reg("os.Chmod", onePath("chmod", ""))
	stat := func(op string) intrinsicFn {
		return func(fr *frame, args []Value) Value {
			e := fr.e
			path := args[0].(Str)
			if e.fsStatFromWalk {
				// consistent with the registered walk entries: the path exists iff
				// it is one of them (or a root given to rt.FsDir)
				for _, we := range e.walkList {
					if len(we.path.b) == len(path.b) && e.branch(e.strEq(we.path, path)) {
						e.fsRecord(op, path, Str{}, true)
						t := e.namedType(rtPkgPath, "FileInfo")
						mode := e.tt.Ite(we.dir, e.tt.BV(32, 0o755|1<<31), e.tt.BV(32, 0o644))
						var cell Value = Struct{path, we.dir, mode}
						return Tuple{Iface{t: types.NewPointer(t), v: &cell}, Iface{}}
					}
				}
				e.fsRecord(op, path, Str{}, false)
				if e.belowRegisteredFile(path) {
					// a path through a regular file: ENOTDIR, which is not ErrNotExist
					return Tuple{Iface{}, e.errNotDir(op)}
				}
				return Tuple{Iface{}, e.sentinel("internal/oserror", "ErrNotExist")}
			}
			ok, err := e.fsFork3(op, "ErrNotExist")
			e.fsRecord(op, path, Str{}, ok)
			if !ok {
				return Tuple{Iface{}, err}
			}
			return Tuple{e.fileInfo(path), Iface{}}
		}
	}
	reg("os.Stat", stat("stat"))
	reg("os.Lstat", stat("lstat"))
	reg("os.ReadFile", func(fr *frame, args []Value) Value {
		e := fr.e
		path := args[0].(Str)
		if e.fsModelOn {
			return e.fsModelRead(path)
		}
		for _, name := range e.fsFileOrder {
			reg := e.strConst(name)
			if len(reg.b) == len(path.b) && e.branch(e.strEq(reg, path)) {
				e.fsRecord("readfile", path, Str{}, true)
				return Tuple{Slice{append([]Value(nil), e.fsFiles[name].a...)}, Iface{}}
			}
		}
		if e.fsStatFromWalk {
			// consistent with the registered entries: a directory cannot be read
			// (EISDIR), a path through a regular file is ENOTDIR, an unregistered
			// path does not exist
			for _, we := range e.walkList {
				if len(we.path.b) == len(path.b) && e.branch(e.strEq(we.path, path)) && e.branch(we.dir) {
					e.fsRecord("readfile", path, Str{}, false)
					if t := e.namedType("syscall", "Errno"); t != nil {
						return Tuple{Slice{}, Iface{t: t, v: e.tt.BV(64, 21)}} // EISDIR
					}
					return Tuple{Slice{}, e.newErrorString(e.strConst("read: is a directory (stub)"))}
				}
			}
			if e.belowRegisteredFile(path) {
				e.fsRecord("readfile", path, Str{}, false)
				return Tuple{Slice{}, e.errNotDir("open")}
			}
			known := false
			for _, we := range e.walkList {
				if len(we.path.b) == len(path.b) && e.branch(e.strEq(we.path, path)) {
					known = true
				}
			}
			if !known {
				e.fsRecord("readfile", path, Str{}, false)
				return Tuple{Slice{}, e.sentinel("internal/oserror", "ErrNotExist")}
			}
		}
		ok, err := e.fsFork3("readfile", "ErrNotExist")
		e.fsRecord("readfile", path, Str{}, ok)
		if !ok {
			return Tuple{Slice{}, err}
		}
		e.fsSeq++
		n := int(e.forkRange(e.freshVar(fmt.Sprintf("fs%d.readfile.len", e.fsSeq), 64), 0, 1))
		a := make([]Value, n)
		for i := range a {
			a[i] = e.freshVar(fmt.Sprintf("fs%d.readfile.%d", e.fsSeq, i), 8)
		}
		return Tuple{Slice{a}, Iface{}}
	})
	open := func(fr *frame, args []Value) Value {
		e := fr.e
		path := args[0].(Str)
		ok, err := e.fsFork3("open", "ErrNotExist")
		// os.OpenFile: the second path field of the event names the flags
		flags := Str{}
		if len(args) >= 2 {
			if ft, isTerm := args[1].(*Term); isTerm && ft.IsConst() {
				var names []string
				f := int(ft.k)
				for _, fl := range []struct {
					bit  int
					name string
				}{{os.O_WRONLY, "wronly"}, {os.O_RDWR, "rdwr"}, {os.O_APPEND, "append"}, {os.O_CREATE, "creat"}, {os.O_EXCL, "excl"}, {os.O_TRUNC, "trunc"}, {os.O_SYNC, "sync"}} {
					if f&fl.bit != 0 {
						names = append(names, fl.name)
					}
				}
				flags = e.strConst(strings.Join(names, ","))
			}
		}
		e.fsRecord("open", path, flags, ok)
		if !ok {
			return Tuple{(*Value)(nil), err}
		}
		return Tuple{e.newFile(path), Iface{}}
	}
	reg("os.Open", open)
	reg("os.OpenFile", open)
	reg("os.Create", open)

	// ---- trace access for harnesses ----
	rt := rtPkgPath + "."
	reg(rt+"Root", func(fr *frame, args []Value) Value { return args[0] })
	reg(rt+"NativeEscapes", func(fr *frame, args []Value) Value { return fr.e.tt.False })
	reg(rt+"FsFaults", func(fr *frame, args []Value) Value {
		fr.e.fsFaultBudget = int(int64(fr.e.concretize(args[0].(*Term), "fault budget")))
		return nil
	})
	reg(rt+"FsFaultOps", func(fr *frame, args []Value) Value {
		e := fr.e
		e.fsFaultOps = map[string]bool{}
		for _, op := range strings.Split(e.mustConcStr(args[0], "fault ops"), ",") {
			e.fsFaultOps[op] = true
		}
		return nil
	})
	reg(rt+"NativeExtraFiles", func(fr *frame, args []Value) Value { return fr.e.tt.False })
	reg(rt+"NativeAtomicDest", func(fr *frame, args []Value) Value { return nil })
	reg(rt+"NativeAtomicTmpDir", func(fr *frame, args []Value) Value { return nil })
	reg(rt+"NativeEnd", func(fr *frame, args []Value) Value { return nil })
	reg(rt+"NativeSubRoot", func(fr *frame, args []Value) Value { return nil })
	reg(rt+"FsStatFromWalk", func(fr *frame, args []Value) Value {
		fr.e.fsStatFromWalk = fr.e.branch(args[0].(*Term))
		return nil
	})
	reg(rt+"FsStatDirs", func(fr *frame, args []Value) Value {
		fr.e.fsStatDirs = fr.e.branch(args[0].(*Term))
		return nil
	})
	reg(rt+"FsReset", func(fr *frame, args []Value) Value { fr.e.fsTrace = nil; return nil })
	reg(rt+"FsLen", func(fr *frame, args []Value) Value { return fr.e.tt.BV(64, uint64(len(fr.e.fsTrace))) })
	ev := func(fr *frame, args []Value) fsEvent {
		e := fr.e
		i := int(e.concretize(args[0].(*Term), "trace index"))
		if i < 0 || i >= len(e.fsTrace) {
			panic(targetPanic{e.runtimeError("fs trace index out of range"), "rt.Fs"})
		}
		return e.fsTrace[i]
	}
	reg(rt+"FsOp", func(fr *frame, args []Value) Value { return fr.e.strConst(ev(fr, args).op) })
	reg(rt+"FsPath", func(fr *frame, args []Value) Value { return ev(fr, args).a })
	reg(rt+"FsPath2", func(fr *frame, args []Value) Value { return ev(fr, args).b })
	reg(rt+"FsOK", func(fr *frame, args []Value) Value { return ev(fr, args).ok })
}

// errNotDir is syscall.ENOTDIR (as a bare errno) where package syscall is
// part of the program, else an opaque error that is not ErrNotExist.
func (e *Exec) errNotDir(op string) Value {
	if t := e.namedType("syscall", "Errno"); t != nil {
		return Iface{t: t, v: e.tt.BV(64, 20)}
	}
	return e.newErrorString(e.strConst(op + ": not a directory (stub)"))
}

// belowRegisteredFile: the path runs through a registered regular file
// (<file>/...).
func (e *Exec) belowRegisteredFile(path Str) bool {
	for _, we := range e.walkList {
		n := len(we.path.b)
		if len(path.b) > n+1 && !e.branch(we.dir) {
			pre := Str{append(append([]*Term{}, we.path.b...), e.tt.BV(8, '/'))}
			if e.branch(e.matchAt(path.b, pre.b, 0)) {
				return true
			}
		}
	}
	return false
}

func (e *Exec) fsModelRead(path Str) Value {
	unsupported("fs model read")
	return nil
}

// ---------- filepath.Walk stub ----------
// Records the walk root and calls the callback for the root and for every
// harness-registered candidate entry that lies below the root.

type walkEntry struct {
	path Str
	dir  *Term
}

func init() {
	rt := rtPkgPath + "."
	reg(rt+"FsFile", func(fr *frame, args []Value) Value {
		name, ok := concStr(args[0].(Str))
		if !ok {
			unsupported("rt.FsFile with a symbolic path")
		}
		if fr.e.fsFiles == nil {
			fr.e.fsFiles = map[string]Slice{}
		}
		src := args[1].(Slice)
		if _, dup := fr.e.fsFiles[name]; !dup {
			fr.e.fsFileOrder = append(fr.e.fsFileOrder, name)
		}
		fr.e.fsFiles[name] = Slice{append([]Value(nil), src.a...)}
		return nil
	})
	reg(rt+"WalkEntry", func(fr *frame, args []Value) Value {
		fr.e.walkList = append(fr.e.walkList, walkEntry{args[0].(Str), args[1].(*Term)})
		return nil
	})
	reg("os.Getwd", func(fr *frame, args []Value) Value { return Tuple{fr.e.strConst("/cwd"), Iface{}} })
	reg("path/filepath.Walk", func(fr *frame, args []Value) Value {
		e := fr.e
		root := args[0].(Str)
		fn := args[1]
		e.fsRecord("walk", root, Str{}, true)
		skipDir := e.sentinel("io/fs", "SkipDir")
		skipAll := e.sentinel("io/fs", "SkipAll")
		fit := e.namedType(rtPkgPath, "FileInfo")
		var skipped []Str
		visit := func(p Str, dir *Term) (stop bool, ret Value) {
			var cell Value = Struct{p, dir, e.tt.BV(32, 0o644)}
			info := Iface{t: types.NewPointer(fit), v: &cell}
			r := e.call(fr, 0, fn, []Value{p, info, Iface{}}).(Iface)
			if r.t == nil {
				return false, nil
			}
			if e.branch(e.eqVal(r, skipDir)) {
				if e.branch(dir) {
					skipped = append(skipped, p)
					return false, nil
				}
				return true, Iface{} // SkipDir on a file skips the rest of the directory
			}
			if e.branch(e.eqVal(r, skipAll)) {
				return true, Iface{}
			}
			return true, r
		}
		if e.fsStatFromWalk {
			// the root as the registered entries have it
			known, isDir := false, e.tt.False
			for _, we := range e.walkList {
				if len(we.path.b) == len(root.b) && e.branch(e.strEq(we.path, root)) {
					known, isDir = true, we.dir
					break
				}
			}
			if !known {
				// lstat of the root fails: the callback gets the error and decides
				var lerr Value = e.sentinel("internal/oserror", "ErrNotExist")
				if e.belowRegisteredFile(root) {
					lerr = e.errNotDir("lstat")
				}
				r := e.call(fr, 0, fn, []Value{root, Iface{}, lerr}).(Iface)
				if r.t != nil && (e.branch(e.eqVal(r, skipDir)) || e.branch(e.eqVal(r, skipAll))) {
					return Iface{}
				}
				return r
			}
			if !e.branch(isDir) {
				_, ret := visit(root, e.tt.False)
				if ret == nil {
					return Iface{}
				}
				if ri, ok := ret.(Iface); ok && ri.t != nil && (e.branch(e.eqVal(ri, skipDir)) || e.branch(e.eqVal(ri, skipAll))) {
					return Iface{}
				}
				return ret
			}
		}
		if stop, ret := visit(root, e.tt.True); stop {
			return ret
		}
		if len(skipped) > 0 {
			return Iface{}
		}
		rootSlash := Str{append(append([]*Term{}, root.b...), e.tt.BV(8, '/'))}
		for _, we := range e.walkList {
			if len(we.path.b) < len(rootSlash.b) || !e.branch(e.matchAt(we.path.b, rootSlash.b, 0)) {
				continue
			}
			under := false
			for _, s := range skipped {
				ss := append(append([]*Term{}, s.b...), e.tt.BV(8, '/'))
				if len(we.path.b) >= len(ss) && e.branch(e.matchAt(we.path.b, ss, 0)) {
					under = true
					break
				}
			}
			if under {
				continue
			}
			if stop, ret := visit(we.path, we.dir); stop {
				return ret
			}
		}
		return Iface{}
	})
	reg("net/url.ParseRequestURI", func(fr *frame, args []Value) Value {
		e := fr.e
		e.fsRecord("parseuri", args[0].(Str), Str{}, false)
		return Tuple{(*Value)(nil), e.newErrorString(e.strConst("url stub: parse refused"))}
	})
}

func init() {
	rt := rtPkgPath + "."
	reg(rt+"FsCreateFile", func(fr *frame, args []Value) Value { return nil })
	// FsRemoved: some successful remove/removeall event names exactly this path
	reg(rt+"FsRemoved", func(fr *frame, args []Value) Value {
		e := fr.e
		p := args[0].(Str)
		r := e.tt.False
		for _, ev := range e.fsTrace {
			if ev.op == "remove" || ev.op == "removeall" {
				r = e.tt.Or(r, e.tt.And(ev.ok, e.strEq(ev.a, p)))
			}
		}
		return r
	})
}
