package main

// Goroutines, channels, select, timers. Each symbolic goroutine runs on a host
// goroutine; exactly one holds the baton at any time, so engine state needs no
// locking. Context switches happen only where a goroutine blocks, ends or
// yields (granularity G1), plus at rt.Yield() points (G2 instrumentation).

import (
	"fmt"
	"go/token"
	"go/types"
	"os"
	"sort"
	"sync"

	"golang.org/x/tools/go/ssa"
)

var schedLog = os.Getenv("SYMGO_SCHEDLOG") != ""

type G struct {
	id       int
	resume   chan bool
	done     bool
	started  bool
	ready    func() bool // nil = runnable
	what     string      // what it is blocked on
	isMain   bool
	daemon   bool
	entry    string
	preempt  int
	yielding bool
	exited   chan struct{}
	epoch    int // number of times the goroutine handed the baton to another one
	demoted  bool
}

type abortG struct{}

type crashEnd struct {
	tp targetPanic
	g  int
}

type timer struct {
	when   int64
	ch     *ChanV
	fn     func()
	period int64
	active bool
	seq    int
}

type Sched struct {
	gs            []*G
	cur           *G
	chanID        int
	fatal         interface{}
	wg            sync.WaitGroup
	timers        []*timer
	now           int64 // virtual nanoseconds since start (concrete)
	timerSeq      int
	abortCh       chan struct{}
	noTimers      bool // timers never fire (harness option)
	timersTogether bool // all timers due at the same instant fire before any goroutine runs (harness option)
	switches      int
	yieldOnly     bool
	preemptBudget int  // remaining preemptions at synchronisation operations (G2)
	demote        bool // rt.PreemptedRunLast: a preempted goroutine is not picked deterministically while others can run
	maxPreempt    int
	preempts      int
}

func (s *Sched) nextChanID() int { s.chanID++; return s.chanID }

type selState struct {
	g    *G
	done bool
	idx  int
	val  Value
	ok   bool
}

type waiter struct {
	sel *selState
	idx int
	val Value
}

type ChanV struct {
	id     int
	cap    int
	buf    []Value
	closed bool
	recvq  []*waiter
	sendq  []*waiter
	elemZ  Value
}

func (e *Exec) newSched() *Sched {
	s := &Sched{abortCh: make(chan struct{})}
	g := &G{id: 0, resume: make(chan bool), isMain: true, started: true, entry: "main"}
	s.gs = []*G{g}
	s.cur = g
	return s
}

func (e *Exec) spawn(fr *frame, pos token.Pos, fn Value, args []Value) {
	s := e.sched
	alive := 0
	for _, g := range s.gs {
		if !g.done {
			alive++
		}
	}
	if alive >= 24 || len(s.gs) >= 512 {
		panic(pathEnd{"truncated", fmt.Sprintf("goroutine bound exceeded (%d alive, %d spawned)", alive, len(s.gs))})
	}
	g := &G{id: len(s.gs), resume: make(chan bool), exited: make(chan struct{})}
	if c, ok := fn.(*Closure); ok && c != nil {
		g.entry = c.fn.String()
	}
	s.gs = append(s.gs, g)
	s.wg.Add(1)
	go func() {
		defer s.wg.Done()
		defer close(g.exited)
		if !<-g.resume {
			return
		}
		g.started = true
		defer func() {
			r := recover()
			switch r := r.(type) {
			case nil:
			case abortG:
				return
			case targetPanic:
				s.fatal = crashEnd{r, g.id}
			default:
				s.fatal = r
			}
			g.done = true
			if s.fatal == nil {
				func() {
					defer func() {
						if r2 := recover(); r2 != nil {
							s.fatal = r2
						}
					}()
					e.reschedule(g)
				}()
				if s.fatal == nil {
					return // baton passed on
				}
			}
			// hand the baton to main, which raises the fatal condition
			// (unless the path is already being torn down)
			select {
			case s.gs[0].resume <- true:
			case <-s.abortCh:
			}
		}()
		s.cur = g
		e.call(nil, pos, fn, args)
	}()
}

// reschedule is called by the baton holder when it blocks, yields or ends.
func (e *Exec) reschedule(self *G) {
	s := e.sched
	for {
		var runnable []*G
		if !self.done && (self.ready == nil || self.ready()) {
			runnable = append(runnable, self)
		}
		for _, g := range s.gs {
			if g == self || g.done {
				continue
			}
			if g.ready == nil || g.ready() {
				runnable = append(runnable, g)
			}
		}
		if len(runnable) == 0 {
			if e.fireNextTimer() {
				continue
			}
			desc := "all goroutines blocked:"
			for _, g := range s.gs {
				if !g.done {
					desc += fmt.Sprintf(" g%d(%s)@%s", g.id, g.entry, g.what)
				}
			}
			panic(pathEnd{"deadlock", desc})
		}
		var pick *G
		if s.yieldOnly && !self.yielding {
			// run-to-block policy: deterministic choice (lowest id, the
			// blocked/ended goroutine's successors in creation order);
			// nondeterministic choices happen only at rt.Yield() points
			pick = runnable[0]
			if pick != self {
				// lowest id; with rt.PreemptedRunLast goroutines that were
				// preempted come after all others
				pick = nil
				for _, g := range runnable {
					if s.demote && g.demoted {
						continue
					}
					if pick == nil || g.id < pick.id {
						pick = g
					}
				}
				if pick == nil {
					for _, g := range runnable {
						if pick == nil || g.id < pick.id {
							pick = g
						}
					}
				}
				pick.demoted = false
			}
		} else {
			pick = runnable[e.chooseN(len(runnable), "schedule")]
		}
		if pick == self {
			self.ready = nil
			self.what = ""
			return
		}
		s.switches++
		self.epoch++
		if schedLog {
			fmt.Fprintf(os.Stderr, "SCHED g%d(%s) [%s done=%v] -> g%d(%s)\n", self.id, self.entry, self.what, self.done, pick.id, pick.entry)
		}
		s.cur = pick
		pick.resume <- true
		if self.done {
			return
		}
		if !<-self.resume {
			panic(abortG{})
		}
		s.cur = self
		if self.isMain && s.fatal != nil {
			f := s.fatal
			s.fatal = nil
			panic(f)
		}
		// we were picked because our predicate held at that time
		self.ready = nil
		self.what = ""
		return
	}
}

// block parks the current goroutine until pred holds.
func (e *Exec) block(g *G, what string, pred func() bool) {
	if pred() {
		return
	}
	g.ready = pred
	g.what = what
	e.reschedule(g)
}

// yield is a voluntary scheduling point (all runnable goroutines may go next).
func (e *Exec) yield(g *G) {
	g.yielding = true
	defer func() { g.yielding = false }()
	e.reschedule(g)
}

// killAll aborts all parked goroutines at the end of a path.
func (e *Exec) killAll() {
	s := e.sched
	close(s.abortCh)
	for _, g := range s.gs[1:] {
		g.done = true
		select {
		case g.resume <- false:
		case <-g.exited:
		}
	}
	s.wg.Wait()
}

func (e *Exec) curG(fr *frame) *G {
	if fr != nil && fr.g != nil {
		return fr.g
	}
	return e.sched.cur
}

// ---------- channels ----------

func liveWaiter(q *[]*waiter, self *G) *waiter {
	for len(*q) > 0 && (*q)[0].sel.done {
		*q = (*q)[1:]
	}
	for _, w := range *q {
		if !w.sel.done && w.sel.g != self {
			return w
		}
	}
	return nil
}

func (e *Exec) trySend(g *G, ch *ChanV, v Value) bool {
	if w := liveWaiter(&ch.recvq, g); w != nil {
		w.sel.done, w.sel.idx, w.sel.val, w.sel.ok = true, w.idx, v, true
		return true
	}
	if len(ch.buf) < ch.cap {
		ch.buf = append(ch.buf, v)
		return true
	}
	return false
}

func (e *Exec) tryRecv(g *G, ch *ChanV) (Value, bool, bool) {
	if len(ch.buf) > 0 {
		v := ch.buf[0]
		ch.buf = ch.buf[1:]
		if w := liveWaiter(&ch.sendq, g); w != nil {
			ch.buf = append(ch.buf, w.val)
			w.sel.done, w.sel.idx = true, w.idx
		}
		return v, true, true
	}
	if w := liveWaiter(&ch.sendq, g); w != nil {
		w.sel.done, w.sel.idx = true, w.idx
		return w.val, true, true
	}
	if ch.closed {
		return nil, false, true
	}
	return nil, false, false
}

type selCase struct {
	ch   *ChanV
	send bool
	val  Value
}

// doSelect runs a select over cases; returns chosen index (-1 default), value, ok.
func (e *Exec) doSelect(fr *frame, instr ssa.Instruction, cases []selCase, hasDefault bool) (int, Value, bool) {
	g := e.curG(fr)
	isReady := func(c selCase) bool {
		if c.ch == nil {
			return false
		}
		if c.send {
			return c.ch.closed || liveWaiter(&c.ch.recvq, g) != nil || len(c.ch.buf) < c.ch.cap
		}
		return len(c.ch.buf) > 0 || liveWaiter(&c.ch.sendq, g) != nil || c.ch.closed
	}
	var ready []int
	for i, c := range cases {
		if isReady(c) {
			ready = append(ready, i)
		}
	}
	if len(ready) > 0 {
		i := ready[e.chooseN(len(ready), "select")]
		c := cases[i]
		if c.send {
			if c.ch.closed {
				fr.rtPanic(instr, "send on closed channel")
			}
			e.trySend(g, c.ch, c.val)
			return i, nil, false
		}
		v, ok, _ := e.tryRecv(g, c.ch)
		return i, v, ok
	}
	if hasDefault {
		return -1, nil, false
	}
	sel := &selState{g: g}
	for i, c := range cases {
		if c.ch == nil {
			continue
		}
		w := &waiter{sel: sel, idx: i, val: c.val}
		if c.send {
			c.ch.sendq = append(c.ch.sendq, w)
		} else {
			c.ch.recvq = append(c.ch.recvq, w)
		}
	}
	what := "select"
	if len(cases) == 1 {
		if cases[0].send {
			what = "chan send"
		} else {
			what = "chan receive"
		}
	}
	if instr != nil {
		what += "@" + e.pos(instr.Pos())
	}
	anyClosed := func() bool {
		for _, c := range cases {
			if c.ch != nil && c.ch.closed {
				return true
			}
		}
		return false
	}
	e.block(g, what, func() bool { return sel.done || anyClosed() })
	if sel.done {
		return sel.idx, sel.val, sel.ok
	}
	sel.done = true // void our waiters
	var closedIdx []int
	for i, c := range cases {
		if c.ch != nil && c.ch.closed {
			closedIdx = append(closedIdx, i)
		}
	}
	if len(closedIdx) == 0 {
		panic(engineError{fmt.Sprintf("select woke up without a ready case: g%d %s aborting=%v", g.id, what, g.done)})
	}
	i := closedIdx[e.chooseN(len(closedIdx), "select-closed")]
	if cases[i].send {
		fr.rtPanic(instr, "send on closed channel")
	}
	return i, nil, false
}

func (e *Exec) chanSend(fr *frame, instr ssa.Instruction, ch *ChanV, v Value) {
	e.preemptPoint(fr)
	if ch != nil && ch.closed {
		fr.rtPanic(instr, "send on closed channel")
	}
	e.doSelect(fr, instr, []selCase{{ch, true, v}}, false)
}

func (e *Exec) chanRecv(fr *frame, instr *ssa.UnOp, ch *ChanV) (Value, bool) {
	e.preemptPoint(fr)
	_, v, ok := e.doSelect(fr, instr, []selCase{{ch, false, nil}}, false)
	if !ok {
		v = e.zero(instr.X.Type().Underlying().(*types.Chan).Elem())
	}
	return v, ok
}

func (e *Exec) chanClose(fr *frame, pos token.Pos, ch *ChanV) {
	e.preemptPoint(fr)
	if ch == nil {
		panic(targetPanic{e.runtimeError("close of nil channel"), "close@" + e.pos(pos)})
	}
	if ch.closed {
		panic(targetPanic{e.runtimeError("close of closed channel"), "close@" + e.pos(pos)})
	}
	ch.closed = true
}

func (e *Exec) selectStmt(fr *frame, instr *ssa.Select) Value {
	e.preemptPoint(fr)
	cases := make([]selCase, len(instr.States))
	for i, st := range instr.States {
		c := selCase{ch: fr.get(st.Chan).(*ChanV)}
		if st.Send != nil {
			c.send = true
			c.val = fr.get(st.Send)
		}
		cases[i] = c
	}
	idx, v, ok := e.doSelect(fr, instr, cases, !instr.Blocking)
	r := Tuple{e.tt.BV(64, uint64(int64(idx))), e.tt.Bool(ok)}
	for i, st := range instr.States {
		if st.Send == nil {
			if i == idx && ok {
				r = append(r, v)
			} else {
				r = append(r, e.zero(st.Chan.Type().Underlying().(*types.Chan).Elem()))
			}
		}
	}
	return r
}

// ---------- timers ----------

func (e *Exec) addTimer(d int64, ch *ChanV, fn func(), period int64) *timer {
	s := e.sched
	s.timerSeq++
	t := &timer{when: s.now + d, ch: ch, fn: fn, period: period, active: true, seq: s.timerSeq}
	s.timers = append(s.timers, t)
	return t
}

// fireNextTimer advances the virtual clock to the earliest active timer and
// fires it. Returns false when no timer is pending.
func (e *Exec) fireNextTimer() bool {
	s := e.sched
	if s.noTimers {
		return false
	}
	var act []*timer
	for _, t := range s.timers {
		if t.active {
			act = append(act, t)
		}
	}
	s.timers = act
	if len(act) == 0 {
		return false
	}
	sort.SliceStable(act, func(i, j int) bool {
		if act[i].when != act[j].when {
			return act[i].when < act[j].when
		}
		return act[i].seq < act[j].seq
	})
	if s.timersTogether {
		// every timer that is due at that instant fires
		at := act[0].when
		if at > s.now {
			s.now = at
		}
		for _, t := range act {
			if t.when > s.now {
				break
			}
			e.fireTimer(t)
		}
		return true
	}
	t := act[0]
	if t.when > s.now {
		s.now = t.when
	}
	e.fireTimer(t)
	return true
}

func (e *Exec) fireTimer(t *timer) {
	if t.period > 0 {
		t.when += t.period
	} else {
		t.active = false
	}
	if t.ch != nil {
		if len(t.ch.buf) < t.ch.cap || liveWaiter(&t.ch.recvq, nil) != nil {
			e.trySend(nil, t.ch, e.timeValue())
		}
	}
	if t.fn != nil {
		t.fn()
	}
}

// preemptPoint is called before synchronisation operations (locks, atomics,
// channel operations). While the preemption budget lasts, the running
// goroutine may be preempted in favour of any other runnable goroutine
// (CHESS-style preemption bounding; switches at blocking points stay free).
func (e *Exec) preemptPoint(fr *frame) {
	s := e.sched
	if s.preemptBudget <= 0 {
		return
	}
	self := e.curG(fr)
	var others []*G
	for _, g := range s.gs {
		if g == self || g.done {
			continue
		}
		if g.ready == nil || g.ready() {
			others = append(others, g)
		}
	}
	if len(others) == 0 {
		return
	}
	k := e.chooseN(len(others)+1, "preempt")
	if k == 0 {
		return
	}
	s.preemptBudget--
	self.demoted = true
	pick := others[k-1]
	if schedLog {
		fmt.Fprintf(os.Stderr, "SCHED preempt g%d(%s) in %s -> g%d(%s)\n", self.id, self.entry, fr.fn, pick.id, pick.entry)
	}
	s.switches++
	s.cur = pick
	pick.resume <- true
	if !<-self.resume {
		panic(abortG{})
	}
	s.cur = self
	if self.isMain && s.fatal != nil {
		f := s.fatal
		s.fatal = nil
		panic(f)
	}
}
