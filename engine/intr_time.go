package main

func (e *Exec) timeValue() Value { return nil }
