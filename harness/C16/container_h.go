package container

// C16 harnesses: a Container is a faithful byte queue. Differential check of
// every exported operation against a []byte model, from constructor-built
// containers (histories) and from arbitrary invariant-satisfying
// representations (inductive step).

import (
	rt "github.com/safing/portbase/zz_verifrt"
)

// ---- reference varint (specification) ----

func refPack(n uint64) []byte {
	var out []byte
	for n >= 0x80 {
		out = append(out, byte(n)|0x80)
		n >>= 7
	}
	return append(out, byte(n))
}

// refDecode: status 0 ok, 1 truncated, 2 overflow.
func refDecode(b []byte) (val uint64, n int, status int) {
	var shift uint
	for i := 0; i < len(b); i++ {
		c := b[i]
		if i == 9 && c > 1 {
			return 0, 0, 2
		}
		if i > 9 {
			return 0, 0, 2
		}
		val |= uint64(c&0x7f) << shift
		if c < 0x80 {
			return val, i + 1, 0
		}
		shift += 7
	}
	return 0, 0, 1
}

type byteSink struct{ got []byte }

func (s *byteSink) Write(p []byte) (int, error) {
	s.got = append(s.got, p...)
	return len(p), nil
}

func clone(b []byte) []byte { return append([]byte{}, b...) }

func cat(a, b []byte) []byte { return append(clone(a), b...) }

func minInt(a, b int) int {
	if a < b {
		return a
	}
	return b
}

// state comparison that does not change the container's representation
func agree(c *Container, m []byte, tag string) {
	rt.Assert(c.Length() == len(m), tag+"/length")
	rt.Assert(c.HoldsData() == (len(m) > 0), tag+"/holdsdata")
	cp := c.carbonCopy()
	// carbonCopy shares the byte slices but not the compartment list, so
	// compiling the copy leaves c untouched
	rt.Assert(rt.EqBytes(cp.CompileData(), m), tag+"/content")
}

const numOps = 29

// reqLen is a requested length: any int (fully symbolic).
func reqLen(name string, have int) int {
	return rt.Int(name)
}

// applyOp performs operation op on the container and on the model and checks
// that observable results agree. Returns the new model and false when the
// model no longer predicts the container (after an error that may have
// consumed a length prefix).
func applyOp(c *Container, m []byte, op int, tag string) ([]byte, bool) {
	switch op {
	case 0:
		d := rt.BytesN(tag+".d", 0, 2)
		c.Append(d)
		return cat(m, d), true
	case 1:
		d := rt.BytesN(tag+".d", 0, 2)
		c.Prepend(d)
		return cat(d, m), true
	case 2:
		n := rt.U64(tag + ".n")
		c.AppendNumber(n)
		return cat(m, refPack(n)), true
	case 3:
		n := rt.U64(tag + ".n")
		c.PrependNumber(n)
		return cat(refPack(n), m), true
	case 4:
		n := rt.Int(tag + ".n")
		c.AppendInt(n)
		return cat(m, refPack(uint64(n))), true
	case 5:
		n := rt.Int(tag + ".n")
		c.PrependInt(n)
		return cat(refPack(uint64(n)), m), true
	case 6:
		d := rt.BytesN(tag+".d", 0, 2)
		c.AppendAsBlock(d)
		return cat(cat(m, refPack(uint64(len(d)))), d), true
	case 7:
		d := rt.BytesN(tag+".d", 0, 2)
		c.PrependAsBlock(d)
		return cat(cat(refPack(uint64(len(d))), d), m), true
	case 8:
		d1 := rt.BytesN(tag+".d1", 0, 2)
		d2 := rt.BytesN(tag+".d2", 0, 1)
		c.AppendContainer(New(d1, d2))
		return cat(cat(m, d1), d2), true
	case 9:
		d1 := rt.BytesN(tag+".d1", 0, 2)
		d2 := rt.BytesN(tag+".d2", 0, 1)
		c.AppendContainerAsBlock(New(d1, d2))
		return cat(cat(cat(m, refPack(uint64(len(d1)+len(d2)))), d1), d2), true
	case 10:
		rt.Assert(c.HoldsData() == (len(m) > 0), tag+"/holdsdata")
		return m, true
	case 11:
		rt.Assert(c.Length() == len(m), tag+"/length")
		return m, true
	case 12:
		d := rt.BytesN(tag+".d", 0, 2)
		c.Replace(d)
		return clone(d), true
	case 13:
		rt.Assert(rt.EqBytes(c.CompileData(), m), tag+"/compile")
		return m, true
	case 14:
		n := reqLen(tag+".n", len(m))
		got, err := c.Get(n)
		if n > len(m) {
			rt.Assert(err != nil, tag+"/get-too-much-errors")
			rt.Assert(got == nil, tag+"/get-error-nil")
			return m, true
		}
		rt.Assert(err == nil, tag+"/get-ok")
		if n <= 0 {
			rt.Assert(len(got) == 0, tag+"/get-nonpositive-empty")
			return m, true
		}
		rt.Assert(rt.EqBytes(got, m[:n]), tag+"/get-bytes")
		return m[n:], true
	case 15:
		got := c.GetAll()
		rt.Assert(rt.EqBytes(got, m), tag+"/getall-bytes")
		return nil, true
	case 16:
		n := reqLen(tag+".n", len(m))
		nc, err := c.GetAsContainer(n)
		if n < 0 || n > len(m) {
			rt.Assert(err != nil, tag+"/getascontainer-errors")
			rt.Assert(nc == nil, tag+"/getascontainer-error-nil")
			return m, true
		}
		rt.Assert(err == nil, tag+"/getascontainer-ok")
		if nc == nil {
			rt.Assert(false, tag+"/getascontainer-nonnil")
			return m, false
		}
		rt.Assert(rt.EqBytes(nc.CompileData(), m[:n]), tag+"/getascontainer-bytes")
		return m[n:], true
	case 17:
		n := reqLen(tag+".n", len(m))
		got := c.GetMax(n)
		want := 0
		if n > 0 {
			want = minInt(n, len(m))
		}
		rt.Assert(rt.EqBytes(got, m[:want]), tag+"/getmax-bytes")
		return m[want:], true
	case 18:
		k := rt.Len(tag+".k", 0, 3)
		buf := make([]byte, k)
		n, emptied := c.WriteToSlice(buf)
		want := minInt(k, len(m))
		rt.Assert(n == want, tag+"/writetoslice-n")
		rt.Assert(emptied == (len(m) <= k), tag+"/writetoslice-emptied")
		rt.Assert(rt.EqBytes(buf[:want], m[:want]), tag+"/writetoslice-bytes")
		return m[want:], true
	case 19:
		s := &byteSink{}
		err := c.WriteAllTo(s)
		rt.Assert(err == nil, tag+"/writeallto-ok")
		rt.Assert(rt.EqBytes(s.got, m), tag+"/writeallto-bytes")
		return m, true
	case 20:
		c.PrependLength()
		return cat(refPack(uint64(len(m))), m), true
	case 21:
		n := reqLen(tag+".n", len(m))
		got := c.Peek(n)
		want := 0
		if n > 0 {
			want = minInt(n, len(m))
		}
		rt.Assert(rt.EqBytes(got, m[:want]), tag+"/peek-bytes")
		return m, true
	case 22:
		n := reqLen(tag+".n", len(m))
		nc := c.PeekContainer(n)
		if n < 0 || n > len(m) {
			rt.Assert(nc == nil, tag+"/peekcontainer-nil")
			return m, true
		}
		if nc == nil {
			rt.Assert(false, tag+"/peekcontainer-nonnil")
			return m, true
		}
		rt.Assert(rt.EqBytes(nc.CompileData(), m[:n]), tag+"/peekcontainer-bytes")
		return m, true
	case 23, 24:
		v, vn, st := refDecode(m[:minInt(10, len(m))])
		var got []byte
		var err error
		if op == 23 {
			got, err = c.GetNextBlock()
		} else {
			var nc *Container
			nc, err = c.GetNextBlockAsContainer()
			if err == nil {
				if nc == nil {
					rt.Assert(false, tag+"/nextblock-container-nonnil")
					return m, false
				}
				got = nc.CompileData()
			}
		}
		if st != 0 {
			rt.Assert(err != nil, tag+"/nextblock-bad-prefix-errors")
			return m, true // nothing consumed on a prefix error
		}
		if v > uint64(len(m)-vn) {
			rt.Assert(err != nil, tag+"/nextblock-too-long-errors")
			return m, true // nothing consumed: the remaining data is not shifted
		}
		rt.Assert(err == nil, tag+"/nextblock-ok")
		if err != nil {
			return m, false
		}
		rt.Assert(rt.EqBytes(got, m[vn:vn+int(v)]), tag+"/nextblock-bytes")
		return m[vn+int(v):], true
	case 25, 26, 27, 28:
		width := []uint{8, 16, 32, 64}[op-25]
		peek := []int{2, 3, 5, 10}[op-25]
		v, vn, st := refDecode(m[:minInt(peek, len(m))])
		var got uint64
		var err error
		switch op {
		case 25:
			var x uint8
			x, err = c.GetNextN8()
			got = uint64(x)
		case 26:
			var x uint16
			x, err = c.GetNextN16()
			got = uint64(x)
		case 27:
			var x uint32
			x, err = c.GetNextN32()
			got = uint64(x)
		default:
			got, err = c.GetNextN64()
		}
		if st != 0 || (width < 64 && v>>width != 0) {
			rt.Assert(err != nil, tag+"/nextn-bad-errors")
			return m, true // nothing consumed
		}
		if err != nil {
			// only non-canonical paddings may be rejected
			rt.Assert(vn > len(refPack(v)), tag+"/nextn-rejects-only-noncanonical")
			return m, true
		}
		rt.Assert(got == v, tag+"/nextn-value")
		return m[vn:], true
	}
	return m, true
}

func opTag(op int) string {
	return [...]string{"append", "prepend", "appendnumber", "prependnumber", "appendint", "prependint",
		"appendasblock", "prependasblock", "appendcontainer", "appendcontainerasblock", "holdsdata", "length",
		"replace", "compiledata", "get", "getall", "getascontainer", "getmax", "writetoslice", "writeallto",
		"prependlength", "peek", "peekcontainer", "getnextblock", "getnextblockascontainer", "getnextn8",
		"getnextn16", "getnextn32", "getnextn64"}[op]
}

// ---- histories from constructor-built containers ----

// coreOps: a subset of the operations for the longest histories
var coreOps = []int{0, 1, 2, 6, 8, 12, 14, 17, 20, 21, 23, 25}

func history(steps int, maxSlices int) { historyOps(steps, maxSlices, false) }

func historyOps(steps int, maxSlices int, core bool) {
	k := rt.Len("k", 0, maxSlices)
	var parts [][]byte
	var m []byte
	for i := 0; i < k; i++ {
		d := rt.BytesN("init"+string(rune('0'+i)), 0, 2)
		parts = append(parts, d)
		m = cat(m, d)
	}
	c := New(parts...)
	ok := true
	for s := 0; s < steps && ok; s++ {
		var op int
		if core {
			// (package-level tables are initialised: the container package init runs)
			op = coreOps[rt.Choice("op"+string(rune('0'+s)), len(coreOps))]
		} else {
			op = rt.Choice("op"+string(rune('0'+s)), numOps)
		}
		m, ok = applyOp(c, m, op, opTag(op)+string(rune('0'+s)))
		if ok {
			agree(c, m, "after-"+opTag(op))
		}
	}
	rt.ObserveBytes("content", c.carbonCopy().CompileData())
	rt.Observe("offset", uint64(c.offset))
	rt.ObserveBool("model-predicts", ok)
	rt.Reach("history-end")
}

func VerifC16_History1() { history(1, 3) }

func VerifC16_History2() {
	if rt.Thorough() {
		history(2, 2)
	} else {
		rt.Reach("history-end")
	}
}

func VerifC16_History3() {
	if rt.Thorough() {
		historyOps(3, 1, true)
	} else {
		rt.Reach("history-end")
	}
}

// ---- inductive step from an arbitrary representation ----

// invariant I of the representation: 0 <= offset < len(compartments), or the
// compartment list is empty and offset == 0; compartments before the offset
// are empty (consumed compartments are set to nil, renewCompartments leaves
// zeroed slots).
func VerifC16_Step() {
	maxK := 3
	if rt.Thorough() {
		maxK = 4
	}
	k := rt.Len("k", 0, maxK)
	off := 0
	if k > 0 {
		off = rt.Len("off", 0, k-1)
	}
	c := &Container{offset: off}
	var m []byte
	spare := rt.Len("spare", 0, 1) // spare capacity in the compartment list
	c.compartments = make([][]byte, 0, k+spare)
	for i := 0; i < k; i++ {
		var d []byte
		if i >= off {
			d = rt.BytesN("c"+string(rune('0'+i)), 0, 2)
		}
		if i < off {
			d = nil // dead compartments are always empty in reachable states
		}
		c.compartments = append(c.compartments, d)
		if i >= off {
			m = cat(m, d)
		}
	}
	op := rt.Choice("op", numOps)
	var ok bool
	m, ok = applyOp(c, m, op, opTag(op))
	// invariant is preserved
	rt.Assert(c.offset >= 0, "inv/offset-nonneg")
	rt.Assert(rt.Any(c.offset < len(c.compartments), rt.All(c.offset == 0, len(c.compartments) == 0)), "inv/offset-in-range")
	for i := 0; i < c.offset && i < len(c.compartments); i++ {
		rt.Assert(len(c.compartments[i]) == 0, "inv/dead-compartments-empty")
	}
	if ok {
		agree(c, m, "after-"+opTag(op))
	}
	rt.ObserveBytes("content", c.carbonCopy().CompileData())
	rt.Observe("offset", uint64(c.offset))
	rt.ObserveBool("model-predicts", ok)
	rt.Reach("step-end")
}

// ---- long length prefixes: one compartment of 9..11 bytes, prefix-reading ops ----

func VerifC16_LongPrefix() {
	d := rt.BytesN("d", 9, 11)
	c := New(d)
	m := clone(d)
	op := 23 + rt.Choice("op", 6)
	var ok bool
	m, ok = applyOp(c, m, op, opTag(op))
	if ok {
		agree(c, m, "after-"+opTag(op))
	}
	rt.ObserveBytes("content", c.carbonCopy().CompileData())
	rt.Observe("offset", uint64(c.offset))
	rt.ObserveBool("model-predicts", ok)
	rt.Reach("longprefix-end")
}
