package config

// C04 harnesses: config getters return the layered, validated, current value.

import (
	"errors"
	"os"
	"regexp"
	"sync/atomic"

	"github.com/tevino/abool"

	rt "github.com/safing/portbase/zz_verifrt"
)

// the package init (module registration, option registration with regular
// expressions) is not executed by the engine: build the state directly
func c04Reset() {
	optionsLock.Lock()
	options = make(map[string]*Option)
	optionsLock.Unlock()
	validityFlagLock.Lock()
	validityFlag = abool.NewBool(true)
	validityFlagLock.Unlock()
	if releaseLevel == nil {
		releaseLevel = new(int32)
	}
	atomic.StoreInt32(releaseLevel, 0)
	if releaseLevelOptionFlag == nil {
		releaseLevelOptionFlag = abool.New()
	}
	if expertiseLevelOptionFlag == nil {
		expertiseLevelOptionFlag = abool.New()
	}
	expertiseLevelOptionFlag.UnSet()
	releaseLevelOption = &Option{
		Name: "Feature Stability", Key: releaseLevelKey, Description: "d",
		OptType: OptTypeString, DefaultValue: ReleaseLevelNameStable,
		activeFallbackValue: &valueCache{stringVal: ReleaseLevelNameStable},
	}
	options[releaseLevelKey] = releaseLevelOption
	releaseLevelOptionFlag.Set()
}

func addOption(key string, t OptionType, level ReleaseLevel, fallback *valueCache) *Option {
	o := &Option{Name: key, Key: key, Description: "d", OptType: t, ReleaseLevel: level, activeFallbackValue: fallback}
	optionsLock.Lock()
	options[key] = o
	optionsLock.Unlock()
	return o
}

func levelName(l int) string {
	switch l {
	case 1:
		return ReleaseLevelNameBeta
	case 2:
		return ReleaseLevelNameExperimental
	}
	return ReleaseLevelNameStable
}

// ---- O1: layering for all four types ----

func VerifC04_Layering() {
	c04Reset()
	optLevel := ReleaseLevel(rt.Choice("optlevel", 3))
	effective := rt.Choice("effective", 3)
	atomic.StoreInt32(releaseLevel, int32(effective))
	hasUser, hasDefault := rt.Bool("hasuser"), rt.Bool("hasdefault")
	userVisible := rt.All(hasUser, int(optLevel) <= effective)
	switch rt.Choice("type", 4) {
	case 0:
		o := addOption("k", OptTypeInt, optLevel, &valueCache{intVal: rt.I64("fallback")})
		u, d := rt.I64("user"), rt.I64("default")
		if hasUser {
			o.activeValue = &valueCache{intVal: u}
		}
		if hasDefault {
			o.activeDefaultValue = &valueCache{intVal: d}
		}
		want := int64(rt.IteU64(userVisible, uint64(u), rt.IteU64(hasDefault, uint64(d), uint64(o.activeFallbackValue.intVal))))
		rt.Assert(GetAsInt("k", -1)() == want, "layering/int")
		rt.Assert(Concurrent.GetAsInt("k", -1)() == want, "layering/int-concurrent")
		// wrong type and unknown key give the fallback argument
		rt.Assert(GetAsString("k", "fb")() == "fb", "layering/wrong-type-fallback")
		rt.Assert(GetAsInt("unknown", 77)() == 77, "layering/unknown-key-fallback")
	case 1:
		o := addOption("k", OptTypeBool, optLevel, &valueCache{boolVal: rt.Bool("fallback")})
		u, d := rt.Bool("user"), rt.Bool("default")
		if hasUser {
			o.activeValue = &valueCache{boolVal: u}
		}
		if hasDefault {
			o.activeDefaultValue = &valueCache{boolVal: d}
		}
		want := rt.Any(rt.All(userVisible, u), rt.All(!userVisible, hasDefault, d), rt.All(!userVisible, !hasDefault, o.activeFallbackValue.boolVal))
		rt.Assert(GetAsBool("k", false)() == want, "layering/bool")
		rt.Assert(Concurrent.GetAsBool("k", false)() == want, "layering/bool-concurrent")
		rt.Assert(GetAsInt("k", 5)() == 5, "layering/wrong-type-fallback")
	case 2:
		o := addOption("k", OptTypeString, optLevel, &valueCache{stringVal: "F"})
		if hasUser {
			o.activeValue = &valueCache{stringVal: "U"}
		}
		if hasDefault {
			o.activeDefaultValue = &valueCache{stringVal: "D"}
		}
		want := "F"
		if hasDefault {
			want = "D"
		}
		if userVisible {
			want = "U"
		}
		rt.Assert(GetAsString("k", "x")() == want, "layering/string")
		rt.Assert(Concurrent.GetAsString("k", "x")() == want, "layering/string-concurrent")
		rt.Assert(GetAsBool("k", true)(), "layering/wrong-type-fallback")
	case 3:
		o := addOption("k", OptTypeStringArray, optLevel, &valueCache{stringArrayVal: []string{"F"}})
		if hasUser {
			o.activeValue = &valueCache{stringArrayVal: []string{"U"}}
		}
		if hasDefault {
			o.activeDefaultValue = &valueCache{stringArrayVal: []string{"D"}}
		}
		want := "F"
		if hasDefault {
			want = "D"
		}
		if userVisible {
			want = "U"
		}
		got := GetAsStringArray("k", nil)()
		rt.Assert(len(got) == 1 && got[0] == want, "layering/stringarray")
		got2 := Concurrent.GetAsStringArray("k", nil)()
		rt.Assert(len(got2) == 1 && got2[0] == want, "layering/stringarray-concurrent")
	}
	rt.Reach("layering-end")
}

// ---- O2: effective release level follows the release-level option's own layering ----

func VerifC04_ReleaseLevel() {
	c04Reset()
	getter := GetAsString(releaseLevelKey, "none")
	steps := rt.Len("steps", 1, 2)
	for s := 0; s < steps; s++ {
		tag := "s" + string(rune('0'+s))
		lvl := rt.Choice(tag+".level", 4) // 3 = clear the layer
		var v interface{}
		if lvl < 3 {
			v = levelName(lvl)
		}
		var err error
		if rt.Bool(tag + ".defaultlayer") {
			err = setDefaultConfigOption(releaseLevelKey, v, false)
		} else {
			err = setConfigOption(releaseLevelKey, v, false)
		}
		rt.Assert(err == nil, "release/set-ok")
		name := getter()
		wantLevel := ReleaseLevelStable
		switch name {
		case ReleaseLevelNameBeta:
			wantLevel = ReleaseLevelBeta
		case ReleaseLevelNameExperimental:
			wantLevel = ReleaseLevelExperimental
		}
		rt.Assert(getReleaseLevel() == wantLevel, "release/effective-level-matches-option-value")
	}
	rt.Reach("release-end")
}

// ---- O3: single-option set: type matrix, validation function, nil clears ----


func VerifC04_SetMatrix() {
	c04Reset()
	optType := []OptionType{OptTypeString, OptTypeStringArray, OptTypeInt, OptTypeBool}[rt.Choice("opttype", 4)]
	o := addOption("k", optType, ReleaseLevelStable, &valueCache{})
	funcVerdict := rt.Bool("validationfunc.ok")
	errInvalid := errors.New("not valid") // (package init is not executed by the engine)
	if rt.Bool("hasvalidationfunc") {
		// (a validation function as users of the package write them: it
		// expects the value in the option type's own Go type - int64, string,
		// bool, []string - whatever type the caller or a JSON document had)
		o.ValidationFunc = func(val interface{}) error {
			canonical := false
			switch val.(type) {
			case int64:
				canonical = optType == OptTypeInt
			case string:
				canonical = optType == OptTypeString
			case bool:
				canonical = optType == OptTypeBool
			case []string:
				canonical = optType == OptTypeStringArray
			}
			if funcVerdict && canonical {
				return nil
			}
			return errInvalid
		}
	}
	// (possibly with a value migration that leaves current values as they are)
	if rt.Bool("hasmigration") {
		o.Migrations = []MigrationFunc{func(_ *Option, v any) any { return v }}
	}
	prevUser := &valueCache{intVal: 1, stringVal: "p", boolVal: true, stringArrayVal: []string{"p"}}
	prevDefault := &valueCache{intVal: 2, stringVal: "q"}
	o.activeValue, o.activeDefaultValue = prevUser, prevDefault
	var v interface{}
	valType := OptionType(0)
	var wantInt int64
	switch rt.Choice("valkind", 13) {
	case 0:
		v, valType = "s", OptTypeString
	case 1:
		v, valType = []string{"a", "b"}, OptTypeStringArray
	case 2:
		v, valType = []interface{}{"a", "b"}, OptTypeStringArray
	case 3:
		x := rt.I64("int64")
		v, valType, wantInt = x, OptTypeInt, x
	case 4:
		x := int(rt.I64("int"))
		v, valType, wantInt = x, OptTypeInt, int64(x)
	case 5:
		x := rt.I8("int8")
		v, valType, wantInt = x, OptTypeInt, int64(x)
	case 6:
		x := rt.I16("int16")
		v, valType, wantInt = x, OptTypeInt, int64(x)
	case 7:
		x := rt.I32("int32")
		v, valType, wantInt = x, OptTypeInt, int64(x)
	case 8:
		x := rt.U8("uint8")
		v, valType, wantInt = x, OptTypeInt, int64(x)
	case 9:
		x := rt.U16("uint16")
		v, valType, wantInt = x, OptTypeInt, int64(x)
	case 10:
		x := rt.U32("uint32")
		v, valType, wantInt = x, OptTypeInt, int64(x)
	case 11:
		v, valType = rt.Bool("boolval"), OptTypeBool
	case 12:
		v, valType = []interface{}{"a", 5}, 0 // not a string list: always invalid
	}
	useDefaultLayer := rt.Bool("defaultlayer")
	var err error
	if useDefaultLayer {
		err = setDefaultConfigOption("k", v, false)
	} else {
		err = setConfigOption("k", v, false)
	}
	valid := rt.All(valType == optType, rt.Any(o.ValidationFunc == nil, funcVerdict))
	rt.Assert((err == nil) == valid, "set/accepted-iff-valid")
	layer, other, prev, prevOther := o.activeValue, o.activeDefaultValue, prevUser, prevDefault
	if useDefaultLayer {
		layer, other, prev, prevOther = o.activeDefaultValue, o.activeValue, prevDefault, prevUser
	}
	rt.Assert(other == prevOther, "set/other-layer-untouched")
	if !valid {
		rt.Assert(layer == prev, "set/invalid-leaves-option-unchanged")
		rt.Reach("set-rejected")
	} else {
		rt.Assert(layer != nil && layer != prev, "set/valid-installs-new-value")
		if layer != nil {
			switch optType {
			case OptTypeInt:
				rt.Assert(layer.intVal == wantInt, "set/int-value")
			case OptTypeString:
				rt.Assert(layer.stringVal == "s", "set/string-value")
			case OptTypeBool:
				rt.Assert(layer.boolVal == v.(bool), "set/bool-value")
			case OptTypeStringArray:
				rt.Assert(len(layer.stringArrayVal) == 2 && layer.stringArrayVal[0] == "a" && layer.stringArrayVal[1] == "b", "set/stringarray-value")
			}
		}
		rt.Reach("set-accepted")
	}
	// nil clears the layer
	if useDefaultLayer {
		err = setDefaultConfigOption("k", nil, false)
		rt.Assert(err == nil && o.activeDefaultValue == nil, "set/nil-clears-default-layer")
	} else {
		err = setConfigOption("k", nil, false)
		rt.Assert(err == nil && o.activeValue == nil, "set/nil-clears-user-layer")
	}
	rt.Assert(setConfigOption("unknown", 1, false) != nil, "set/unknown-option-rejected")
}

// ---- O4: whole-layer replace installs exactly the valid entries ----

func VerifC04_Replace() {
	c04Reset()
	a := addOption("a", OptTypeInt, ReleaseLevelStable, &valueCache{intVal: 0})
	b := addOption("b", OptTypeString, ReleaseLevelStable, &valueCache{stringVal: "f"})
	old := &valueCache{intVal: 9}
	a.activeValue, b.activeValue = old, &valueCache{stringVal: "old"}
	a.activeDefaultValue, b.activeDefaultValue = old, &valueCache{stringVal: "old"}
	m := map[string]interface{}{}
	aIn, aValid := rt.Bool("a.present"), rt.Bool("a.valid")
	bIn, bValid := rt.Bool("b.present"), rt.Bool("b.valid")
	av := rt.I64("a.value")
	if aIn {
		if aValid {
			m["a"] = av
		} else {
			m["a"] = "not an int"
		}
	}
	if bIn {
		if bValid {
			m["b"] = "new"
		} else {
			m["b"] = true
		}
	}
	m["unknown"] = 1
	defaultLayer := rt.Bool("defaultlayer")
	var errs []*ValidationError
	if defaultLayer {
		errs, _ = ReplaceDefaultConfig(m)
	} else {
		errs, _ = ReplaceConfig(m)
	}
	wantErrs := 0
	if aIn && !aValid {
		wantErrs++
	}
	if bIn && !bValid {
		wantErrs++
	}
	rt.Assert(len(errs) == wantErrs, "replace/invalid-entries-reported")
	la, lb := a.activeValue, b.activeValue
	oa, ob := a.activeDefaultValue, b.activeDefaultValue
	if defaultLayer {
		la, lb, oa, ob = a.activeDefaultValue, b.activeDefaultValue, a.activeValue, b.activeValue
	}
	rt.Assert(oa == old && ob != nil && ob.stringVal == "old", "replace/other-layer-untouched")
	if aIn && aValid {
		rt.Assert(la != nil && la.intVal == av, "replace/valid-entry-installed")
	} else {
		rt.Assert(la == nil, "replace/absent-or-invalid-entry-cleared")
	}
	if bIn && bValid {
		rt.Assert(lb != nil && lb.stringVal == "new", "replace/valid-entry-installed")
	} else {
		rt.Assert(lb == nil, "replace/absent-or-invalid-entry-cleared")
	}
	rt.Assert(releaseLevelOption.activeValue == nil || defaultLayer, "replace/release-option-cleared-too")
	rt.Reach("replace-end")
}

// a replace that changes the release level - also by leaving the release-level
// option out of the new configuration - is a release-level change: the
// effective level follows, and with it which options use their user value
func VerifC04_ReplaceReleaseLevel() {
	c04Reset()
	x := addOption("x", OptTypeString, ReleaseLevel(rt.Choice("x.level", 3)), &valueCache{stringVal: "fallback"})
	levelGetter := GetAsString(releaseLevelKey, "none")
	xGetter := GetAsString("x", "none")
	xConc := Concurrent.GetAsString("x", "none")
	// before: a level set in one of the layers
	before := rt.Choice("before.level", 3)
	beforeDefault := rt.Bool("before.defaultlayer")
	var err error
	if beforeDefault {
		err = setDefaultConfigOption(releaseLevelKey, levelName(before), false)
	} else {
		err = setConfigOption(releaseLevelKey, levelName(before), false)
	}
	rt.Assert(err == nil, "replacelevel/set-ok")
	if rt.Bool("x.default") {
		rt.Assert(setDefaultConfigOption("x", "default", false) == nil, "replacelevel/set-ok")
	}
	// the replacing configuration
	m := map[string]interface{}{}
	if rt.Bool("x.user") {
		m["x"] = "user"
	}
	newLvl := rt.Choice("new.level", 4) // 3 = not mentioned
	if newLvl < 3 {
		m[releaseLevelKey] = levelName(newLvl)
	}
	replaceDefault := rt.Bool("replace.defaultlayer")
	if replaceDefault {
		_, _ = ReplaceDefaultConfig(m)
	} else {
		_, _ = ReplaceConfig(m)
	}
	// the effective level is the one the release-level option now has
	name := levelGetter()
	wantLevel := ReleaseLevelStable
	switch name {
	case ReleaseLevelNameBeta:
		wantLevel = ReleaseLevelBeta
	case ReleaseLevelNameExperimental:
		wantLevel = ReleaseLevelExperimental
	}
	rt.Assert(getReleaseLevel() == wantLevel, "replacelevel/effective-level-matches-option-value")
	// and the option's value follows the layering rule under that level
	want := "fallback"
	if x.activeDefaultValue != nil {
		want = x.activeDefaultValue.stringVal
	}
	if x.activeValue != nil && x.ReleaseLevel <= wantLevel {
		want = x.activeValue.stringVal
	}
	rt.Assert(xGetter() == want, "replacelevel/getter-follows-the-new-level")
	rt.Assert(xConc() == want, "replacelevel/concurrent-getter-follows-the-new-level")
	rt.Reach("replacelevel-end")
}

// ---- O5: currency: getters created before a change observe it afterwards ----

func VerifC04_Currency() {
	c04Reset()
	addOption("k", OptTypeInt, ReleaseLevelStable, &valueCache{intVal: 0})
	plain := GetAsInt("k", -1)
	safe := Concurrent.GetAsInt("k", -1)
	rt.Assert(plain() == 0 && safe() == 0, "currency/initial")
	x, y := rt.I64("x"), rt.I64("y")
	rt.Assert(setConfigOption("k", x, false) == nil, "currency/set-ok")
	rt.Assert(plain() == x, "currency/plain-getter-sees-new-value")
	rt.Assert(safe() == x, "currency/safe-getter-sees-new-value")
	_, _ = ReplaceConfig(map[string]interface{}{"k": y})
	rt.Assert(plain() == y, "currency/plain-getter-sees-replaced-value")
	rt.Assert(safe() == y, "currency/safe-getter-sees-replaced-value")
	rt.Assert(setConfigOption("k", nil, false) == nil, "currency/clear-ok")
	rt.Assert(plain() == 0 && safe() == 0, "currency/getters-see-cleared-value")
	rt.Reach("currency-end")
}

// a setter racing with the refresh of a concurrency-safe getter in another
// goroutine (G2, one preemption at any synchronisation operation): a getter
// call that begins after the set returned observes the new value
func VerifC04_ConcurrentGetterRace() {
	rt.NoTimers()
	rt.SchedYieldOnly(true)
	rt.Preemptions(1)
	rt.PreemptedRunLast(true)
	c04Reset()
	kind := rt.Choice("kind", 3)
	var read func() int64
	switch kind {
	case 0:
		addOption("k", OptTypeInt, ReleaseLevelStable, &valueCache{intVal: 0})
		g := Concurrent.GetAsInt("k", -1)
		read = func() int64 { return g() }
	case 1:
		addOption("k", OptTypeBool, ReleaseLevelStable, &valueCache{boolVal: false})
		g := Concurrent.GetAsBool("k", false)
		read = func() int64 {
			if g() {
				return 3
			}
			return 2
		}
	case 2:
		addOption("k", OptTypeString, ReleaseLevelStable, &valueCache{stringVal: ""})
		g := Concurrent.GetAsString("k", "")
		read = func() int64 { return int64(len(g())) }
	}
	val := func(n int64) interface{} {
		switch kind {
		case 1:
			return n == 3
		case 2:
			return "xxx"[:n]
		}
		return n
	}
	rt.Assert(setConfigOption("k", val(2), false) == nil, "getterrace/first-set-ok")
	rt.Assert(read() == 2, "getterrace/initial")
	// the getter's cached value is outdated by a further (same) set; its next
	// call refreshes - in another goroutine, while the value is set to 3 here
	rt.Assert(setConfigOption("k", val(2), false) == nil, "getterrace/second-set-ok")
	done := make(chan struct{})
	if rt.Bool("refresh-parked-at-the-validity-flag") {
		// the same race made deterministic (also natively): the refresh is parked
		// where it fetches the validity flag, by holding the flag's lock; the set
		// is done in its two steps by hand (store the validated value, replace
		// the flag - what setConfigOption and signalChanges do), then the lock is
		// released
		validityFlagLock.Lock()
		go func() {
			_ = read()
			close(done)
		}()
		rt.Yield()
		rt.NativePause()
		o, _ := GetOption("k")
		vc, verr := validateValue(o, val(3))
		rt.Assert(verr == nil, "getterrace/value-valid")
		o.Lock()
		o.activeValue = vc
		o.Unlock()
		validityFlag.SetTo(false)
		validityFlag = abool.NewBool(true)
		validityFlagLock.Unlock()
		<-done
	} else {
		go func() {
			_ = read()
			close(done)
		}()
		rt.Yield() // the refresh may be anywhere (it is preempted at most once)
		rt.Assert(setConfigOption("k", val(3), false) == nil, "getterrace/racing-set-ok")
		<-done
	}
	rt.Assert(read() == 3, "getterrace/getter-call-after-the-set-observes-the-new-value")
	rt.Reach("getterrace-end")
}

// one concurrency-safe getter shared by two goroutines: after a completed set,
// both calls observe the new value - also while the first one is still in the
// middle of its refresh (parked on the option's lock, which the harness holds)
func VerifC04_ConcurrentGetterShared() {
	rt.NoTimers()
	rt.SchedYieldOnly(true)
	c04Reset()
	kind := rt.Choice("kind", 4)
	var read func() int64
	switch kind {
	case 0:
		addOption("k", OptTypeInt, ReleaseLevelStable, &valueCache{intVal: 0})
		g := Concurrent.GetAsInt("k", -1)
		read = func() int64 { return g() }
	case 1:
		addOption("k", OptTypeBool, ReleaseLevelStable, &valueCache{boolVal: false})
		g := Concurrent.GetAsBool("k", false)
		read = func() int64 {
			if g() {
				return 3
			}
			return 2
		}
	case 2:
		addOption("k", OptTypeString, ReleaseLevelStable, &valueCache{stringVal: ""})
		g := Concurrent.GetAsString("k", "")
		read = func() int64 { return int64(len(g())) }
	case 3:
		addOption("k", OptTypeStringArray, ReleaseLevelStable, &valueCache{stringArrayVal: []string{}})
		g := Concurrent.GetAsStringArray("k", nil)
		read = func() int64 { return int64(len(g())) }
	}
	val := func(n int64) interface{} {
		switch kind {
		case 1:
			return n == 3
		case 2:
			return "xxx"[:n]
		case 3:
			return []string{"a", "b", "c"}[:n]
		}
		return n
	}
	rt.Assert(setConfigOption("k", val(2), false) == nil, "gettershared/first-set-ok")
	rt.Assert(read() == 2, "gettershared/initial")
	rt.Assert(setConfigOption("k", val(3), false) == nil, "gettershared/second-set-ok")
	// the set has returned; two goroutines now use the getter
	o, _ := GetOption("k")
	o.Lock() // the first caller's refresh parks where it fetches the value
	var a, b int64
	doneA, doneB := make(chan struct{}), make(chan struct{})
	go func() {
		a = read()
		close(doneA)
	}()
	rt.Yield()
	rt.NativePause()
	go func() {
		b = read()
		close(doneB)
	}()
	rt.Yield()
	rt.NativePause()
	o.Unlock()
	<-doneA
	<-doneB
	rt.Assert(a == 3, "gettershared/first-caller-observes-the-new-value")
	rt.Assert(b == 3, "gettershared/second-caller-observes-the-new-value")
	rt.Reach("gettershared-end")
}

// getters of the wrong type and for unknown options keep returning their
// fallback, also after the configuration changed (getters refresh then)
func VerifC04_FallbackCurrency() {
	c04Reset()
	addOption("s", OptTypeString, ReleaseLevelStable, &valueCache{stringVal: "dflt"})
	addOption("l", OptTypeStringArray, ReleaseLevelStable, &valueCache{stringArrayVal: []string{"d"}})
	addOption("n", OptTypeInt, ReleaseLevelStable, &valueCache{intVal: 1})
	wrongInt := GetAsInt("s", 42)
	wrongStr := GetAsString("n", "fallback")
	wrongBool := Concurrent.GetAsBool("l", true)
	wrongList := GetAsStringArray("n", []string{"fb"})
	safeWrongInt := Concurrent.GetAsInt("l", -5)
	unknown := GetAsInt("nope", 7)
	check := func(tag string) {
		rt.Assert(wrongInt() == 42, tag+"/wrong-type-int-getter-returns-fallback")
		rt.Assert(wrongStr() == "fallback", tag+"/wrong-type-string-getter-returns-fallback")
		rt.Assert(wrongBool(), tag+"/wrong-type-bool-getter-returns-fallback")
		l := wrongList()
		rt.Assert(len(l) == 1 && l[0] == "fb", tag+"/wrong-type-list-getter-returns-fallback")
		rt.Assert(safeWrongInt() == -5, tag+"/wrong-type-concurrent-getter-returns-fallback")
		rt.Assert(unknown() == 7, tag+"/unknown-option-getter-returns-fallback")
	}
	check("fallback-fresh")
	switch rt.Choice("change", 4) {
	case 0:
		rt.Assert(setConfigOption("s", "new", false) == nil, "fallback/set-ok")
	case 1:
		rt.Assert(setDefaultConfigOption("n", 9, false) == nil, "fallback/setdefault-ok")
	case 2:
		_, _ = ReplaceConfig(map[string]interface{}{"n": 3})
	case 3:
		_, _ = ReplaceDefaultConfig(map[string]interface{}{"s": "x"})
	}
	check("fallback-after-change")
	rt.Reach("fallbackcurrency-end")
}

// ---- O6: values are validated against the option's regular expression
// (string options: the value; string lists: every entry) ----

func c04RefMatch(pattern int, s string) bool {
	switch pattern {
	case 0: // ^(on|off)$
		return rt.Any(rt.EqStr(s, "on"), rt.EqStr(s, "off"))
	case 1: // ^[a-z]+[0-9]?$
		if len(s) == 0 {
			return false
		}
		letters := len(s)
		last := s[len(s)-1]
		ok := true
		if last >= '0' && last <= '9' {
			letters--
		}
		if letters == 0 {
			return false
		}
		for i := 0; i < letters; i++ {
			if !(s[i] >= 'a' && s[i] <= 'z') {
				ok = false
			}
		}
		return ok
	}
	// ^(a|ab)c*$
	rest := s
	if len(rest) >= 2 && rest[0] == 'a' && rest[1] == 'b' {
		all := true
		for i := 2; i < len(rest); i++ {
			if rest[i] != 'c' {
				all = false
			}
		}
		if all {
			return true
		}
	}
	if len(rest) >= 1 && rest[0] == 'a' {
		for i := 1; i < len(rest); i++ {
			if rest[i] != 'c' {
				return false
			}
		}
		return true
	}
	return false
}

func VerifC04_RegexValidation() {
	c04Reset()
	pattern := rt.Choice("pattern", 3)
	list := rt.Bool("stringlist")
	optType := OptTypeString
	if list {
		optType = OptTypeStringArray
	}
	o := addOption("k", optType, ReleaseLevelStable, &valueCache{})
	o.compiledRegex = regexp.MustCompile([]string{`^(on|off)$`, `^[a-z]+[0-9]?$`, `^(a|ab)c*$`}[pattern])
	prev := &valueCache{stringVal: "p", stringArrayVal: []string{"p"}}
	o.activeValue = prev
	ascii := func(s string) {
		for i := 0; i < len(s); i++ {
			rt.Assume(s[i] < 0x80)
		}
	}
	var v interface{}
	valid := true
	if list {
		n := rt.Len("entries", 0, 2)
		var entries []string
		for i := 0; i < n; i++ {
			e := rt.StrN("entry"+string(rune('0'+i)), 0, 2)
			ascii(e)
			entries = append(entries, e)
			valid = rt.All(valid, c04RefMatch(pattern, e))
		}
		if rt.Bool("asinterfaces") {
			var iv []interface{}
			for _, e := range entries {
				iv = append(iv, e)
			}
			v = iv
			if n == 0 {
				v = []interface{}{}
			}
		} else {
			v = entries
			if n == 0 {
				v = []string{}
			}
		}
	} else {
		s := rt.StrN("value", 0, 3)
		ascii(s)
		v = s
		valid = c04RefMatch(pattern, s)
	}
	err := setConfigOption("k", v, false)
	rt.ObserveBool("accepted", err == nil)
	rt.Assert((err == nil) == valid, "regex/accepted-iff-every-entry-matches")
	if err != nil {
		rt.Assert(o.activeValue == prev, "regex/invalid-leaves-option-unchanged")
		rt.Reach("regex-rejected")
	} else {
		rt.Assert(o.activeValue != nil && o.activeValue != prev, "regex/valid-installs-new-value")
		rt.Reach("regex-accepted")
	}
}

// ---- O6b: allowed values: a set (or a whole-layer replace) accepts a value of
// an option with possible values iff it is one of them - for every option
// type, with an explicit validation pattern that is looser than the list, and
// for nil (JSON null) ----

func VerifC04_PossibleValues() {
	c04Reset()
	kind := rt.Choice("kind", 3) // string, int, string list
	var o *Option
	prev := &valueCache{stringVal: "p", intVal: 99, stringArrayVal: []string{"p"}}
	switch kind {
	case 0:
		o = addOption("k", OptTypeString, ReleaseLevelStable, &valueCache{})
		o.PossibleValues = []PossibleValue{{Name: "A", Value: "aa"}, {Name: "B", Value: "b"}}
	case 1:
		o = addOption("k", OptTypeInt, ReleaseLevelStable, &valueCache{})
		o.PossibleValues = []PossibleValue{{Name: "one", Value: 1}, {Name: "seven", Value: 7}, {Name: "big", Value: 300}}
	case 2:
		o = addOption("k", OptTypeStringArray, ReleaseLevelStable, &valueCache{})
		o.PossibleValues = []PossibleValue{{Name: "A", Value: "aa"}, {Name: "B", Value: "b"}}
	}
	// the validation pattern: derived from the list (as Register does), or an
	// explicit one that admits more than the list
	if rt.Bool("explicit-looser-pattern") {
		o.compiledRegex = regexp.MustCompile(`^[a-z0-9]+$`)
	} else if kind == 1 {
		o.compiledRegex = regexp.MustCompile(`^(1|7|300)$`)
	} else {
		o.compiledRegex = regexp.MustCompile(`^(aa|b)$`)
	}
	o.activeValue = prev

	var v interface{}
	allowed := false
	switch rt.Choice("value", 6) {
	case 4: // a byte slice (a Go value a string converts to)
		v = []byte("aa")
	case 5: // narrow integer types (a possible value may not survive the conversion)
		if rt.Bool("uint8") {
			v = uint8(44)
		} else {
			v = int8(7)
		}
		allowed = kind == 1 && !rt.Symbolic() && false
		if kind == 1 {
			if _, isInt8 := v.(int8); isInt8 {
				allowed = true // 7 is in the list
			}
		}
	case 0: // a string
		str := rt.StrN("s", 0, 2)
		for i := 0; i < len(str); i++ {
			rt.Assume(str[i] < 0x80)
		}
		v = str
		allowed = kind == 0 && (str == "aa" || str == "b")
	case 1: // an integer, as int64 or as the float64 a JSON document yields
		n := []int64{0, 1, 7, 8}[rt.Choice("n", 4)]
		if rt.Bool("as-json-number") {
			v = float64(n)
		} else {
			v = n
		}
		allowed = kind == 1 && (n == 1 || n == 7)
	case 2: // a string list
		cnt := rt.Len("entries", 0, 2)
		list := []string{}
		ok := true
		for i := 0; i < cnt; i++ {
			e := rt.StrN("e"+string(rune('0'+i)), 0, 2)
			for j := 0; j < len(e); j++ {
				rt.Assume(e[j] < 0x80)
			}
			list = append(list, e)
			ok = ok && (e == "aa" || e == "b")
		}
		if rt.Bool("as-interfaces") {
			iv := []interface{}{}
			for _, e := range list {
				iv = append(iv, e)
			}
			v = iv
		} else {
			v = list
		}
		allowed = kind == 2 && ok
	case 3: // JSON null in a configuration file
		v = nil
	}
	if rt.Bool("replace") {
		// whole-layer replace: the entry is installed or reported
		verrs, _ := ReplaceConfig(map[string]interface{}{"k": v})
		if v == nil {
			// JSON null: reported as invalid or taken as "no value" - not a crash
			rt.Assert(o.activeValue == nil, "possible/null-entry-installs-nothing")
			rt.Reach("possible-null-in-replace")
			return
		}
		rt.Assert((len(verrs) == 0) == allowed, "possible/replace-installs-iff-allowed")
		rt.Assert((o.activeValue != nil) == allowed, "possible/replace-installs-exactly-the-valid-entry")
		rt.Reach("possible-replace")
		return
	}
	err := setConfigOption("k", v, false)
	if v == nil {
		// setting nil clears the user value: not a validation case
		rt.Reach("possible-nil-clears")
		return
	}
	rt.Assert((err == nil) == allowed, "possible/accepted-iff-allowed")
	if err != nil {
		rt.Assert(o.activeValue == prev, "possible/refused-leaves-option-unchanged")
		rt.Reach("possible-refused")
	} else {
		rt.Reach("possible-accepted")
	}
}

// ---- O7: saving the configuration and loading it again restores exactly the
// same user-set values ----

// the configuration file and the JSON codec as the harness models them under
// the engine (natively: a real file in the sandbox and encoding/json)
var (
	c04File    []byte
	c04FileSet bool
	c04Encoded interface{}
)

// VerifModel_os_WriteFile / ReadFile: one file, contents kept.
func VerifModel_os_WriteFile(name string, data []byte, perm os.FileMode) error {
	c04File, c04FileSet = data, true
	return nil
}

func VerifModel_os_ReadFile(name string) ([]byte, error) {
	if !c04FileSet {
		return nil, errors.New("file does not exist")
	}
	return c04File, nil
}

// VerifModel_json_MarshalIndent keeps the value; Unmarshal hands back a copy
// with JSON's typing: integers become float64, string lists []interface{}.
func VerifModel_json_MarshalIndent(v interface{}, prefix, indent string) ([]byte, error) {
	c04Encoded = v
	return []byte("{}"), nil
}

func c04JSONCopy(v interface{}) interface{} {
	switch x := v.(type) {
	case map[string]interface{}:
		out := make(map[string]interface{}, len(x))
		for k, e := range x {
			out[k] = c04JSONCopy(e)
		}
		return out
	case int64:
		return float64(x)
	case []string:
		if x == nil {
			return nil // a nil slice is encoded as null
		}
		out := make([]interface{}, len(x))
		for i, e := range x {
			out[i] = e
		}
		return out
	}
	return v
}

func VerifModel_json_Unmarshal(data []byte, v interface{}) error {
	target, ok := v.(*map[string]interface{})
	if !ok {
		return errors.New("unsupported target")
	}
	m, _ := c04JSONCopy(c04Encoded).(map[string]interface{})
	*target = m
	return nil
}

func VerifC04_SaveLoad() {
	c04Reset()
	c04File, c04FileSet, c04Encoded = nil, false, nil
	configFilePath = rt.Root("/cfg") + "/config.json"
	// options of three release levels and all four types, some with user values
	type optSpec struct {
		key   string
		t     OptionType
		level ReleaseLevel
		val   *valueCache
	}
	specs := []optSpec{
		{"a/int", OptTypeInt, ReleaseLevelStable, &valueCache{intVal: 42}},
		{"a/str", OptTypeString, ReleaseLevelBeta, &valueCache{stringVal: "user"}},
		{"b/list", OptTypeStringArray, ReleaseLevelExperimental, &valueCache{stringArrayVal: []string{"x", "y"}}},
		{"flag", OptTypeBool, ReleaseLevelStable, &valueCache{boolVal: true}},
		// a large integer with a validation pattern (JSON decodes it as a float)
		{"a/big", OptTypeInt, ReleaseLevelStable, &valueCache{intVal: 30000000}},
		// an empty list that was set as a nil slice
		{"b/none", OptTypeStringArray, ReleaseLevelStable, nil},
	}
	var opts []*Option
	set := make([]bool, len(specs))
	for i, sp := range specs {
		o := addOption(sp.key, sp.t, sp.level, &valueCache{stringVal: "fallback"})
		set[i] = rt.Bool("set" + string(rune('0'+i)))
		if set[i] && sp.val != nil {
			o.activeValue = sp.val
		}
		if set[i] && sp.val == nil {
			// set through the API, as a user would
			rt.Assert(setConfigOption(sp.key, []string(nil), false) == nil, "saveload/set-nil-list-ok")
		}
		if sp.key == "a/big" {
			o.compiledRegex = regexp.MustCompile(`^[0-9]+$`)
		}
		opts = append(opts, o)
	}
	// the effective release level is anything
	atomic.StoreInt32(releaseLevel, int32(rt.Choice("level", 3)))
	rt.Assert(SaveConfig() == nil, "saveload/save-ok")
	// the in-memory user layer is lost (restart), then loaded again
	for _, o := range opts {
		o.activeValue = nil
	}
	rt.Assert(loadConfig(false) == nil, "saveload/load-ok")
	for i, o := range opts {
		if !set[i] {
			rt.Assert(o.activeValue == nil, "saveload/unset-option-stays-unset")
			continue
		}
		rt.Assert(o.activeValue != nil, "saveload/user-value-restored")
		if o.activeValue == nil {
			continue
		}
		switch o.OptType {
		case OptTypeInt:
			rt.Assert(o.activeValue.intVal == specs[i].val.intVal, "saveload/int-value")
		case OptTypeString:
			rt.Assert(o.activeValue.stringVal == "user", "saveload/string-value")
		case OptTypeBool:
			rt.Assert(o.activeValue.boolVal, "saveload/bool-value")
		case OptTypeStringArray:
			v := o.activeValue.stringArrayVal
			if specs[i].val == nil {
				rt.Assert(len(v) == 0, "saveload/empty-list-value")
			} else {
				rt.Assert(len(v) == 2 && v[0] == "x" && v[1] == "y", "saveload/list-value")
			}
		}
	}
	rt.Reach("saveload-end")
}
