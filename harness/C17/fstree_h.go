package fstree

// C17 harnesses (fstree records).

import (
	"github.com/safing/portbase/database/record"
	rt "github.com/safing/portbase/zz_verifrt"
)

func VerifC17_FstreeWriteFile() {
	dest := rt.Root("/r/db") + "/some/key"
	rt.NativeAtomicDest(dest)
	err := writeFile(dest, rt.BytesN("data", 0, 2), defaultFileMode)
	rt.NativeEnd()
	checkAtomicPublish(dest, "", err, "fstreewrite")
	rt.Reach("fstreewrite-end")
}

func VerifC17_FstreePut() {
	root := rt.Root("/r/db")
	fst := &FSTree{name: "t", basePath: root}
	w, _ := record.NewWrapper("t:some/key", &record.Meta{}, 1, []byte{1})
	dest := root + "/some/key"
	rt.NativeAtomicDest(dest)
	rt.FsFaults(2)
	_, err := fst.Put(w)
	rt.NativeEnd()
	// Put may retry once after creating the directory: at most two publishing
	// attempts, each of which must satisfy the automaton; checked on the last
	attempts := 0
	for i := 0; i < rt.FsLen(); i++ {
		if rt.FsOp(i) == "rename" && rt.FsPath2(i) == dest {
			attempts++
		}
		if rt.FsPath(i) == dest {
			op := rt.FsOp(i)
			rt.Assert(op == "stat" || op == "lstat", "fstreeput/dest-only-named-by-rename")
		}
	}
	rt.Assert(attempts <= 2, "fstreeput/at-most-two-attempts")
	published := false
	for i := 0; i < rt.FsLen(); i++ {
		if rt.FsOp(i) == "rename" && rt.FsPath2(i) == dest && rt.FsOK(i) {
			published = true
		}
	}
	rt.Assert((err == nil) == published, "fstreeput/success-iff-published")
	rt.Reach("fstreeput-end")
}

// ---- shared automaton over the recorded file-system trace (copied into each harness package) ----

func c17dir(p string) string {
	for i := len(p) - 1; i >= 0; i-- {
		if p[i] == '/' {
			if i == 0 {
				return "/"
			}
			return p[:i]
		}
	}
	return "."
}

// checkAtomicPublish evaluates the atomic-publication automaton for one
// destination path on the trace recorded so far.
//   callerDir: temp dir requested by the caller ("" = automatic)
//   err: the error the primitive returned
func checkAtomicPublish(dest, callerDir string, err error, tag string) {
	n := rt.FsLen()
	renamedOK := false
	renameIdx := -1
	probeOK := false
	probeSeen := false
	for i := 0; i < n; i++ {
		op, p, p2, ok := rt.FsOp(i), rt.FsPath(i), rt.FsPath2(i), rt.FsOK(i)
		// (a) nothing but the publishing rename (and read-only stat) names dest
		if p == dest && op != "stat" && op != "lstat" {
			rt.Assert(false, tag+"/dest-only-named-by-rename")
		}
		if op == "rename" && p2 != dest {
			// the cross-mount probe of tempDir: src in the system temp dir
			probeSeen = true
			probeOK = ok
		}
		if op == "rename" && p2 == dest {
			rt.Assert(renameIdx < 0, tag+"/single-publishing-rename")
			renameIdx = i
			renamedOK = ok
			tmp := p
			// (c) tmp was created by CreateTemp in an admissible directory
			created := -1
			for j := 0; j < i; j++ {
				if rt.FsOp(j) == "createtemp" && rt.FsPath(j) == tmp && rt.FsOK(j) {
					created = j
				}
			}
			rt.Assert(created >= 0, tag+"/renamed-file-is-own-tempfile")
			if created >= 0 {
				d := rt.FsPath2(created)
				if callerDir != "" {
					rt.Assert(d == callerDir, tag+"/tempfile-in-caller-dir")
				} else {
					rt.Assert(d == "/tmp" || d == c17dir(dest), tag+"/tempfile-in-tmp-or-dest-dir")
					if d == "/tmp" {
						rt.Assert(probeSeen && probeOK, tag+"/tmpdir-only-after-successful-rename-probe")
					}
				}
			}
			// (b) every write ok, then sync ok, then close ok, nothing after
			lastWrite, syncAt, closeAt := created, -1, -1
			for j := created + 1; j < i && created >= 0; j++ {
				if rt.FsPath(j) != tmp {
					continue
				}
				switch rt.FsOp(j) {
				case "write":
					rt.Assert(rt.FsOK(j), tag+"/no-rename-after-failed-write")
					lastWrite = j
				case "chmod":
					rt.Assert(rt.FsOK(j), tag+"/no-rename-after-failed-chmod")
					lastWrite = j
				case "sync":
					if rt.FsOK(j) {
						syncAt = j
					}
				case "close":
					if rt.FsOK(j) {
						closeAt = j
					}
				case "remove":
					rt.Assert(false, tag+"/tempfile-not-removed-before-rename")
				}
			}
			rt.Assert(syncAt > lastWrite, tag+"/synced-after-last-write-before-rename")
			rt.Assert(closeAt > syncAt, tag+"/closed-after-sync-before-rename")
		}
		if renamedOK && i > renameIdx && (op == "remove" || op == "removeall") {
			rt.Assert(p != dest, tag+"/dest-not-removed-after-publish")
		}
	}
	// (d) result agrees with publication
	rt.Assert((err == nil) == renamedOK, tag+"/success-iff-published")
	// every temp file this call created is renamed away or a removal was attempted
	for i := 0; i < n; i++ {
		if rt.FsOp(i) != "createtemp" || !rt.FsOK(i) {
			continue
		}
		tmp := rt.FsPath(i)
		handled := false
		for j := i + 1; j < n; j++ {
			if rt.FsOp(j) == "remove" && rt.FsPath(j) == tmp {
				handled = true
			}
			if rt.FsOp(j) == "rename" && rt.FsPath(j) == tmp && rt.FsOK(j) {
				handled = true
			}
		}
		rt.Assert(handled, tag+"/tempfile-renamed-or-removed")
	}
}
