package updater

// C17 harnesses (updater): downloaded resources, unpacked files and unpacked
// archives are published atomically.

import (
	"context"
	"errors"
	"io"
	"net/http"
	"net/http/httptest"
	"os"

	"github.com/safing/portbase/utils"
	rt "github.com/safing/portbase/zz_verifrt"
)

func c17Registry(storage string) *ResourceRegistry {
	reg := &ResourceRegistry{Name: "t", resources: make(map[string]*Resource)}
	reg.storageDir = utils.NewDirStructure(storage, 0o755)
	reg.tmpDir = reg.storageDir.ChildDir("tmp", 0o700)
	reg.UpdateURLs = []string{"http://updates.test/"}
	if !rt.Symbolic() {
		// natively the registry's directories exist (Initialize creates them)
		_ = reg.storageDir.Ensure()
		_ = reg.tmpDir.Ensure()
	}
	return reg
}

// ---- the download: response as the harness chooses ----

type c17Body struct {
	chunks int
	fail   bool
}

func (b *c17Body) Read(p []byte) (int, error) {
	if b.chunks == 0 {
		if b.fail {
			return 0, errors.New("connection reset")
		}
		return 0, io.EOF
	}
	b.chunks--
	if len(p) == 0 {
		return 0, nil
	}
	p[0] = 7
	return 1, nil
}

func (b *c17Body) Close() error { return nil }

var c17Resp struct {
	mode   int // 0 transport error, 1 not found, 2 ok, 3 partial content (206), 4 no content (204)
	chunks int
	fail   bool  // the body breaks off
	clen   int64 // announced length
}

// VerifModel_http_Client_Do replaces (*http.Client).Do under the engine.
func VerifModel_http_Client_Do(_ *http.Client, _ *http.Request) (*http.Response, error) {
	switch c17Resp.mode {
	case 0:
		return nil, errors.New("connection refused")
	case 1:
		return &http.Response{StatusCode: 404, Status: "404 Not Found", Body: &c17Body{}}, nil
	case 3:
		// a fragment of the resource, with a length that is right for the fragment
		return &http.Response{StatusCode: 206, Status: "206 Partial Content", ContentLength: c17Resp.clen, Body: &c17Body{chunks: c17Resp.chunks, fail: c17Resp.fail}}, nil
	case 4:
		return &http.Response{StatusCode: 204, Status: "204 No Content", ContentLength: 0, Body: &c17Body{}}, nil
	}
	return &http.Response{StatusCode: 200, Status: "200 OK", ContentLength: c17Resp.clen, Body: &c17Body{chunks: c17Resp.chunks, fail: c17Resp.fail}}, nil
}

// VerifModel_http_NewRequestWithContext replaces http.NewRequestWithContext
// under the engine (the real one validates and parses the URL).
func VerifModel_http_NewRequestWithContext(_ context.Context, method, _ string, _ io.Reader) (*http.Request, error) {
	return &http.Request{Method: method, Header: http.Header{}}, nil
}

// natively the same responses come from a local test server
func c17NativeServer() *httptest.Server {
	return httptest.NewServer(http.HandlerFunc(func(w http.ResponseWriter, r *http.Request) {
		switch c17Resp.mode {
		case 1:
			http.NotFound(w, r)
			return
		case 4:
			w.WriteHeader(204)
			return
		}
		status := 200
		if c17Resp.mode == 3 {
			status = 206
		}
		body := make([]byte, c17Resp.chunks)
		for i := range body {
			body[i] = 7
		}
		if c17Resp.clen < 0 && !c17Resp.fail {
			// no Content-Length: flushing the header first makes the reply chunked
			w.WriteHeader(status)
			if fl, ok := w.(http.Flusher); ok {
				fl.Flush()
			}
			_, _ = w.Write(body)
			return
		}
		if c17Resp.fail {
			// announce more than is sent, then drop the connection
			w.Header().Set("Content-Length", "1000")
			w.WriteHeader(status)
			_, _ = w.Write(body)
			if hj, ok := w.(http.Hijacker); ok {
				if conn, _, err := hj.Hijack(); err == nil {
					_ = conn.Close()
				}
			}
			return
		}
		w.WriteHeader(status)
		_, _ = w.Write(body)
	}))
}

func VerifC17_FetchFile() {
	storage := rt.Root("/s/updates")
	reg := c17Registry(storage)
	res := &Resource{registry: reg, Identifier: "a/b.bin"}
	rv := &ResourceVersion{resource: res, VersionNumber: "1.0.1"}
	res.Versions = []*ResourceVersion{rv}
	dest := rv.storagePath()
	rt.NativeAtomicDest(dest)
	c17Resp.mode = rt.Choice("response", 5)
	c17Resp.chunks = rt.Choice("chunks", 3)
	c17Resp.fail = rt.Bool("bodyfails")
	c17Resp.clen = int64(c17Resp.chunks)
	if rt.Bool("lengthunknown") {
		// a response without Content-Length (chunked): the announced length
		// is -1 and can never equal the number of bytes received
		c17Resp.clen = -1
	}
	client := &http.Client{}
	if !rt.Symbolic() {
		if c17Resp.mode == 0 {
			reg.UpdateURLs = []string{"http://127.0.0.1:1/"}
		} else {
			srv := c17NativeServer()
			defer srv.Close()
			reg.UpdateURLs = []string{srv.URL + "/"}
		}
	}
	rt.FsFaults(2)
	err := reg.fetchFile(context.Background(), client, rv, 0)
	rt.NativeEnd()
	c17CheckPublish(dest, storage+"/tmp", err, "fetch", true)
	good := c17Resp.mode == 2 && !c17Resp.fail && c17Resp.clen == int64(c17Resp.chunks)
	if !good {
		rt.Assert(err != nil, "fetch/failed-download-reported")
	}
	rt.Reach("fetch-end")
}

// ---- File.Unpack ----

type c17Src struct {
	chunks int
	fail   bool
}

func (r *c17Src) Read(p []byte) (int, error) {
	if r.chunks == 0 {
		if r.fail {
			return 0, errors.New("corrupt stream")
		}
		return 0, io.EOF
	}
	r.chunks--
	if len(p) == 0 {
		return 0, nil
	}
	p[0] = 9
	return 1, nil
}

func VerifC17_FileUnpack() {
	storage := rt.Root("/s/updates")
	reg := c17Registry(storage)
	res := &Resource{registry: reg, Identifier: "a/b.dat.gz"}
	rv := &ResourceVersion{resource: res, VersionNumber: "1.0.1", Available: true}
	res.Versions = []*ResourceVersion{rv}
	file := &File{resource: res, version: rv, versionedPath: rv.versionedPath(), storagePath: rv.storagePath()}
	rt.FsCreateFile(file.Path())
	suffix := ".gz"
	dest := storage + "/a/b_v1-0-1.dat"
	if rt.Bool("nosuffix") {
		suffix = ""
		dest = storage + "/a/b_v1-0-1.dat.gz-unpacked"
	}
	rt.NativeAtomicDest(dest)
	unpackerFails := rt.Bool("unpackerfails")
	src := &c17Src{chunks: rt.Choice("chunks", 3), fail: rt.Bool("streamfails")}
	rt.FsFaults(2)
	p, err := file.Unpack(suffix, func(io.Reader) (io.Reader, error) {
		if unpackerFails {
			return nil, errors.New("not a gzip stream")
		}
		return src, nil
	})
	rt.NativeEnd()
	// already unpacked (the first stat succeeds): nothing is written
	if rt.FsLen() >= 1 && rt.FsOp(0) == "stat" && rt.FsPath(0) == dest && rt.FsOK(0) {
		rt.Assert(err == nil && p == dest, "fileunpack/existing-result-returned")
		for i := 1; i < rt.FsLen(); i++ {
			rt.Assert(rt.FsPath(i) != dest, "fileunpack/existing-result-untouched")
		}
		rt.Reach("fileunpack-existing")
		return
	}
	c17CheckPublish(dest, storage+"/tmp", err, "fileunpack", false)
	if err == nil {
		rt.Assert(p == dest, "fileunpack/path-returned")
	}
	if unpackerFails || src.fail {
		rt.Assert(err != nil, "fileunpack/failure-reported")
	}
	rt.Reach("fileunpack-end")
}

// ---- archive unpacking: the destination directory appears by one rename of a
// completely written temporary directory ----

func VerifC17_UnpackArchive() {
	storage := rt.Root("/s/updates")
	reg := c17Registry(storage)
	res := &Resource{registry: reg, Identifier: "a/b.zip"}
	rv := &ResourceVersion{resource: res, VersionNumber: "1.0.0", Available: true}
	res.Versions = []*ResourceVersion{rv}
	res.SelectedVersion = rv
	n := rt.Choice("entries", 3)
	names := []string{"x", "d/y"}
	// an entry may be damaged: its data breaks off or its checksum is wrong
	damaged := false
	for i := 0; i < n; i++ {
		kind := rt.Choice("damage"+string(rune('0'+i)), 3)
		rt.ZipEntryDamaged(names[i], kind)
		damaged = damaged || kind != 0
	}
	rt.ZipMaterialize(storage + "/a/b_v1-0-0.zip")
	rt.FsFaults(2)
	rt.FsStatDirs(true)
	dest := storage + "/a/b_v1-0-0"
	tmp := storage + "/tmp/b_v1-0-0"
	if !rt.Symbolic() && n >= 1 {
		// natively: an interrupted earlier unpack left a longer file behind
		_ = os.MkdirAll(tmp, 0o700)
		_ = os.WriteFile(tmp+"/x", []byte("stale content of an interrupted unpack"), 0o600)
	}
	err := res.UnpackArchive()
	if !rt.Symbolic() && n >= 1 && err == nil && !damaged {
		data, rerr := os.ReadFile(dest + "/x")
		rt.Assert(rerr == nil && string(data) == "x", "unpackarchive/entry-files-are-truncated-or-new")
	}
	renameIdx, renamedOK := -1, false
	for i := 0; i < rt.FsLen(); i++ {
		op, p, p2, ok := rt.FsOp(i), rt.FsPath(i), rt.FsPath2(i), rt.FsOK(i)
		if op == "rename" && p2 == dest {
			rt.Assert(renameIdx < 0, "unpackarchive/single-publishing-rename")
			rt.Assert(p == tmp, "unpackarchive/renamed-directory-is-the-temporary-one")
			renameIdx, renamedOK = i, ok
			// everything written below the temporary directory is closed by now
			open := 0
			for j := 0; j < i; j++ {
				if rt.FsOp(j) == "open" && rt.FsOK(j) && len(rt.FsPath(j)) > len(tmp) && rt.FsPath(j)[:len(tmp)] == tmp {
					open++
				}
				if rt.FsOp(j) == "close" && len(rt.FsPath(j)) > len(tmp) && rt.FsPath(j)[:len(tmp)] == tmp {
					open--
				}
			}
			rt.Assert(open == 0, "unpackarchive/files-closed-before-publication")
		}
		// files below the temporary directory are written from scratch: whatever a
		// repeated entry or an interrupted earlier unpack left there is truncated
		if op == "open" && ok && len(p) > len(tmp) && p[:len(tmp)+1] == tmp+"/" {
			fl := p2
			if containsFlag(fl, "wronly") || containsFlag(fl, "rdwr") {
				rt.Assert(containsFlag(fl, "trunc") || containsFlag(fl, "excl"), "unpackarchive/entry-files-are-truncated-or-new")
			}
		}
		// before the rename nothing creates or writes at or below the destination
		if renameIdx < 0 && (op == "open" || op == "mkdir" || op == "mkdirall" || op == "write" || op == "chmod") {
			rt.Assert(!(p == dest || (len(p) > len(dest) && p[:len(dest)+1] == dest+"/")), "unpackarchive/destination-untouched-before-publication")
		}
	}
	if err == nil && renameIdx >= 0 {
		rt.Assert(renamedOK, "unpackarchive/success-means-published")
	}
	if damaged && err == nil {
		// a fragment is never published as the complete new content (a
		// destination that exists already is left alone without unpacking)
		published := renameIdx >= 0
		if !rt.Symbolic() {
			// natively (fresh sandbox, no file-system trace): the destination appeared
			_, serr := os.Stat(dest)
			published = serr == nil
		}
		rt.Assert(!published, "unpackarchive/damaged-archive-is-not-published")
	}
	if renameIdx >= 0 && renamedOK && err != nil {
		// a failure after publication removes the destination again (back to "absent")
		removed := false
		for i := renameIdx + 1; i < rt.FsLen(); i++ {
			if rt.FsOp(i) == "removeall" && rt.FsPath(i) == dest {
				removed = true
			}
		}
		rt.Assert(removed, "unpackarchive/failed-after-publication-is-rolled-back")
	}
	rt.Reach("unpackarchive-end")
}

// ---- archive unpacking with something at the destination already: whatever
// is there (a regular file blocking the directory, or the directory of an
// earlier unpack) is not renamed over and not removed by an unpack that did
// not put it there ----

func VerifC17_UnpackDestinationTaken() {
	storage := rt.Root("/s/updates")
	reg := c17Registry(storage)
	res := &Resource{registry: reg, Identifier: "a/b.zip"}
	rv := &ResourceVersion{resource: res, VersionNumber: "1.0.0", Available: true}
	res.Versions = []*ResourceVersion{rv}
	res.SelectedVersion = rv
	rt.ZipEntryDamaged("x", 0)
	rt.ZipMaterialize(storage + "/a/b_v1-0-0.zip")
	rt.FsFaults(1)
	dest := storage + "/a/b_v1-0-0"
	// the destination is free, or taken by a regular file (under the engine:
	// by something that the first look reports as a file or as a directory)
	taken := rt.Bool("destination-taken")
	if !rt.Symbolic() && taken {
		_ = os.WriteFile(dest, []byte("previous content"), 0o600)
	}
	err := res.UnpackArchive()
	if !rt.Symbolic() {
		if taken {
			data, rerr := os.ReadFile(dest)
			rt.Assert(rerr == nil && string(data) == "previous content", "unpacktaken/what-was-there-is-kept")
			rt.Assert(err != nil, "unpacktaken/blocked-destination-is-reported")
		}
		rt.Reach("unpacktaken-end")
		return
	}
	// under the engine the outcome of the first look at the destination is a
	// fork; the paths on which it agrees with the chosen situation are judged
	seen, existed := false, false
	for i := 0; i < rt.FsLen() && !seen; i++ {
		if rt.FsOp(i) == "stat" && rt.FsPath(i) == dest {
			seen, existed = true, rt.FsOK(i)
		}
	}
	if !seen || existed != taken {
		return
	}
	rt.Reach("unpacktaken-end")
	if !existed {
		return
	}
	for i := 0; i < rt.FsLen(); i++ {
		op, p, p2 := rt.FsOp(i), rt.FsPath(i), rt.FsPath2(i)
		if op == "rename" && p2 == dest {
			rt.Assert(false, "unpacktaken/what-was-there-is-kept")
		}
		if (op == "removeall" || op == "remove") && p == dest {
			rt.Assert(false, "unpacktaken/what-was-there-is-kept")
		}
	}
}

// ---- the publication automaton (as in the other C17 packages), with the
// option of a chmod of the published file ----

func c17dir(p string) string {
	for i := len(p) - 1; i >= 0; i-- {
		if p[i] == '/' {
			if i == 0 {
				return "/"
			}
			return p[:i]
		}
	}
	return "."
}

func c17CheckPublish(dest, callerDir string, err error, tag string, chmodAfter bool) {
	n := rt.FsLen()
	renamedOK := false
	renameIdx := -1
	for i := 0; i < n; i++ {
		op, p, p2, ok := rt.FsOp(i), rt.FsPath(i), rt.FsPath2(i), rt.FsOK(i)
		if p == dest && op != "stat" && op != "lstat" {
			if !(chmodAfter && op == "chmod" && renamedOK && i > renameIdx) {
				rt.Assert(false, tag+"/dest-only-named-by-rename")
			}
		}
		if op == "rename" && p2 == dest {
			rt.Assert(renameIdx < 0, tag+"/single-publishing-rename")
			renameIdx = i
			renamedOK = ok
			tmp := p
			created := -1
			for j := 0; j < i; j++ {
				if rt.FsOp(j) == "createtemp" && rt.FsPath(j) == tmp && rt.FsOK(j) {
					created = j
				}
			}
			rt.Assert(created >= 0, tag+"/renamed-file-is-own-tempfile")
			if created >= 0 {
				rt.Assert(rt.FsPath2(created) == callerDir, tag+"/tempfile-in-the-registry-tmp-dir")
			}
			lastWrite, syncAt, closeAt := created, -1, -1
			for j := created + 1; j < i && created >= 0; j++ {
				if rt.FsPath(j) != tmp {
					continue
				}
				switch rt.FsOp(j) {
				case "write":
					rt.Assert(rt.FsOK(j), tag+"/no-rename-after-failed-write")
					lastWrite = j
				case "chmod":
					rt.Assert(rt.FsOK(j), tag+"/no-rename-after-failed-chmod")
					lastWrite = j
				case "sync":
					if rt.FsOK(j) {
						syncAt = j
					}
				case "close":
					if rt.FsOK(j) {
						closeAt = j
					}
				case "remove":
					rt.Assert(false, tag+"/tempfile-not-removed-before-rename")
				}
			}
			rt.Assert(syncAt > lastWrite, tag+"/synced-after-last-write-before-rename")
			rt.Assert(closeAt > syncAt, tag+"/closed-after-sync-before-rename")
		}
		if renamedOK && i > renameIdx && (op == "remove" || op == "removeall") {
			rt.Assert(p != dest, tag+"/dest-not-removed-after-publish")
		}
	}
	rt.Assert((err == nil) == renamedOK, tag+"/success-iff-published")
	_ = c17dir
}

func containsFlag(flags, name string) bool {
	for i := 0; i+len(name) <= len(flags); i++ {
		if flags[i:i+len(name)] == name && (i == 0 || flags[i-1] == ',') && (i+len(name) == len(flags) || flags[i+len(name)] == ',') {
			return true
		}
	}
	return false
}
