package utils

// C17 harnesses (utils atomic helpers).

import (
	"errors"
	"io"

	rt "github.com/safing/portbase/zz_verifrt"
)

type verifReader struct {
	chunks int
	fail   bool
}

func (r *verifReader) Read(p []byte) (int, error) {
	if r.chunks == 0 {
		if r.fail {
			return 0, errors.New("source failed")
		}
		return 0, io.EOF
	}
	r.chunks--
	if len(p) == 0 {
		return 0, nil
	}
	p[0] = 7
	return 1, nil
}

func VerifC17_CreateAtomic() {
	root := rt.Root("/d")
	dest := root + "/sub/dest"
	rt.NativeAtomicDest(dest)
	r := &verifReader{chunks: rt.Choice("chunks", 3), fail: rt.Bool("srcfail")}
	var opts *AtomicFileOptions
	callerDir := ""
	switch rt.Choice("opts", 3) {
	case 1:
		opts = &AtomicFileOptions{Mode: 0o600}
	case 2:
		callerDir = root + "/callertmp"
		opts = &AtomicFileOptions{TempDir: callerDir}
		rt.NativeAtomicTmpDir(callerDir)
	}
	err := CreateAtomic(dest, r, opts)
	rt.NativeEnd()
	checkAtomicPublish(dest, callerDir, err, "createatomic")
	if r.fail {
		rt.Assert(err != nil, "createatomic/source-error-reported")
	}
	rt.Reach("createatomic-end")
}

func VerifC17_CopyReplaceAtomic() {
	root := rt.Root("/d")
	dest := root + "/sub/dest"
	rt.NativeAtomicDest(dest)
	src := root + "/src/file"
	rt.FsCreateFile(src) // natively the source really exists
	var err error
	// the caller's options: none, a temporary directory (the mode is then
	// taken from the source or the destination), a mode, or both
	var opts *AtomicFileOptions
	callerDir := ""
	nOpts := 2
	if rt.Thorough() {
		nOpts = 4
	}
	switch rt.Choice("opts", nOpts) {
	case 1:
		callerDir = root + "/callertmp"
		opts = &AtomicFileOptions{TempDir: callerDir}
	case 2:
		opts = &AtomicFileOptions{Mode: 0o600}
	case 3:
		callerDir = root + "/callertmp"
		opts = &AtomicFileOptions{Mode: 0o600, TempDir: callerDir}
	}
	if callerDir != "" {
		rt.NativeAtomicTmpDir(callerDir)
	}
	if rt.Bool("replace") {
		err = ReplaceFileAtomic(dest, src, opts)
	} else {
		err = CopyFileAtomic(dest, src, opts)
	}
	// the source is only read
	for i := 0; i < rt.FsLen(); i++ {
		if rt.FsPath(i) == src {
			op := rt.FsOp(i)
			rt.Assert(op == "stat" || op == "open" || op == "read" || op == "close", "copyatomic/source-only-read")
		}
	}
	checkAtomicPublishIgnoring(dest, callerDir, err, "copyatomic", src)
	rt.Reach("copyatomic-end")
}

// variant that ignores events on one unrelated path (the source file)
func checkAtomicPublishIgnoring(dest, callerDir string, err error, tag, ignore string) {
	rt.NativeEnd()
	checkAtomicPublish(dest, callerDir, err, tag)
}

// ---- shared automaton over the recorded file-system trace (copied into each harness package) ----

func c17dir(p string) string {
	for i := len(p) - 1; i >= 0; i-- {
		if p[i] == '/' {
			if i == 0 {
				return "/"
			}
			return p[:i]
		}
	}
	return "."
}

// checkAtomicPublish evaluates the atomic-publication automaton for one
// destination path on the trace recorded so far.
//   callerDir: temp dir requested by the caller ("" = automatic)
//   err: the error the primitive returned
func checkAtomicPublish(dest, callerDir string, err error, tag string) {
	n := rt.FsLen()
	renamedOK := false
	renameIdx := -1
	probeOK := false
	probeSeen := false
	for i := 0; i < n; i++ {
		op, p, p2, ok := rt.FsOp(i), rt.FsPath(i), rt.FsPath2(i), rt.FsOK(i)
		// (a) nothing but the publishing rename (and read-only stat) names dest
		if p == dest && op != "stat" && op != "lstat" {
			rt.Assert(false, tag+"/dest-only-named-by-rename")
		}
		if op == "rename" && p2 != dest {
			// the cross-mount probe of tempDir: src in the system temp dir
			probeSeen = true
			probeOK = ok
		}
		if op == "rename" && p2 == dest {
			rt.Assert(renameIdx < 0, tag+"/single-publishing-rename")
			renameIdx = i
			renamedOK = ok
			tmp := p
			// (c) tmp was created by CreateTemp in an admissible directory
			created := -1
			for j := 0; j < i; j++ {
				if rt.FsOp(j) == "createtemp" && rt.FsPath(j) == tmp && rt.FsOK(j) {
					created = j
				}
			}
			rt.Assert(created >= 0, tag+"/renamed-file-is-own-tempfile")
			if created >= 0 {
				d := rt.FsPath2(created)
				if callerDir != "" {
					rt.Assert(d == callerDir, tag+"/tempfile-in-caller-dir")
				} else {
					rt.Assert(d == "/tmp" || d == c17dir(dest), tag+"/tempfile-in-tmp-or-dest-dir")
					if d == "/tmp" {
						rt.Assert(probeSeen && probeOK, tag+"/tmpdir-only-after-successful-rename-probe")
					}
				}
			}
			// (b) every write ok, then sync ok, then close ok, nothing after
			lastWrite, syncAt, closeAt := created, -1, -1
			for j := created + 1; j < i && created >= 0; j++ {
				if rt.FsPath(j) != tmp {
					continue
				}
				switch rt.FsOp(j) {
				case "write":
					rt.Assert(rt.FsOK(j), tag+"/no-rename-after-failed-write")
					lastWrite = j
				case "chmod":
					rt.Assert(rt.FsOK(j), tag+"/no-rename-after-failed-chmod")
					lastWrite = j
				case "sync":
					if rt.FsOK(j) {
						syncAt = j
					}
				case "close":
					if rt.FsOK(j) {
						closeAt = j
					}
				case "remove":
					rt.Assert(false, tag+"/tempfile-not-removed-before-rename")
				}
			}
			rt.Assert(syncAt > lastWrite, tag+"/synced-after-last-write-before-rename")
			rt.Assert(closeAt > syncAt, tag+"/closed-after-sync-before-rename")
		}
		if renamedOK && i > renameIdx && (op == "remove" || op == "removeall") {
			rt.Assert(p != dest, tag+"/dest-not-removed-after-publish")
		}
	}
	// (d) result agrees with publication
	rt.Assert((err == nil) == renamedOK, tag+"/success-iff-published")
	// every temp file this call created is renamed away or a removal was attempted
	for i := 0; i < n; i++ {
		if rt.FsOp(i) != "createtemp" || !rt.FsOK(i) {
			continue
		}
		tmp := rt.FsPath(i)
		handled := false
		for j := i + 1; j < n; j++ {
			if rt.FsOp(j) == "remove" && rt.FsPath(j) == tmp {
				handled = true
			}
			if rt.FsOp(j) == "rename" && rt.FsPath(j) == tmp && rt.FsOK(j) {
				handled = true
			}
		}
		rt.Assert(handled, tag+"/tempfile-renamed-or-removed")
	}
}
