package renameio

// C17 harnesses (renameio): files are published atomically.

import (
	rt "github.com/safing/portbase/zz_verifrt"
)

func VerifC17_WriteFile() {
	data := rt.BytesN("data", 0, 2)
	dest := rt.Root("/d") + "/sub/dest"
	rt.NativeAtomicDest(dest)
	err := WriteFile(dest, data, 0o644)
	rt.NativeEnd()
	checkAtomicPublish(dest, "", err, "writefile")
	rt.Reach("writefile-end")
}

func VerifC17_TempFileCallerDir() {
	dest := rt.Root("/d") + "/sub/dest"
	rt.NativeAtomicDest(dest)
	t, err := TempFile("/caller/tmp", dest)
	if err != nil {
		rt.Assert(rt.FsLen() == 1, "tempfile/only-createtemp-attempted")
		rt.Reach("tempfile-create-failed")
		return
	}
	_, werr := t.Write([]byte{1})
	var rerr error
	if werr == nil {
		rerr = t.CloseAtomicallyReplace()
	} else {
		rerr = werr
	}
	cerr := t.Cleanup()
	_ = cerr
	rt.NativeEnd()
	checkAtomicPublish(dest, "/caller/tmp", rerr, "tempfile")
	rt.Reach("tempfile-end")
}

// Symlink: either the direct (non-replacing) symlink succeeds, or a temporary
// symlink is created in a fresh temp dir next to newname and renamed over it
func VerifC17_Symlink() {
	newname := rt.Root("/d") + "/sub/link"
	err := Symlink("/target", newname)
	n := rt.FsLen()
	direct := n >= 1 && rt.FsOp(0) == "symlink" && rt.FsPath2(0) == newname
	rt.Assert(direct, "symlink/first-call-is-direct-symlink")
	if n == 1 {
		rt.Assert((err == nil) == rt.FsOK(0), "symlink/direct-result")
		rt.Reach("symlink-direct")
		return
	}
	published := false
	tmpdir := ""
	for i := 1; i < n; i++ {
		op, p, p2, ok := rt.FsOp(i), rt.FsPath(i), rt.FsPath2(i), rt.FsOK(i)
		if op == "mkdirtemp" && ok {
			tmpdir = p
			rt.Assert(p2 == "/d/sub", "symlink/tempdir-next-to-newname")
		}
		if op == "symlink" {
			rt.Assert(p2 != newname, "symlink/second-symlink-not-onto-newname")
			rt.Assert(tmpdir != "" && len(p2) > len(tmpdir) && p2[:len(tmpdir)] == tmpdir, "symlink/temp-symlink-inside-tempdir")
		}
		if op == "rename" {
			rt.Assert(p2 == newname, "symlink/rename-targets-newname")
			// the renamed object is the freshly created temp symlink
			made := false
			for j := 1; j < i; j++ {
				if rt.FsOp(j) == "symlink" && rt.FsPath2(j) == p && rt.FsOK(j) {
					made = true
				}
			}
			rt.Assert(made, "symlink/renames-own-temp-symlink")
			published = ok
		}
		if (op == "remove" || op == "removeall") && p == newname {
			rt.Assert(false, "symlink/newname-never-removed")
		}
	}
	if published {
		// RemoveAll(tmpdir) result is returned
		rt.Reach("symlink-published")
	} else {
		rt.Assert(err != nil, "symlink/failure-reported")
		if tmpdir != "" {
			cleaned := false
			for i := 1; i < n; i++ {
				if rt.FsOp(i) == "removeall" && rt.FsPath(i) == tmpdir {
					cleaned = true
				}
			}
			rt.Assert(cleaned, "symlink/tempdir-cleaned-on-failure")
		}
	}
	rt.Reach("symlink-end")
}

// ---- shared automaton over the recorded file-system trace (copied into each harness package) ----

func c17dir(p string) string {
	for i := len(p) - 1; i >= 0; i-- {
		if p[i] == '/' {
			if i == 0 {
				return "/"
			}
			return p[:i]
		}
	}
	return "."
}

// checkAtomicPublish evaluates the atomic-publication automaton for one
// destination path on the trace recorded so far.
//   callerDir: temp dir requested by the caller ("" = automatic)
//   err: the error the primitive returned
func checkAtomicPublish(dest, callerDir string, err error, tag string) {
	n := rt.FsLen()
	renamedOK := false
	renameIdx := -1
	probeOK := false
	probeSeen := false
	for i := 0; i < n; i++ {
		op, p, p2, ok := rt.FsOp(i), rt.FsPath(i), rt.FsPath2(i), rt.FsOK(i)
		// (a) nothing but the publishing rename (and read-only stat) names dest
		if p == dest && op != "stat" && op != "lstat" {
			rt.Assert(false, tag+"/dest-only-named-by-rename")
		}
		if op == "rename" && p2 != dest {
			// the cross-mount probe of tempDir: src in the system temp dir
			probeSeen = true
			probeOK = ok
		}
		if op == "rename" && p2 == dest {
			rt.Assert(renameIdx < 0, tag+"/single-publishing-rename")
			renameIdx = i
			renamedOK = ok
			tmp := p
			// (c) tmp was created by CreateTemp in an admissible directory
			created := -1
			for j := 0; j < i; j++ {
				if rt.FsOp(j) == "createtemp" && rt.FsPath(j) == tmp && rt.FsOK(j) {
					created = j
				}
			}
			rt.Assert(created >= 0, tag+"/renamed-file-is-own-tempfile")
			if created >= 0 {
				d := rt.FsPath2(created)
				if callerDir != "" {
					rt.Assert(d == callerDir, tag+"/tempfile-in-caller-dir")
				} else {
					rt.Assert(d == "/tmp" || d == c17dir(dest), tag+"/tempfile-in-tmp-or-dest-dir")
					if d == "/tmp" {
						rt.Assert(probeSeen && probeOK, tag+"/tmpdir-only-after-successful-rename-probe")
					}
				}
			}
			// (b) every write ok, then sync ok, then close ok, nothing after
			lastWrite, syncAt, closeAt := created, -1, -1
			for j := created + 1; j < i && created >= 0; j++ {
				if rt.FsPath(j) != tmp {
					continue
				}
				switch rt.FsOp(j) {
				case "write":
					rt.Assert(rt.FsOK(j), tag+"/no-rename-after-failed-write")
					lastWrite = j
				case "chmod":
					rt.Assert(rt.FsOK(j), tag+"/no-rename-after-failed-chmod")
					lastWrite = j
				case "sync":
					if rt.FsOK(j) {
						syncAt = j
					}
				case "close":
					if rt.FsOK(j) {
						closeAt = j
					}
				case "remove":
					rt.Assert(false, tag+"/tempfile-not-removed-before-rename")
				}
			}
			rt.Assert(syncAt > lastWrite, tag+"/synced-after-last-write-before-rename")
			rt.Assert(closeAt > syncAt, tag+"/closed-after-sync-before-rename")
		}
		if renamedOK && i > renameIdx && (op == "remove" || op == "removeall") {
			rt.Assert(p != dest, tag+"/dest-not-removed-after-publish")
		}
	}
	// (d) result agrees with publication
	rt.Assert((err == nil) == renamedOK, tag+"/success-iff-published")
	// every temp file this call created is renamed away or a removal was attempted
	for i := 0; i < n; i++ {
		if rt.FsOp(i) != "createtemp" || !rt.FsOK(i) {
			continue
		}
		tmp := rt.FsPath(i)
		handled := false
		for j := i + 1; j < n; j++ {
			if rt.FsOp(j) == "remove" && rt.FsPath(j) == tmp {
				handled = true
			}
			if rt.FsOp(j) == "rename" && rt.FsPath(j) == tmp && rt.FsOK(j) {
				handled = true
			}
		}
		rt.Assert(handled, tag+"/tempfile-renamed-or-removed")
	}
}
