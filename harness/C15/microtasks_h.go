package modules

// C15 harnesses: microtasks respect the concurrency limit, run once, and are
// fully accounted.

import (
	"context"
	"errors"
	"sync"
	"sync/atomic"
	"time"

	rt "github.com/safing/portbase/zz_verifrt"
)

// an error wrapping another one
type c15Wrap struct{ err error }

func (w c15Wrap) Error() string { return "wrapped" }
func (w c15Wrap) Unwrap() error { return w.err }

func c15Setup(threshold int) *Module {
	resetC15()
	SetStdErrReporting(false)
	SetMaxConcurrentMicroTasks(threshold)
	m := initNewModule("mt", nil, nil, nil)
	go microTaskScheduler()
	return m
}

func resetC15() {
	atomic.StoreInt32(microTasks, 0)
	if rt.Symbolic() {
		// natively the package's test init() has already started the scheduler
		microTaskSchedulerStarted.UnSet()
	}
	shutdownFlag.UnSet()
	// drain clearance queues and the finished signal of earlier use
	for len(mediumPriorityClearance) > 0 {
		<-mediumPriorityClearance
	}
	for len(lowPriorityClearance) > 0 {
		<-lowPriorityClearance
	}
	for len(microTaskFinished) > 0 {
		<-microTaskFinished
	}
}

// a panicking microtask while nobody reads the module error channel: the
// report is dropped, the microtask is still concluded and its error returned
func VerifC15_PanicWithUnreadErrorChannel() {
	rt.NoTimers()
	rt.SchedYieldOnly(true)
	m := c15Setup(2)
	lastReportedError = nil
	full := rt.Bool("channel-full-instead-of-unbuffered")
	var ch chan *ModuleError
	if full {
		ch = make(chan *ModuleError, 1)
		ch <- &ModuleError{}
	} else {
		ch = make(chan *ModuleError)
	}
	SetErrorReportingChannel(ch)
	defer SetErrorReportingChannel(nil)
	var err error
	switch rt.Choice("variant", 3) {
	case 0:
		err = m.RunHighPriorityMicroTask("mt", func(context.Context) error { panic("boom") })
	case 1:
		err = m.RunMicroTask("mt", 0, func(context.Context) error { panic("boom") })
	case 2:
		err = m.RunLowPriorityMicroTask("mt", 0, func(context.Context) error { panic("boom") })
	}
	isPanic, _ := IsPanic(err)
	rt.Assert(isPanic, "unreadchannel/error-returned-to-the-caller")
	rt.Assert(atomic.LoadInt32(m.microTaskCnt) == 0, "unreadchannel/module-count-zero")
	rt.Assert(atomic.LoadInt32(microTasks) == 0, "unreadchannel/global-count-zero")
	rt.Reach("unreadchannel-end")
}

// ---- O2: accounting of every variant, function returning error or panicking ----

func VerifC15_Accounting() {
	rt.NoTimers()
	rt.SchedYieldOnly(true)
	m := c15Setup(2)
	variant := rt.Choice("variant", 9)
	outcome := rt.Choice("outcome", 5) // 0 ok, 1 error, 2 panic, 3 context.Canceled, 4 an error wrapping it
	fnErr := errors.New("microtask failed")
	switch outcome {
	case 3:
		fnErr = context.Canceled
	case 4:
		fnErr = c15Wrap{context.Canceled}
	}
	runs := 0
	fn := func(ctx context.Context) error {
		runs++
		rt.Assert(atomic.LoadInt32(m.microTaskCnt) == 1, "acct/module-counter-during-run")
		rt.Assert(atomic.LoadInt32(microTasks) >= 1, "acct/global-counter-during-run")
		switch outcome {
		case 1, 3, 4:
			return fnErr
		case 2:
			panic("microtask panicked")
		}
		return nil
	}
	finished := make(chan struct{})
	wrapped := func(ctx context.Context) error {
		defer close(finished)
		return fn(ctx)
	}
	var err error
	blocking := false
	switch variant {
	case 0:
		err = m.RunHighPriorityMicroTask("t", wrapped)
		blocking = true
	case 1:
		err = m.RunMicroTask("t", 0, wrapped)
		blocking = true
	case 2:
		err = m.RunLowPriorityMicroTask("t", 0, wrapped)
		blocking = true
	case 3:
		m.StartHighPriorityMicroTask("t", wrapped)
	case 4:
		m.StartMicroTask("t", 0, wrapped)
	case 5:
		m.StartLowPriorityMicroTask("t", 0, wrapped)
	case 6, 7, 8:
		var done func()
		switch variant {
		case 6:
			done = m.SignalHighPriorityMicroTask()
		case 7:
			done = m.SignalMicroTask(0)
		default:
			done = m.SignalLowPriorityMicroTask(0)
		}
		rt.Assert(atomic.LoadInt32(m.microTaskCnt) == 1, "acct/signal-counts-module")
		rt.Assert(atomic.LoadInt32(microTasks) == 1, "acct/signal-counts-global")
		calls := 1 + rt.Choice("donecalls", 3)
		for i := 0; i < calls; i++ {
			done()
			rt.Assert(atomic.LoadInt32(m.microTaskCnt) == 0, "acct/done-takes-effect-once")
			rt.Assert(atomic.LoadInt32(microTasks) == 0, "acct/done-takes-effect-once-global")
		}
		rt.Reach("acct-signal")
		return
	}
	<-finished
	if !blocking {
		// let the starter goroutine conclude
		for i := 0; i < 3; i++ {
			rt.Yield()
		}
	}
	rt.Assert(runs == 1, "acct/executed-exactly-once")
	if blocking {
		switch outcome {
		case 0:
			rt.Assert(err == nil, "acct/nil-error-returned")
		case 1, 3, 4:
			rt.Assert(err == fnErr, "acct/error-returned")
		case 2:
			isPanic, me := IsPanic(err)
			rt.Assert(isPanic, "acct/panic-returned-as-error")
			if isPanic {
				rt.Assert(me.Severity == "panic", "acct/panic-severity")
			}
		}
	}
	rt.Assert(atomic.LoadInt32(m.microTaskCnt) == 0, "acct/module-counter-restored")
	rt.Assert(atomic.LoadInt32(microTasks) == 0, "acct/global-counter-restored")
	rt.Reach("acct-end")
}

// ---- O3: at most T medium/low microtasks at the same time ----

func VerifC15_ConcurrencyBound() {
	rt.NoTimers()
	rt.SchedYieldOnly(false) // every blocking point is a scheduling choice
	const T = 2
	m := c15Setup(T)
	k := 3
	gauge := 0
	var wg sync.WaitGroup
	gate := make(chan struct{})
	entered := make(chan struct{}, k)
	fn := func(ctx context.Context) error {
		gauge++
		rt.Assert(gauge <= T, "bound/at-most-threshold-running")
		entered <- struct{}{}
		<-gate // stay inside the microtask until the harness releases it
		gauge--
		return nil
	}
	for i := 0; i < k; i++ {
		wg.Add(1)
		low := rt.Bool("low" + string(rune('0'+i)))
		go func() {
			defer wg.Done()
			if low {
				_ = m.RunLowPriorityMicroTask("t", 0, fn)
			} else {
				_ = m.RunMicroTask("t", 0, fn)
			}
		}()
	}
	// wait until T microtasks sit inside their function, give a wrongly
	// admitted one the chance to enter as well, then release all
	for i := 0; i < T; i++ {
		<-entered
	}
	rt.Yield()
	rt.Yield()
	rt.Assert(gauge <= T, "bound/at-most-threshold-admitted")
	close(gate)
	wg.Wait()
	rt.Assert(gauge == 0, "bound/all-finished")
	rt.Assert(atomic.LoadInt32(microTasks) == 0, "bound/global-counter-zero-after-all-finished")
	rt.Assert(atomic.LoadInt32(m.microTaskCnt) == 0, "bound/module-counter-zero-after-all-finished")
	// later microtasks are admitted
	ran := false
	_ = m.RunMicroTask("later", 0, func(context.Context) error { ran = true; return nil })
	rt.Assert(ran, "bound/later-microtask-admitted")
	rt.Reach("bound-end")
}

// ---- O4: max-delay expiry: a medium/low microtask that was not admitted in
// time starts anyway; once everything has finished the counts are zero again
// and later microtasks are admitted immediately ----

func VerifC15_MaxDelayExpiry() {
	rt.SchedYieldOnly(true)
	m := c15Setup(2) // the minimum threshold
	u := rt.Unit()
	gate := make(chan struct{})
	entered := make(chan struct{}, 2)
	secondLow := rt.Bool("secondLow")
	var wg sync.WaitGroup
	wg.Add(3)
	for i := 0; i < 2; i++ {
		holderLow := rt.Bool("holderLow" + string(rune('0'+i)))
		go func() {
			defer wg.Done()
			hold := func(context.Context) error {
				entered <- struct{}{}
				<-gate
				return nil
			}
			if holderLow {
				_ = m.RunLowPriorityMicroTask("holder", 20*u, hold)
			} else {
				_ = m.RunMicroTask("holder", 20*u, hold)
			}
		}()
	}
	<-entered
	<-entered // both slots are taken by regularly admitted microtasks
	rt.Assert(atomic.LoadInt32(microTasks) == 2, "maxdelay/holders-counted")
	t0 := time.Now()
	var secondAt time.Time
	secondRan := false
	go func() {
		defer wg.Done()
		fn := func(context.Context) error {
			secondRan = true
			secondAt = time.Now()
			return nil
		}
		if secondLow {
			_ = m.RunLowPriorityMicroTask("second", 2*u, fn)
		} else {
			_ = m.RunMicroTask("second", 2*u, fn)
		}
	}()
	time.Sleep(u)
	rt.Assert(!secondRan, "maxdelay/not-started-while-limit-reached-and-delay-not-expired")
	time.Sleep(2 * u)
	rt.Assert(secondRan, "maxdelay/started-after-max-delay")
	if secondRan {
		rt.Assert(!secondAt.Before(t0.Add(2*u)), "maxdelay/not-before-max-delay")
	}
	close(gate)
	wg.Wait()
	time.Sleep(u) // the scheduler picks up the abandoned clearance request
	rt.Assert(atomic.LoadInt32(m.microTaskCnt) == 0, "maxdelay/module-counter-zero-after-all-finished")
	rt.Assert(atomic.LoadInt32(microTasks) == 0, "maxdelay/global-counter-zero-after-all-finished")
	// later microtasks are admitted immediately (not by their own expiry)
	t1 := time.Now()
	ran := false
	_ = m.RunMicroTask("later", 10*u, func(context.Context) error { ran = true; return nil })
	rt.Assert(ran, "maxdelay/later-microtask-runs")
	rt.Assert(time.Since(t1) < 5*u, "maxdelay/later-microtask-admitted-immediately")
	rt.Reach("maxdelay-end")
}

// ---- O5: a module stop that waits for running microtasks completes as soon
// as the last one has finished ----

func VerifC15_StopNotHeldUp() {
	rt.NoTimers()
	rt.SchedYieldOnly(true)
	m := c15Setup(2)
	m.status = StatusOnline
	close(m.startComplete)
	// natively a lost completion must show up as a hang, not as a one-minute timeout
	moduleStopTimeout = time.Hour
	gate := make(chan struct{})
	entered := make(chan struct{}, 2)
	n := 1 + rt.Choice("microtasks", 2)
	var dones []func()
	for i := 0; i < n; i++ {
		fn := func(context.Context) error {
			entered <- struct{}{}
			<-gate
			return nil
		}
		switch rt.Choice("variant"+string(rune('0'+i)), 6) {
		case 0:
			m.StartHighPriorityMicroTask("t", fn)
		case 1:
			m.StartMicroTask("t", 0, fn)
		case 2:
			m.StartLowPriorityMicroTask("t", 0, fn)
		case 3:
			dones = append(dones, m.SignalHighPriorityMicroTask())
			entered <- struct{}{}
		case 4:
			dones = append(dones, m.SignalMicroTask(0))
			entered <- struct{}{}
		case 5:
			dones = append(dones, m.SignalLowPriorityMicroTask(0))
			entered <- struct{}{}
		}
	}
	for i := 0; i < n; i++ {
		<-entered
	}
	rt.Assert(atomic.LoadInt32(m.microTaskCnt) == int32(n), "stop/microtasks-counted")
	reports := make(chan *report, 1)
	go m.stop(reports)
	rt.Yield()
	rt.Yield()
	rt.Assert(len(reports) == 0, "stop/waits-for-running-microtasks")
	// everything finishes
	close(gate)
	for _, done := range dones {
		done()
	}
	rep := <-reports // a stop that is held up shows as a deadlock / hang here
	rt.Assert(rep.err == nil, "stop/no-error")
	rt.Assert(m.Status() == StatusOffline, "stop/offline-after-last-microtask-finished")
	rt.Assert(atomic.LoadInt32(m.microTaskCnt) == 0, "stop/module-counter-zero")
	rt.Reach("stopnotheldup-end")
}

// ---- O6: a full clearance queue: with the limit reached the scheduler stops
// draining the queue, so a burst of submitters fills it; the next submitter
// waits for room (or its max delay), it does not start over the limit.
// Symbolically the queues hold one entry (the state is constructed directly),
// natively they have their real size and the harness fills them. ----

func VerifC15_FullClearanceQueue() {
	rt.NoTimers()
	rt.SchedYieldOnly(true)
	const T = 2
	if rt.Symbolic() {
		mediumPriorityClearance = make(chan chan struct{}, 1)
		lowPriorityClearance = make(chan chan struct{}, 1)
	}
	m := c15Setup(T)
	low := rt.Bool("low")
	queue := mediumPriorityClearance
	if low {
		queue = lowPriorityClearance
	}
	var mu sync.Mutex
	gauge, maxGauge, runs := 0, 0, 0
	gate := make(chan struct{})
	entered := make(chan struct{}, T)
	var wg sync.WaitGroup
	submit := func(holder bool) {
		wg.Add(1)
		go func() {
			defer wg.Done()
			fn := func(context.Context) error {
				mu.Lock()
				gauge++
				runs++
				if gauge > maxGauge {
					maxGauge = gauge
				}
				mu.Unlock()
				if holder {
					entered <- struct{}{}
				}
				<-gate
				mu.Lock()
				gauge--
				mu.Unlock()
				return nil
			}
			if low {
				_ = m.RunLowPriorityMicroTask("t", time.Hour, fn)
			} else {
				_ = m.RunMicroTask("t", time.Hour, fn)
			}
		}()
	}
	for i := 0; i < T; i++ {
		submit(true)
	}
	for i := 0; i < T; i++ {
		<-entered // the limit is reached by regularly admitted microtasks
	}
	// fill the queue
	waiters := cap(queue)
	for i := 0; i < waiters; i++ {
		submit(false)
	}
	for i := 0; i < 200 && len(queue) < cap(queue); i++ {
		if rt.Symbolic() {
			rt.Yield()
		} else {
			time.Sleep(10 * time.Millisecond)
		}
	}
	rt.Assume(len(queue) == cap(queue))
	// some more submitters find the queue full
	extra := 2
	for i := 0; i < extra; i++ {
		submit(false)
	}
	if rt.Symbolic() {
		for i := 0; i < 4; i++ {
			rt.Yield()
		}
	} else {
		time.Sleep(100 * time.Millisecond)
	}
	mu.Lock()
	g := maxGauge
	mu.Unlock()
	rt.Assert(g <= T, "fullqueue/at-most-threshold-running-with-a-full-queue")
	close(gate)
	wg.Wait()
	rt.Assert(runs == T+waiters+extra, "fullqueue/every-function-ran-once")
	rt.Assert(atomic.LoadInt32(m.microTaskCnt) == 0, "fullqueue/module-counter-zero-after-all-finished")
	rt.Assert(atomic.LoadInt32(microTasks) == 0, "fullqueue/global-counter-zero-after-all-finished")
	rt.Reach("fullqueue-end")
}

// ---- O7: a max delay of 0 means the documented default (1 s medium, 3 s
// low), also for the signal variants: with the limit reached such a microtask
// does not start before its default delay has expired ----

func VerifC15_DefaultMaxDelay() {
	rt.SchedYieldOnly(true)
	m := c15Setup(2)
	gate := make(chan struct{})
	entered := make(chan struct{}, 2)
	var wg sync.WaitGroup
	wg.Add(3)
	for i := 0; i < 2; i++ {
		go func() {
			defer wg.Done()
			_ = m.RunMicroTask("holder", time.Hour, func(context.Context) error {
				entered <- struct{}{}
				<-gate
				return nil
			})
		}()
	}
	<-entered
	<-entered
	var started int32
	variant := rt.Choice("variant", 6)
	rt.Region("C15-signal-variant-max-delay-zero", variant == 2 || variant == 3)
	low := variant == 1 || variant == 3 || variant == 5
	go func() {
		defer wg.Done()
		fn := func(context.Context) error {
			atomic.StoreInt32(&started, 1)
			return nil
		}
		switch variant {
		case 0:
			_ = m.RunMicroTask("third", 0, fn)
		case 1:
			_ = m.RunLowPriorityMicroTask("third", 0, fn)
		case 2:
			done := m.SignalMicroTask(0)
			atomic.StoreInt32(&started, 1)
			done()
		case 3:
			done := m.SignalLowPriorityMicroTask(0)
			atomic.StoreInt32(&started, 1)
			done()
		case 4:
			m.StartMicroTask("third", 0, fn)
		case 5:
			m.StartLowPriorityMicroTask("third", 0, fn)
		}
	}()
	time.Sleep(500 * time.Millisecond)
	rt.Assert(atomic.LoadInt32(&started) == 0, "defaultdelay/not-started-over-the-limit-before-the-default-delay")
	time.Sleep(1500 * time.Millisecond)
	// two seconds in: the medium default (1 s) has expired, the low one (3 s) has not
	if low && variant != 3 {
		rt.Assert(atomic.LoadInt32(&started) == 0, "defaultdelay/low-priority-not-started-before-its-default-delay")
	}
	time.Sleep(1500 * time.Millisecond)
	rt.Assert(atomic.LoadInt32(&started) == 1, "defaultdelay/started-after-the-default-delay")
	close(gate)
	wg.Wait()
	time.Sleep(1100 * time.Millisecond) // the scheduler picks up the abandoned clearance request (recheck tick)
	rt.Assert(atomic.LoadInt32(m.microTaskCnt) == 0, "defaultdelay/module-counter-zero-after-all-finished")
	rt.Assert(atomic.LoadInt32(microTasks) == 0, "defaultdelay/global-counter-zero-after-all-finished")
	rt.Reach("defaultdelay-end")
}

// ---- O8: once all microtasks have finished - with the limit reached before
// and nobody waiting - the next microtask is admitted immediately, not at the
// scheduler's next one-second re-check ----

func VerifC15_AdmittedImmediatelyAfterAllFinished() {
	rt.SchedYieldOnly(true)
	m := c15Setup(2)
	gate := make(chan struct{})
	entered := make(chan struct{}, 2)
	var wg sync.WaitGroup
	for i := 0; i < 2; i++ {
		wg.Add(1)
		low := rt.Bool("holderLow" + string(rune('0'+i)))
		go func() {
			defer wg.Done()
			hold := func(context.Context) error {
				entered <- struct{}{}
				<-gate
				return nil
			}
			if low {
				_ = m.RunLowPriorityMicroTask("holder", time.Hour, hold)
			} else {
				_ = m.RunMicroTask("holder", time.Hour, hold)
			}
		}()
	}
	<-entered
	<-entered
	// let the scheduler notice that the limit is reached
	time.Sleep(10 * time.Millisecond)
	close(gate)
	wg.Wait()
	rt.Assert(atomic.LoadInt32(microTasks) == 0, "afterall/global-counter-zero")
	rt.Assert(atomic.LoadInt32(m.microTaskCnt) == 0, "afterall/module-counter-zero")
	laterLow := rt.Bool("laterLow")
	t1 := time.Now()
	ran := false
	fn := func(context.Context) error { ran = true; return nil }
	if laterLow {
		_ = m.RunLowPriorityMicroTask("later", time.Hour, fn)
	} else {
		_ = m.RunMicroTask("later", time.Hour, fn)
	}
	rt.Assert(ran, "afterall/later-microtask-runs")
	rt.Assert(time.Since(t1) < 500*time.Millisecond, "afterall/later-microtask-admitted-immediately")
	rt.Reach("afterall-end")
}
