package modules

// C07 harnesses: tasks - no self-overlap, no early or cancelled runs, queue
// order, nothing lost.

import (
	"container/list"
	"context"
	"time"

	rt "github.com/safing/portbase/zz_verifrt"
)

func c07Reset() *Module {
	SetStdErrReporting(false)
	shutdownFlag.UnSet()
	moduleMgmtEnabled.UnSet()
	sleepMode.UnSet()
	taskQueue = list.New()
	prioritizedTaskQueue = list.New()
	taskSchedule = list.New()
	if rt.Symbolic() {
		// natively the package's test init() has already started the handlers
		taskQueueHandlerStarted.UnSet()
		taskScheduleHandlerStarted.UnSet()
	}
	for len(queueIsFilled) > 0 {
		<-queueIsFilled
	}
	for len(notifyTaskScheduler) > 0 {
		<-notifyTaskScheduler
	}
	m := initNewModule("m", nil, nil, nil)
	m.status = StatusOnline
	close(m.startComplete)
	return m
}

// ---- O1: schedule list stays sorted, each task at most once (inductive step) ----

func scheduleOK(tag string) {
	var prev *Task
	seen := map[*Task]bool{}
	for e := taskSchedule.Front(); e != nil; e = e.Next() {
		t := e.Value.(*Task)
		rt.Assert(!seen[t], tag+"/each-task-at-most-once")
		seen[t] = true
		rt.Assert(t.scheduleListElement == e, tag+"/element-pointer-consistent")
		if prev != nil {
			rt.Assert(!t.executeAt.Before(prev.executeAt), tag+"/sorted-by-execute-time")
		}
		prev = t
	}
}

func VerifC07_ScheduleSorted() {
	m := c07Reset()
	const baseSec = 1_700_000_000
	n := rt.Len("n", 0, 3)
	var tasks []*Task
	// arbitrary sorted list: offsets are non-decreasing symbolic seconds
	var last int64
	for i := 0; i < n; i++ {
		off := rt.I64("off" + string(rune('0'+i)))
		rt.Assume(off >= last)
		rt.Assume(off < 1_000_000)
		last = off
		t := m.NewTask("t", func(context.Context, *Task) error { return nil })
		t.executeAt = time.Unix(baseSec+off, 0) // seconds only: no symbolic multiplication
		t.scheduleListElement = taskSchedule.PushBack(t)
		tasks = append(tasks, t)
	}
	scheduleOK("pre")
	// one addToSchedule for a new or an already listed task with a new time
	var t *Task
	if which := rt.Choice("which", n+1); which < n {
		t = tasks[which]
	} else {
		t = m.NewTask("new", func(context.Context, *Task) error { return nil })
	}
	noff := rt.I64("newoff")
	rt.Assume(noff >= -1_000_000)
	rt.Assume(noff < 1_000_000)
	if rt.Bool("viaSchedule") {
		// the exported entry point (a zero time would un-schedule: not here)
		t.Schedule(time.Unix(baseSec+noff, 0))
		rt.Assert(t.executeAt.Equal(time.Unix(baseSec+noff, 0)), "post/execute-time-recorded")
	} else {
		t.executeAt = time.Unix(baseSec+noff, 0)
		t.addToSchedule(rt.Bool("overtime"))
	}
	scheduleOK("post")
	rt.Assert(t.scheduleListElement != nil, "post/task-is-listed")
	want := n
	if t.name == "new" {
		want = n + 1
	}
	rt.Assert(taskSchedule.Len() == want, "post/list-length")
	rt.Assert(len(notifyTaskScheduler) == 1, "post/scheduler-notified")
	rt.Reach("schedule-end")
}

// ---- O2: queue order, each task run once per distinct submission batch ----

func VerifC07_QueueOrder() {
	rt.SchedYieldOnly(true)
	m := c07Reset()
	nTasks := 3
	var started []int
	running := 0
	var tasks []*Task
	for i := 0; i < nTasks; i++ {
		i := i
		t := m.NewTask("t", func(context.Context, *Task) error {
			running++
			rt.Assert(running == 1, "queue/one-task-at-a-time")
			started = append(started, i)
			rt.Yield()
			running--
			return nil
		}).MaxDelay(0)
		tasks = append(tasks, t)
	}
	// submissions before the handler starts
	nSub := 3
	if rt.Thorough() {
		nSub = 4
	}
	cnt := rt.Len("submissions", 0, nSub)
	type sub struct{ task, kind int }
	var subs []sub
	for s := 0; s < cnt; s++ {
		ti := rt.Choice("task"+string(rune('0'+s)), nTasks)
		kind := rt.Choice("kind"+string(rune('0'+s)), 3)
		subs = append(subs, sub{ti, kind})
		switch kind {
		case 0:
			tasks[ti].Queue()
		case 1:
			tasks[ti].QueuePrioritized()
		case 2:
			tasks[ti].StartASAP()
		}
	}
	// reference order: model of the two queues
	var prio, normal []int
	inPrio := func(t int) int {
		for i, x := range prio {
			if x == t {
				return i
			}
		}
		return -1
	}
	inNormal := func(t int) bool {
		for _, x := range normal {
			if x == t {
				return true
			}
		}
		return false
	}
	for _, s := range subs {
		switch s.kind {
		case 0:
			if !inNormal(s.task) {
				normal = append(normal, s.task)
			}
		case 1:
			if inPrio(s.task) < 0 {
				prio = append(prio, s.task)
			}
		case 2:
			if i := inPrio(s.task); i >= 0 {
				prio = append(prio[:i], prio[i+1:]...)
			}
			prio = append([]int{s.task}, prio...)
		}
	}
	// expected start order: prioritized queue front to back, then normal queue;
	// a task in both queues runs when first reached and is then removed from both
	var want []int
	ran := map[int]bool{}
	for _, t := range append(append([]int{}, prio...), normal...) {
		if !ran[t] {
			ran[t] = true
			want = append(want, t)
		}
	}
	// serve execution time slots and run the real handler
	go func() {
		for {
			taskTimeslot <- struct{}{}
		}
	}()
	go taskQueueHandler()
	// quiesce: long enough on the virtual clock for every execution-wait limit
	rt.Quiesce(10 * time.Minute)
	rt.Assert(len(started) == len(want), "queue/every-submitted-task-ran-and-none-more-than-submitted")
	if len(started) == len(want) {
		for i := range want {
			rt.Assert(started[i] == want[i], "queue/start-order")
		}
	}
	rt.Assert(taskQueue.Len() == 0, "queue/normal-queue-drained")
	rt.Assert(prioritizedTaskQueue.Len() == 0, "queue/prioritized-queue-drained")
	rt.Reach("queue-end")
}

// ---- O3: a task cancelled while waiting never starts ----

func VerifC07_CancelledNeverStarts() {
	rt.SchedYieldOnly(true)
	rt.SpinLimit(200) // a handler that loops without ever waiting is a livelock
	m := c07Reset()
	u := rt.Unit()
	started := false
	t := m.NewTask("t", func(context.Context, *Task) error { started = true; return nil })
	switch rt.Choice("how", 4) {
	case 0:
		t.MaxDelay(0).Queue()
	case 1:
		t.MaxDelay(0).QueuePrioritized()
	case 2:
		t.MaxDelay(0).StartASAP()
	case 3:
		t.Schedule(time.Now().Add(u))
	}
	t.Cancel()
	// the cancelled entry does not hold up what waits behind it: a task
	// scheduled for a later time, and a queued one
	laterRan, queuedRan := false, false
	m.NewTask("later", func(context.Context, *Task) error { laterRan = true; return nil }).Schedule(time.Now().Add(2 * u))
	m.NewTask("queued", func(context.Context, *Task) error { queuedRan = true; return nil }).MaxDelay(0).Queue()
	go func() {
		for {
			taskTimeslot <- struct{}{}
		}
	}()
	go taskQueueHandler()
	go taskScheduleHandler()
	time.Sleep(6 * u)
	rt.Assert(!started, "cancel/cancelled-task-never-starts")
	rt.Assert(laterRan, "cancel/task-scheduled-behind-a-cancelled-one-still-runs")
	rt.Assert(queuedRan, "cancel/task-queued-behind-a-cancelled-one-still-runs")
	rt.Reach("cancel-end")
}

// cancelled while executing with a pending entry (re-queued from outside, or
// re-scheduled by its own function): the pending entry never starts it again
func VerifC07_CancelledWhileRunning() {
	rt.SchedYieldOnly(true)
	m := c07Reset()
	u := rt.Unit()
	runs := 0
	gate := make(chan struct{})
	how := rt.Choice("pending", 5)
	var t *Task
	t = m.NewTask("t", func(context.Context, *Task) error {
		runs++
		if runs == 1 {
			if how == 4 {
				t.Schedule(time.Now().Add(2 * u)) // next execution set by the task itself
			}
			<-gate
		}
		return nil
	}).MaxDelay(3 * u)
	other := m.NewTask("other", func(context.Context, *Task) error { return nil }).MaxDelay(3 * u)
	go func() {
		for {
			taskTimeslot <- struct{}{}
		}
	}()
	go taskQueueHandler()
	go taskScheduleHandler()
	t.Queue()
	time.Sleep(u / 2) // the task is inside its function
	rt.Assert(runs == 1, "cancelrunning/first-run-started")
	switch how {
	case 0:
		t.Queue()
	case 1:
		other.Queue()
		t.Queue()
	case 2:
		t.QueuePrioritized()
	case 3:
		t.Schedule(time.Now().Add(2 * u))
	}
	t.Cancel()
	time.Sleep(u / 2)
	close(gate) // the cancelled run returns
	time.Sleep(6 * u)
	rt.Assert(runs == 1, "cancelrunning/cancelled-task-not-started-again")
	rt.Reach("cancelrunning-end")
}

// a task that already ran through the queue and is then scheduled waits, at its
// scheduled time, for the task that occupies the queue slot (it is queued, not
// started directly)
func VerifC07_ScheduledAfterQueuedRun() {
	rt.SchedYieldOnly(true)
	m := c07Reset()
	u := rt.Unit()
	aRuns := 0
	bRunning := false
	gate := make(chan struct{})
	// with a max delay, and without one (0: no max delay)
	aDelay := time.Duration(3*rt.Choice("maxdelay", 2)) * u
	a := m.NewTask("a", func(context.Context, *Task) error {
		aRuns++
		rt.Assert(!bRunning, "schedafterqueue/not-started-while-the-slot-is-taken")
		return nil
	}).MaxDelay(aDelay)
	b := m.NewTask("b", func(context.Context, *Task) error {
		bRunning = true
		<-gate
		bRunning = false
		return nil
	}).MaxDelay(3 * u)
	go func() {
		for {
			taskTimeslot <- struct{}{}
		}
	}()
	go taskQueueHandler()
	go taskScheduleHandler()
	// first run of a through a queue (or none: the task is only ever scheduled)
	first := rt.Choice("firstrun", 4)
	switch first {
	case 0:
		a.Queue()
	case 1:
		a.QueuePrioritized()
	case 2:
		a.StartASAP()
	}
	time.Sleep(u / 8)
	base := 1
	if first == 3 {
		base = 0
	}
	rt.Assert(aRuns == base, "schedafterqueue/first-run-done")
	// b takes the queue slot and stays in its function (a task that returned
	// very quickly may keep the slot busy for up to the execution-wait limit:
	// wait until b has started)
	b.Queue()
	for i := 0; i < 20 && !bRunning; i++ {
		time.Sleep(u / 8)
	}
	rt.Assert(bRunning, "schedafterqueue/slot-taken")
	// a is scheduled for a time at which b still runs (well within the
	// execution-wait limit of one minute) - possibly while it also waits in the
	// queue behind b
	alsoQueued := rt.Bool("also-queued-behind-the-running-task")
	if alsoQueued {
		a.Queue()
	}
	a.Schedule(time.Now().Add(u / 4))
	time.Sleep(u / 2)
	rt.Assert(aRuns == base, "schedafterqueue/scheduled-task-waits-for-the-running-one")
	close(gate)
	time.Sleep(u / 2)
	if alsoQueued {
		rt.Assert(aRuns >= base+1 && aRuns <= base+2, "schedafterqueue/scheduled-and-queued-task-runs-afterwards")
	} else {
		rt.Assert(aRuns == base+1, "schedafterqueue/scheduled-task-runs-afterwards")
	}
	rt.Reach("schedafterqueue-end")
}

// a repeating task that already ran through the queue comes up again at its
// repeat time while another task holds the queue slot: it is queued, not
// started directly (the repeat interval has a minimum of one minute: this
// harness runs 80 s natively)
func VerifC07_RepeatingTaskWaitsForSlot() {
	rt.SchedYieldOnly(true)
	rt.NativeTimeout(100 * time.Second)
	m := c07Reset()
	aRuns := 0
	bRunning := false
	gate := make(chan struct{})
	a := m.NewTask("a", func(context.Context, *Task) error {
		aRuns++
		rt.Assert(!bRunning, "repeatslot/not-started-while-the-slot-is-taken")
		// (a task that returns at once may keep the queue's slot busy for up
		// to the execution-wait limit: this one takes a moment)
		time.Sleep(time.Second)
		return nil
	}).MaxDelay(10 * time.Minute)
	b := m.NewTask("b", func(context.Context, *Task) error {
		bRunning = true
		<-gate
		bRunning = false
		return nil
	}).MaxDelay(0)
	go func() {
		for {
			taskTimeslot <- struct{}{}
		}
	}()
	go taskQueueHandler()
	go taskScheduleHandler()
	a.Repeat(time.Minute)
	// first run through a queue
	switch rt.Choice("firstrun", 3) {
	case 0:
		a.Queue()
	case 1:
		a.QueuePrioritized()
	case 2:
		a.StartASAP()
	}
	time.Sleep(50 * time.Second)
	rt.Assert(aRuns == 1, "repeatslot/first-run-done")
	b.Queue()
	time.Sleep(25 * time.Second) // the repeat time (60 s after the first run) has come, b still runs
	rt.Assert(bRunning, "repeatslot/slot-taken")
	rt.Assert(aRuns == 1, "repeatslot/repeated-task-waits-for-the-running-one")
	close(gate)
	time.Sleep(5 * time.Second)
	rt.Assert(aRuns == 2, "repeatslot/repeated-task-runs-afterwards")
	a.Cancel()
	rt.Reach("repeatslot-end")
}

// ---- O4: a scheduled task does not start early, and does start ----

func VerifC07_NotEarly() {
	rt.SchedYieldOnly(true)
	m := c07Reset()
	u := rt.Unit()
	var startedAt time.Time
	started := false
	t0 := time.Now()
	delay := time.Duration(1+rt.Choice("delay", 3)) * u
	t := m.NewTask("t", func(context.Context, *Task) error {
		started = true
		startedAt = time.Now()
		return nil
	}).MaxDelay(3 * u)
	t.Schedule(t0.Add(delay))
	go func() {
		for {
			taskTimeslot <- struct{}{}
		}
	}()
	go taskQueueHandler()
	go taskScheduleHandler()
	time.Sleep(delay - u/2)
	rt.Assert(!started, "notearly/not-started-before-scheduled-time")
	time.Sleep(6 * u)
	rt.Assert(started, "notearly/started-after-scheduled-time")
	if started {
		rt.Assert(!startedAt.Before(t0.Add(delay)), "notearly/start-time>=scheduled-time")
	}
	rt.Reach("notearly-end")
}

// a task that is scheduled again while waiting follows its latest schedule:
// not early (when moved later), not lost behind a later-due task (when moved
// earlier)
func VerifC07_Reschedule() {
	rt.SchedYieldOnly(true)
	m := c07Reset()
	u := rt.Unit()
	var startedAt time.Time
	started, farStarted := false, false
	t0 := time.Now()
	d1 := time.Duration(1+rt.Choice("first", 3)) * u
	d2 := time.Duration(1+rt.Choice("second", 4)) * u
	t := m.NewTask("t", func(context.Context, *Task) error {
		started = true
		startedAt = time.Now()
		return nil
	}).MaxDelay(3 * u)
	far := m.NewTask("far", func(context.Context, *Task) error {
		farStarted = true
		return nil
	}).MaxDelay(3 * u)
	withFar := rt.Bool("far")
	if withFar {
		far.Schedule(t0.Add(15 * u))
	}
	t.Schedule(t0.Add(d1))
	go func() {
		for {
			taskTimeslot <- struct{}{}
		}
	}()
	go taskQueueHandler()
	go taskScheduleHandler()
	if rt.Bool("handlerSawFirst") {
		time.Sleep(u / 4) // the schedule handler has armed its timer for the first time
	}
	t.Schedule(t0.Add(d2))
	if rt.Symbolic() {
		scheduleOK("resched")
	}
	time.Sleep(t0.Add(d2 - u/2).Sub(time.Now()))
	rt.Assert(!started, "resched/not-started-before-latest-scheduled-time")
	time.Sleep(6 * u)
	rt.Assert(started, "resched/started-after-latest-scheduled-time")
	if started {
		rt.Assert(!startedAt.Before(t0.Add(d2)), "resched/start-time>=latest-scheduled-time")
	}
	// a stale timer of the schedule handler (armed for t's maxDelay entry)
	// must not start the next scheduled task before its time
	rt.Assert(!farStarted, "resched/other-task-not-early")
	rt.Reach("resched-end")
}

// a task that is being started from the queue is scheduled (from outside) for
// a later time while it waits for its time slot: the queued run happens, the
// scheduled one not before its time
func VerifC07_ScheduledWhileBeingStarted() {
	rt.SchedYieldOnly(true)
	m := c07Reset()
	u := rt.Unit()
	runs := 0
	var lastStart time.Time
	t := m.NewTask("t", func(context.Context, *Task) error {
		runs++
		lastStart = time.Now()
		return nil
	}).MaxDelay(0)
	go taskQueueHandler()
	go taskScheduleHandler()
	go func() {
		for {
			taskTimeslot <- struct{}{}
		}
	}()
	t0 := time.Now()
	// the span between "marked as executing" and the start of the task's
	// goroutine is held open (also natively) by holding the module's lock:
	// the queue handler blocks where it asks whether the module is online
	m.Lock()
	switch rt.Choice("submit", 3) {
	case 0:
		t.Queue()
	case 1:
		t.QueuePrioritized()
	case 2:
		t.StartASAP()
	}
	time.Sleep(u / 2) // the queue handler has taken the task and is being held
	rt.Assert(runs == 0, "schedwhilestarting/held-before-its-goroutine-starts")
	at := t0.Add(6 * u)
	t.Schedule(at)
	m.Unlock()
	time.Sleep(2 * u)
	rt.Assert(runs == 1, "schedwhilestarting/queued-run-happened-and-nothing-started-before-the-scheduled-time")
	// (another task is scheduled: the schedule handler looks at the schedule again)
	otherRan := false
	m.NewTask("other", func(context.Context, *Task) error { otherRan = true; return nil }).Schedule(t0.Add(20 * u))
	time.Sleep(u)
	rt.Assert(runs == 1, "schedwhilestarting/nothing-started-before-the-scheduled-time")
	rt.Assert(!otherRan, "schedwhilestarting/other-task-not-early")
	time.Sleep(8 * u)
	rt.Assert(runs == 2, "schedwhilestarting/scheduled-run-happened")
	if runs == 2 {
		rt.Assert(!lastStart.Before(at), "schedwhilestarting/scheduled-run-not-before-its-time")
	}
	rt.Reach("schedwhilestarting-end")
}

// Schedule with the zero time cancels the scheduled execution - a task that
// (also) waits in a queue is still executed
func VerifC07_ScheduleZeroKeepsQueuedTask() {
	rt.SchedYieldOnly(true)
	m := c07Reset()
	u := rt.Unit()
	runs := 0
	bRunning := false
	gate := make(chan struct{})
	delay := time.Duration(3*rt.Choice("maxdelay", 2)) * u
	t := m.NewTask("t", func(context.Context, *Task) error {
		runs++
		return nil
	}).MaxDelay(delay)
	b := m.NewTask("b", func(context.Context, *Task) error {
		bRunning = true
		<-gate
		bRunning = false
		return nil
	}).MaxDelay(0)
	go func() {
		for {
			taskTimeslot <- struct{}{}
		}
	}()
	go taskQueueHandler()
	go taskScheduleHandler()
	b.Queue()
	time.Sleep(u / 8)
	rt.Assert(bRunning, "schedzero/slot-taken")
	// the task is scheduled or not, and waits in a queue behind b
	scheduled := rt.Bool("scheduled-before")
	if scheduled {
		t.Schedule(time.Now().Add(20 * u))
	}
	switch rt.Choice("submit", 3) {
	case 0:
		t.Queue()
	case 1:
		t.QueuePrioritized()
	case 2:
		t.StartASAP()
	}
	t.Schedule(time.Time{})
	// (something else is scheduled: the schedule handler looks at the schedule
	// again) - the queued task keeps waiting for the slot
	m.NewTask("other", func(context.Context, *Task) error { return nil }).Schedule(time.Now().Add(20 * u))
	time.Sleep(u / 8)
	rt.Assert(runs == 0, "schedzero/queued-task-keeps-waiting-for-the-slot")
	close(gate)
	time.Sleep(8 * u)
	rt.Assert(runs >= 1, "schedzero/queued-task-still-executed")
	rt.Assert(runs <= 1, "schedzero/executed-once")
	rt.Reach("schedzero-end")
}

// every entry of the two queues belongs to the task it names (the analogue of
// scheduleOK for the queues)
func queuesOK(tag string) {
	queuesLock.Lock()
	defer queuesLock.Unlock()
	for e := taskQueue.Front(); e != nil; e = e.Next() {
		rt.Assert(e.Value.(*Task).queueElement == e, tag+"/queue-entry-belongs-to-its-task")
	}
	for e := prioritizedTaskQueue.Front(); e != nil; e = e.Next() {
		rt.Assert(e.Value.(*Task).prioritizedQueueElement == e, tag+"/prioritized-queue-entry-belongs-to-its-task")
	}
}

// a queued task whose max delay expires while another task holds the slot is
// started directly - and leaves no entry behind in its queue: scheduled
// afterwards, it does not start before its time when the queue moves on
func VerifC07_DirectStartLeavesNoQueueEntry() {
	rt.SchedYieldOnly(true)
	m := c07Reset()
	// (a unit well below the execution-wait limit of one minute, so that the
	// queue's slot stays taken while the other task runs)
	u := 10 * time.Second
	if !rt.Symbolic() {
		u = 100 * time.Millisecond
	}
	runs := 0
	bRunning := false
	gate := make(chan struct{})
	var lastStart time.Time
	t := m.NewTask("t", func(context.Context, *Task) error {
		runs++
		lastStart = time.Now()
		return nil
	}).MaxDelay(u)
	b := m.NewTask("b", func(context.Context, *Task) error {
		bRunning = true
		<-gate
		bRunning = false
		return nil
	}).MaxDelay(0)
	go func() {
		for {
			taskTimeslot <- struct{}{}
		}
	}()
	go taskQueueHandler()
	go taskScheduleHandler()
	b.Queue()
	time.Sleep(u / 8)
	rt.Assert(bRunning, "directstart/slot-taken")
	switch rt.Choice("submit", 3) {
	case 0:
		t.Queue()
	case 1:
		t.QueuePrioritized()
	case 2:
		t.StartASAP()
	}
	time.Sleep(2 * u) // the max delay has expired: started directly
	rt.Assert(runs == 1, "directstart/started-when-its-max-delay-expired")
	queuesOK("directstart") // (everything is at rest: t has returned, b waits)
	at := time.Now().Add(6 * u)
	t.Schedule(at)
	close(gate) // the queue moves on
	time.Sleep(3 * u)
	rt.Assert(runs == 1, "directstart/scheduled-task-not-started-before-its-time")
	time.Sleep(8 * u)
	rt.Assert(runs == 2, "directstart/scheduled-run-happened")
	if runs == 2 {
		rt.Assert(!lastStart.Before(at), "directstart/scheduled-run-not-before-its-time")
	}
	if rt.Symbolic() {
		queuesOK("directstart")
	}
	rt.Reach("directstart-end")
}

// the schedule handler wakes up on a stale timer (the entry it was armed for
// has been unscheduled in the meantime) and finds the max-delay entry of a
// task that waits in the queue behind a running one, not yet due: it leaves
// it alone
func VerifC07_StaleTimerLeavesQueuedTaskAlone() {
	rt.SchedYieldOnly(true)
	m := c07Reset()
	u := 10 * time.Second
	if !rt.Symbolic() {
		u = 100 * time.Millisecond
	}
	bRunning := false
	wRuns := 0
	gate := make(chan struct{})
	b := m.NewTask("b", func(context.Context, *Task) error {
		bRunning = true
		<-gate
		bRunning = false
		return nil
	}).MaxDelay(0)
	w := m.NewTask("w", func(context.Context, *Task) error {
		wRuns++
		rt.Assert(!bRunning, "staletimer/not-started-while-the-slot-is-taken")
		return nil
	}).MaxDelay(4 * u)
	third := m.NewTask("third", func(context.Context, *Task) error { return nil })
	go func() {
		for {
			taskTimeslot <- struct{}{}
		}
	}()
	go taskQueueHandler()
	go taskScheduleHandler()
	b.Queue()
	time.Sleep(u / 8)
	rt.Assert(bRunning, "staletimer/slot-taken")
	switch rt.Choice("submit", 3) {
	case 0:
		w.Queue()
	case 1:
		w.QueuePrioritized()
	case 2:
		w.StartASAP()
	}
	// a third task is scheduled for soon and unscheduled again: the schedule
	// handler's timer stays armed for that time
	third.Schedule(time.Now().Add(u))
	time.Sleep(u / 8)
	third.Schedule(time.Time{})
	time.Sleep(2 * u) // the stale timer has fired
	rt.Assert(wRuns == 0, "staletimer/queued-task-waits-for-the-slot")
	close(gate)
	time.Sleep(u)
	rt.Assert(wRuns == 1, "staletimer/queued-task-runs-afterwards")
	rt.Reach("staletimer-end")
}

// ---- O5: no self-overlap when re-queued while executing; the re-submission is not lost ----

func VerifC07_NoSelfOverlap() {
	rt.SchedYieldOnly(true)
	m := c07Reset()
	running, runs := 0, 0
	gate := make(chan struct{})
	var t *Task
	t = m.NewTask("t", func(context.Context, *Task) error {
		running++
		rt.Assert(running == 1, "overlap/never-two-activations")
		runs++
		if runs == 1 {
			<-gate // first activation blocks until released
		}
		running--
		return nil
	}).MaxDelay(0)
	go func() {
		for {
			taskTimeslot <- struct{}{}
		}
	}()
	go taskQueueHandler()
	t.Queue()
	rt.Quiesce(time.Second) // first activation is now inside its function
	rt.Assert(runs == 1, "overlap/first-activation-started")
	// re-submit from outside while it executes
	switch rt.Choice("resubmit", 3) {
	case 0:
		t.Queue()
	case 1:
		t.QueuePrioritized()
	case 2:
		t.StartASAP()
	}
	rt.Quiesce(time.Second)
	rt.Assert(runs == 1, "overlap/second-activation-waits")
	close(gate)
	rt.Quiesce(10 * time.Minute)
	rt.Assert(runs == 2, "overlap/resubmission-executed-after-the-first-returned")
	rt.Reach("overlap-end")
}

// one submission, one run: the max delay of a queued task expires at the very
// moment the queue comes to it - both handlers then hold the task, in every
// order of their steps; it is still executed once only
func VerifC07_OneSubmissionOneRun() {
	rt.SchedYieldOnly(true)
	rt.Preemptions(1)
	rt.PreemptedRunLast(true)
	rt.TimersFireTogether(true)
	m := c07Reset()
	u := rt.Unit()
	runs := 0
	b := m.NewTask("b", func(context.Context, *Task) error {
		time.Sleep(u) // occupies the queue's slot until the other task's max delay expires
		return nil
	}).MaxDelay(0)
	t := m.NewTask("t", func(context.Context, *Task) error {
		runs++
		return nil
	}).MaxDelay(u)
	go func() {
		for {
			taskTimeslot <- struct{}{}
		}
	}()
	go taskQueueHandler()
	go taskScheduleHandler()
	b.Queue()
	switch rt.Choice("submit", 3) {
	case 0:
		t.Queue()
	case 1:
		t.QueuePrioritized()
	case 2:
		t.StartASAP()
	}
	rt.Quiesce(10 * time.Minute)
	rt.Assert(runs >= 1, "onesubmission/executed")
	rt.Assert(runs <= 1, "onesubmission/not-more-often-than-submitted")
	rt.Reach("onesubmission-end")
}

// a re-submission while the task executes, whose max delay expires before the
// execution ends: the schedule handler finds the task executing - the
// submission is carried over, not lost
func VerifC07_ResubmittedWithShortMaxDelay() {
	rt.SchedYieldOnly(true)
	m := c07Reset()
	u := rt.Unit()
	running, runs := 0, 0
	gate := make(chan struct{})
	var t *Task
	t = m.NewTask("t", func(context.Context, *Task) error {
		running++
		rt.Assert(running == 1, "shortdelay/never-two-activations")
		runs++
		if runs == 1 {
			<-gate
		}
		running--
		return nil
	}).MaxDelay(u)
	go func() {
		for {
			taskTimeslot <- struct{}{}
		}
	}()
	go taskQueueHandler()
	go taskScheduleHandler()
	t.Queue()
	time.Sleep(u / 2) // the first activation is inside its function
	rt.Assert(runs == 1, "shortdelay/first-activation-started")
	switch rt.Choice("resubmit", 3) {
	case 0:
		t.Queue()
	case 1:
		t.QueuePrioritized()
	case 2:
		t.StartASAP()
	}
	time.Sleep(3 * u) // the max delay of the re-submission expires during the run
	rt.Assert(runs == 1, "shortdelay/second-activation-waits")
	close(gate)
	time.Sleep(4 * u)
	rt.Assert(runs == 2, "shortdelay/resubmission-executed-after-the-first-returned")
	rt.Reach("shortdelay-end")
}

// the first activation runs longer than the execution-wait limit while the
// task is re-submitted: still no overlap, and the re-submission is not lost
func VerifC07_LongRunningResubmitted() {
	rt.SchedYieldOnly(true)
	m := c07Reset()
	running, runs := 0, 0
	gate := make(chan struct{})
	var t *Task
	t = m.NewTask("t", func(context.Context, *Task) error {
		running++
		rt.Assert(running == 1, "longrun/never-two-activations")
		runs++
		if runs == 1 {
			<-gate
		}
		running--
		return nil
	}).MaxDelay(0)
	go func() {
		for {
			taskTimeslot <- struct{}{}
		}
	}()
	go taskQueueHandler()
	t.Queue()
	rt.Quiesce(time.Second)
	t.Queue()
	// (the queue handler gives up waiting after maxExecutionWait and takes the
	// re-submitted task from the queue while it is still executing: the
	// submission is carried over to after the run - a former known finding)
	rt.Quiesce(2 * time.Minute) // longer than maxExecutionWait
	close(gate)
	rt.Quiesce(10 * time.Minute)
	rt.Reach("longrun-end")
	rt.Assert(runs == 2, "longrun/resubmission-executed-after-the-first-returned")
}

// ---- O9: a module whose start routine failed does not stall the task queue:
// a task of that module that is waiting in the queue is not executed, and the
// tasks of online modules behind it still run ----

func VerifC07_FailedStartDoesNotStallQueue() {
	rt.SchedYieldOnly(true)
	online := c07Reset()
	failure := rt.Choice("failure", 2)
	// the queue may come to the task while the start routine is still running
	whileStarting := rt.Bool("task-picked-up-while-the-module-is-starting")
	release := make(chan struct{})
	var submit func()
	broken := initNewModule("broken", nil, func() error {
		if whileStarting {
			// (the start routine itself creates and submits the task, as
			// start routines commonly do)
			submit()
			<-release
		}
		if failure == 1 {
			panic("start routine panicked")
		}
		return errStartFailed
	}, nil)
	broken.status = StatusOffline // prepared
	brokenRan, onlineRan := false, false
	// a task of the module is created and queued before the start attempt (e.g.
	// by its prep routine) or after it (by code that does not know it failed)
	kind := rt.Choice("kind", 3)
	submit = func() {
		tb := broken.NewTask("tb", func(context.Context, *Task) error { brokenRan = true; return nil }).MaxDelay(0)
		switch kind {
		case 0:
			tb.Queue()
		case 1:
			tb.QueuePrioritized()
		case 2:
			tb.StartASAP()
		}
	}
	before := rt.Bool("task-created-before-the-start-attempt")
	if whileStarting {
		before = true
	} else if before {
		submit()
	}
	// the start attempt fails
	reports := make(chan *report, 1)
	broken.start(reports)
	if whileStarting {
		go func() {
			for {
				taskTimeslot <- struct{}{}
			}
		}()
		go taskQueueHandler()
		rt.Quiesce(time.Second) // the handler has taken the task and waits for the start
		close(release)
	}
	rep := <-reports
	rt.Assert(rep.err != nil, "failedstart/start-reports-the-failure")
	rt.Assert(broken.Status() == StatusOffline, "failedstart/module-offline")
	if !before {
		submit()
	}
	to := online.NewTask("to", func(context.Context, *Task) error { onlineRan = true; return nil }).MaxDelay(0)
	to.Queue()
	if !whileStarting {
		go func() {
			for {
				taskTimeslot <- struct{}{}
			}
		}()
		go taskQueueHandler()
	}
	rt.Quiesce(10 * time.Minute)
	rt.Assert(!brokenRan, "failedstart/task-of-the-failed-module-not-executed")
	rt.Assert(onlineRan, "failedstart/task-of-an-online-module-behind-it-still-runs")
	rt.Reach("failedstart-end")
}

var errStartFailed = errorString("start failed")

type errorString string

func (e errorString) Error() string { return string(e) }
