package modules

// C01 harnesses: module lifecycle order.

import (
	"context"
	"errors"
	"time"

	rt "github.com/safing/portbase/zz_verifrt"
)

// ---- O1: gate lemmas (single call, arbitrary state) ----

func gateModule(name string, k int, tag string) (*Module, []*Module) {
	m := initNewModule(name, nil, nil, nil)
	m.status = rt.U8(tag + ".status")
	rt.Assume(m.status <= StatusOnline)
	m.enabled.SetTo(rt.Bool(tag + ".enabled"))
	m.enabledAsDependency.SetTo(rt.Bool(tag + ".enabledAsDep"))
	var others []*Module
	for i := 0; i < k; i++ {
		o := initNewModule(name+"-o", nil, nil, nil)
		o.status = rt.U8(tag + ".o" + string(rune('0'+i)) + ".status")
		rt.Assume(o.status <= StatusOnline)
		others = append(others, o)
	}
	return m, others
}

func VerifC01_GateLemmas() {
	k := rt.Len("k", 0, 2)
	m, others := gateModule("m", k, "m")
	moduleMgmtEnabled.SetTo(rt.Bool("mgmt"))
	shutdownFlag.SetTo(rt.Bool("shutdown"))
	wanted := rt.Any(m.enabled.IsSet(), m.enabledAsDependency.IsSet())
	mgmt := moduleMgmtEnabled.IsSet()
	switch rt.Choice("gate", 3) {
	case 0: // prep
		m.depModules = others
		allPrepped := true
		for _, o := range others {
			allPrepped = rt.All(allPrepped, o.status >= StatusOffline)
		}
		want := statusNothingToDo
		if m.status == StatusDead {
			want = uint8(rt.IteU64(allPrepped, uint64(statusReady), uint64(statusWaiting)))
		}
		rt.Assert(m.readyToPrep() == want, "gate/prep")
	case 1: // start
		m.depModules = others
		allOnline := true
		for _, o := range others {
			allOnline = rt.All(allOnline, o.status == StatusOnline)
		}
		got := m.readyToStart()
		want := uint64(statusNothingToDo)
		active := rt.All(rt.Implies(mgmt, wanted), m.status == StatusOffline)
		want = rt.IteU64(active, rt.IteU64(allOnline, uint64(statusReady), uint64(statusWaiting)), want)
		rt.Assert(uint64(got) == want, "gate/start")
	case 2: // stop
		m.depReverse = others
		allDown := true
		for _, o := range others {
			allDown = rt.All(allDown, o.status <= StatusOffline)
		}
		got := m.readyToStop()
		keep := rt.All(mgmt, !shutdownFlag.IsSet(), wanted)
		active := rt.All(!keep, m.status == StatusOnline)
		want := rt.IteU64(active, rt.IteU64(allDown, uint64(statusReady), uint64(statusWaiting)), uint64(statusNothingToDo))
		rt.Assert(uint64(got) == want, "gate/stop")
	}
	rt.Reach("gate-end")
}

// ---- O2/O3: passes over every small DAG with failing callbacks ----

type lcEvent struct {
	mod   int
	phase int // 0 prep, 1 start, 2 stop
	end   bool
	ok    bool
}

var (
	lcTrace  []lcEvent
	lcFaults int
)

const maxMods = 3

// DAG shapes on up to 3 modules: deps[i] lists the modules i depends on
var dagShapes = [][][]int{
	{{}},                 // 1 module
	{{}, {}},             // 2 independent
	{{}, {0}},            // 1 -> 0
	{{}, {}, {}},         // 3 independent
	{{}, {0}, {0}},       // fan-in on 0
	{{}, {0}, {1}},       // chain 2 -> 1 -> 0
	{{}, {}, {0, 1}},     // 2 depends on both
	{{}, {0}, {0, 1}},    // diamond-ish
	{{}, {0}, {}},        // chain of two plus a free one
}

var modNames = []string{"a", "b", "c"}

// the module (index) whose start routine launches a worker that runs until its
// context is cancelled; -1: none
var lcWorkerOn = -1

func lcCallback(i, phase int) func() error {
	return func() error {
		if phase == 1 && i == lcWorkerOn {
			modules[modNames[i]].StartWorker("until-cancelled", func(ctx context.Context) error {
				<-ctx.Done()
				return nil
			})
		}
		lcTrace = append(lcTrace, lcEvent{mod: i, phase: phase})
		rt.Yield() // callbacks of concurrently launched modules overlap in every order
		if phase == 2 && i == lcWorkerOn {
			rt.NativePause() // natively: the worker has ended while this stop routine is still busy
		}
		outcome := 0
		if lcFaults > 0 {
			outcome = rt.Choice("outcome", 3) // 0 ok, 1 error, 2 panic
			if outcome != 0 {
				lcFaults--
			}
		}
		if outcome == 2 {
			lcTrace = append(lcTrace, lcEvent{mod: i, phase: phase, end: true, ok: false})
			panic("callback panicked")
		}
		lcTrace = append(lcTrace, lcEvent{mod: i, phase: phase, end: true, ok: outcome == 0})
		if outcome == 1 {
			return errors.New("callback failed")
		}
		return nil
	}
}

func resetModuleSystem() {
	modules = make(map[string]*Module)
	modulesLocked.UnSet()
	moduleMgmtEnabled.UnSet()
	shutdownFlag.UnSet()
	modulesChangeNotifyFn = nil
	SetStdErrReporting(false)
	lcTrace = nil
	lcWorkerOn = -1
}

func buildDAG(shape int) []*Module {
	deps := dagShapes[shape]
	mods := make([]*Module, len(deps))
	for i := range deps {
		var names []string
		for _, d := range deps[i] {
			names = append(names, modNames[d])
		}
		mods[i] = Register(modNames[i], lcCallback(i, 0), lcCallback(i, 1), lcCallback(i, 2), names...)
	}
	return mods
}

func evIndex(mod, phase int, end bool, nth int) int {
	for i, ev := range lcTrace {
		if ev.mod == mod && ev.phase == phase && ev.end == end {
			if nth == 0 {
				return i
			}
			nth--
		}
	}
	return -1
}

func countEv(mod, phase int, end bool, okOnly bool) int {
	n := 0
	for _, ev := range lcTrace {
		if ev.mod == mod && ev.phase == phase && ev.end == end && (!okOnly || ev.ok) {
			n++
		}
	}
	return n
}

// order obligations on the recorded trace
func checkOrder(deps [][]int, tag string) {
	for i := range deps {
		// prep once, before any start, after the prep of its dependencies
		rt.Assert(countEv(i, 0, false, false) <= 1, tag+"/prep-at-most-once")
		ps := evIndex(i, 0, false, 0)
		ss := evIndex(i, 1, false, 0)
		if ss >= 0 {
			rt.Assert(ps >= 0 && ps < ss, tag+"/prep-before-start")
			pe := evIndex(i, 0, true, 0)
			rt.Assert(pe >= 0 && pe < ss && lcTrace[pe].ok, tag+"/prep-finished-ok-before-start")
		}
		for _, d := range deps[i] {
			if ps >= 0 {
				dpe := evIndex(d, 0, true, 0)
				rt.Assert(dpe >= 0 && dpe < ps && lcTrace[dpe].ok, tag+"/dependency-prepped-before-prep")
			}
			// every start of i begins after a successful start of d has finished
			for n := 0; ; n++ {
				s := evIndex(i, 1, false, n)
				if s < 0 {
					break
				}
				okBefore := false
				for j := 0; j < s; j++ {
					ev := lcTrace[j]
					if ev.mod == d && ev.phase == 1 && ev.end && ev.ok {
						okBefore = true
					}
				}
				rt.Assert(okBefore, tag+"/dependency-started-before-start")
			}
			// every stop of d begins after every started dependent i has stopped:
			// no start of i without a following finished stop of i before d's stop
			for n := 0; ; n++ {
				ds := evIndex(d, 2, false, n)
				if ds < 0 {
					break
				}
				running := 0
				for j := 0; j < ds; j++ {
					ev := lcTrace[j]
					if ev.mod == i && ev.phase == 1 && ev.end && ev.ok {
						running++
					}
					if ev.mod == i && ev.phase == 2 && ev.end {
						running--
					}
				}
				rt.Assert(running <= 0, tag+"/dependents-stopped-before-stop")
			}
		}
	}
}

func VerifC01_StartAllThenShutdown() {
	resetModuleSystem()
	rt.NoTimers()
	rt.SchedYieldOnly(true)
	nshapes := 6
	if rt.Thorough() {
		nshapes = len(dagShapes)
	}
	shape := rt.Choice("shape", nshapes)
	deps := dagShapes[shape]
	lcFaults = rt.Choice("faults", 2) // at most one failing callback
	// one module may run a worker that ends when the module's context is
	// cancelled, i.e. while its stop routine is still running
	// (quick tier: the last module of the shape, and only without a failing callback)
	lcWorkerOn = -1
	if rt.Thorough() {
		lcWorkerOn = rt.Choice("worker-on", len(deps)+1) - 1
	} else if lcFaults == 0 && rt.Bool("worker-on-last") {
		lcWorkerOn = len(deps) - 1
	}
	mods := buildDAG(shape)
	if err := initDependencies(); err != nil {
		rt.Assert(false, "lifecycle/init-dependencies")
		return
	}
	prepErr := prepareModules()
	var startErr error
	if prepErr == nil {
		buildEnabledTree()
		startErr = startModules()
		if startErr == nil {
			// exactly the wanted (= all) modules are online
			for i, m := range mods {
				rt.Assert(m.Status() == StatusOnline, "lifecycle/all-online-after-start")
				rt.Assert(countEv(i, 1, true, true) == 1, "lifecycle/started-once")
			}
			rt.Reach("lifecycle-started")
		}
	}
	// failure of a callback must be reported by the pass
	failed := false
	for _, ev := range lcTrace {
		if ev.end && !ev.ok && ev.phase != 2 {
			failed = true
		}
	}
	rt.Assert(failed == (prepErr != nil || startErr != nil), "lifecycle/error-iff-callback-failed")

	// Shutdown (from stopModules on)
	shutdownFlag.Set()
	stopErr := stopModules()
	_ = stopErr
	for i, m := range mods {
		rt.Assert(m.Status() != StatusOnline, "shutdown/no-module-online")
		// stop invoked exactly once per successful start
		rt.Assert(countEv(i, 2, false, false) == countEv(i, 1, true, true), "shutdown/stop-once-per-successful-start")
	}
	checkOrder(deps, "order")
	rt.Reach("lifecycle-end")
}

// management passes: enable bits symbolic, two rounds
func VerifC01_Management() {
	resetModuleSystem()
	rt.NoTimers()
	rt.SchedYieldOnly(true)
	nshapes := 6
	if rt.Thorough() {
		nshapes = len(dagShapes)
	}
	shape := rt.Choice("shape", nshapes)
	deps := dagShapes[shape]
	lcFaults = 0
	mods := buildDAG(shape)
	moduleMgmtEnabled.Set()
	if initDependencies() != nil || prepareModules() != nil {
		rt.Assert(false, "mgmt/setup")
		return
	}
	rounds := 2
	for r := 0; r < rounds; r++ {
		for i, m := range mods {
			m.SetEnabled(rt.Bool("enable" + string(rune('0'+r)) + string(rune('0'+i))))
		}
		err := ManageModules()
		rt.Assert(err == nil, "mgmt/pass-ok")
		// wanted = enabled modules plus their transitive dependencies
		wanted := make([]bool, len(mods))
		for i, m := range mods {
			wanted[i] = m.Enabled()
		}
		for it := 0; it < len(mods); it++ {
			for i := range mods {
				for _, d := range deps[i] {
					wanted[d] = rt.Any(wanted[d], wanted[i])
				}
			}
		}
		for i, m := range mods {
			rt.Assert((m.Status() == StatusOnline) == wanted[i], "mgmt/online-iff-wanted")
		}
	}
	shutdownFlag.Set()
	_ = stopModules()
	for i, m := range mods {
		rt.Assert(m.Status() != StatusOnline, "mgmt/shutdown-no-module-online")
		rt.Assert(countEv(i, 2, false, false) == countEv(i, 1, true, true), "mgmt/stop-once-per-successful-start")
	}
	checkOrder(deps, "mgmtorder")
	// a management pass that arrives after the shutdown (e.g. one that waited
	// for the management lock while the shutdown ran) starts nothing
	if rt.Bool("late-management-pass") {
		_ = ManageModules()
		for _, m := range mods {
			rt.Assert(m.Status() != StatusOnline, "mgmt/no-module-online-after-a-management-pass-behind-the-shutdown")
		}
	}
	rt.Reach("mgmt-end")
}

// ---- management passes with one failing callback: a pass that returns
// without error has brought exactly the wanted modules online; a failed start
// or stop is reported ----

func VerifC01_ManagementFailure() {
	resetModuleSystem()
	rt.NoTimers()
	rt.SchedYieldOnly(true)
	nshapes := 4
	if rt.Thorough() {
		nshapes = 6
	}
	// (quick: chain, fan-in, diamond-ish and the two-plus-one shape)
	shape := []int{2, 1, 4, 5, 0, 3}[rt.Choice("shape", nshapes)]
	deps := dagShapes[shape]
	lcFaults = 0
	mods := buildDAG(shape)
	moduleMgmtEnabled.Set()
	if initDependencies() != nil || prepareModules() != nil {
		rt.Assert(false, "mgmtfail/setup")
		return
	}
	for i, m := range mods {
		m.SetEnabled(rt.Bool("enable0" + string(rune('0'+i))))
	}
	rt.Assert(ManageModules() == nil, "mgmtfail/first-pass-ok")
	// second pass: the wanted set changes and one start or stop callback fails
	for i, m := range mods {
		m.SetEnabled(rt.Bool("enable1" + string(rune('0'+i))))
	}
	lcFaults = 1
	err := ManageModules()
	failed := lcFaults == 0
	if failed {
		rt.Assert(err != nil, "mgmtfail/failed-callback-reported")
		rt.Reach("mgmtfail-failed")
	}
	if err == nil {
		wanted := make([]bool, len(mods))
		for i, m := range mods {
			wanted[i] = m.Enabled()
		}
		for it := 0; it < len(mods); it++ {
			for i := range mods {
				for _, d := range deps[i] {
					wanted[d] = rt.Any(wanted[d], wanted[i])
				}
			}
		}
		for i, m := range mods {
			rt.Assert((m.Status() == StatusOnline) == wanted[i], "mgmtfail/no-error-means-online-iff-wanted")
		}
	}
	lcFaults = 0
	shutdownFlag.Set()
	_ = stopModules()
	for _, m := range mods {
		rt.Assert(m.Status() != StatusOnline, "mgmtfail/shutdown-no-module-online")
	}
	rt.Reach("mgmtfail-end")
}

// ---- a shutdown and a further management pass both queued on the management
// lock (a pass is in progress): the pass behind the shutdown starts nothing ----

func VerifC01_ShutdownQueuedBeforeManagementPass() {
	resetModuleSystem()
	rt.NoTimers()
	rt.SchedYieldOnly(true)
	shape := []int{2, 5}[rt.Choice("shape", 2)] // 1 -> 0, chain of three
	deps := dagShapes[shape]
	lcFaults = 0
	mods := buildDAG(shape)
	if err := initDependencies(); err != nil {
		rt.Assert(false, "queued/init-dependencies")
		return
	}
	rt.Assert(prepareModules() == nil, "queued/prepare")
	EnableModuleManagement(nil)
	for _, m := range mods {
		m.Enable()
	}
	rt.Assert(ManageModules() == nil, "queued/first-pass-ok")
	// a pass is in progress (the lock is held); the shutdown queues up on the
	// lock, a further management pass behind it. (The shutdown is the core of
	// Shutdown(): lock, flag, stopModules.)
	mgmtLock.Lock()
	sdone, mdone := make(chan struct{}), make(chan struct{})
	go func() {
		mgmtLock.Lock()
		shutdownFlag.Set()
		_ = stopModules()
		mgmtLock.Unlock()
		close(sdone)
	}()
	rt.Yield()
	go func() {
		_ = ManageModules()
		close(mdone)
	}()
	rt.Yield()
	mgmtLock.Unlock()
	<-sdone
	<-mdone
	for i, m := range mods {
		rt.Assert(m.Status() != StatusOnline, "queued/no-module-online-after-shutdown-and-the-pass-behind-it")
		rt.Assert(countEv(i, 2, false, false) == countEv(i, 1, true, true), "queued/stop-once-per-successful-start")
	}
	checkOrder(deps, "queuedorder")
	rt.Reach("queued-end")
}

// ---- stop order under one preemption at any synchronisation operation (G2):
// a module with a dependency owns a worker that ends as soon as the context
// is cancelled - the dependency's stop routine still begins only after the
// dependent's stop routine has returned ----

func VerifC01_StopOrderWithPromptWorker() {
	resetModuleSystem()
	rt.NoTimers()
	rt.SchedYieldOnly(true)
	rt.Preemptions(1)
	SetStdErrReporting(false)
	moduleStopTimeout = time.Hour // (a lost completion must hang, not time out)
	var order []string
	user := initNewModule("user", nil, nil, func() error {
		order = append(order, "user-stop-begin")
		for i := 0; i < 3; i++ {
			rt.Yield() // (the stop routine takes a while: anything may run meanwhile)
		}
		rt.NativePause()
		order = append(order, "user-stop-end")
		return nil
	})
	dep := initNewModule("dep", nil, nil, func() error {
		order = append(order, "dep-stop-begin")
		return nil
	})
	user.depModules = []*Module{dep}
	dep.depReverse = []*Module{user}
	modules = map[string]*Module{"user": user, "dep": dep}
	for _, m := range []*Module{user, dep} {
		m.status = StatusOnline
		close(m.startComplete)
	}
	// natively the window between cancelling the context and starting the
	// stop routine is widened instead of being scheduled
	cancel := user.cancelCtx
	user.cancelCtx = func() {
		cancel()
		rt.NativePause()
	}
	began := false
	kind := rt.Choice("kind", 3)
	body := func(ctx context.Context) error {
		began = true
		<-ctx.Done()
		return nil
	}
	switch kind {
	case 0:
		user.StartWorker("w", body)
	case 1:
		user.StartServiceWorker("sw", 0, body)
	case 2:
		user.StartHighPriorityMicroTask("mt", body)
	}
	rt.Yield()
	if !began {
		return
	}
	rt.Assert(stopModules() == nil, "promptworker/stop-ok")
	rt.Assert(len(order) == 3, "promptworker/both-stop-routines-ran")
	if len(order) == 3 {
		rt.Assert(order[0] == "user-stop-begin" && order[1] == "user-stop-end" && order[2] == "dep-stop-begin", "promptworker/dependency-stops-after-the-dependent-has-stopped")
	}
	rt.Assert(user.Status() == StatusOffline && dep.Status() == StatusOffline, "promptworker/offline")
	rt.Reach("promptworker-end")
}

// ---- the Start() wrapper itself, with module management whose change-notify
// function runs a management pass (as the documentation suggests): no start
// routine begins while any module is still being prepped, and after Start
// returned exactly the wanted modules are online ----

func VerifC01_StartWrapper() {
	resetModuleSystem()
	rt.SchedYieldOnly(true)
	initialStartCompleted.UnSet()
	globalPrepFn, cmdLineOperation = nil, nil
	shape := []int{0, 2}[rt.Choice("shape", 2)] // two free modules, or 1 -> 0
	deps := dagShapes[shape]
	lcFaults = 0
	mods := buildDAG(shape)
	EnableModuleManagement(func(*Module) {
		_ = ManageModules()
	})
	for _, m := range mods {
		m.Enable()
	}
	err := Start()
	rt.Assert(err == nil, "startwrapper/start-ok")
	rt.Quiesce(time.Second) // the notify workers have had their passes
	// prep of every module has finished before any start routine begins
	firstStart := -1
	for j, ev := range lcTrace {
		if ev.phase == 1 && !ev.end && firstStart < 0 {
			firstStart = j
		}
	}
	for j, ev := range lcTrace {
		if ev.phase == 0 && firstStart >= 0 {
			rt.Assert(j < firstStart, "startwrapper/every-prep-before-any-start")
		}
	}
	for i, m := range mods {
		rt.Assert(m.Status() == StatusOnline, "startwrapper/wanted-modules-online")
		rt.Assert(countEv(i, 0, false, false) == 1, "startwrapper/prepped-once")
		rt.Assert(countEv(i, 1, false, false) == 1, "startwrapper/started-once")
	}
	checkOrder(deps, "startwrapperorder")
	shutdownFlag.Set()
	_ = stopModules()
	rt.Reach("startwrapper-end")
}

// ---- the real Start() with prep routines that change what is wanted: the
// set of modules that is started is the one wanted when the prep phase is
// over (a prep routine learns from the flags that its module cannot run and
// disables it, or switches another module on) ----

func VerifC01_StartWithPrepTogglingModules() {
	resetModuleSystem()
	rt.SchedYieldOnly(true)
	initialStartCompleted.UnSet()
	globalPrepFn, cmdLineOperation = nil, nil
	started := map[string]int{}
	reg := func(name string, prep func() error, deps ...string) *Module {
		return Register(name, prep, func() error { started[name]++; return nil }, func() error { started[name]--; return nil }, deps...)
	}
	EnableModuleManagement(func(*Module) {})
	base := reg("base", nil)
	storage := reg("storage", nil, "base")
	variant := rt.Choice("variant", 2)
	var feature, sw *Module
	switch variant {
	case 0:
		// the enabled module disables itself in its prep routine
		feature = reg("feature", func() error { feature.Disable(); return nil }, "storage")
		feature.Enable()
	case 1:
		// the enabled module enables another one in its prep routine
		feature = reg("feature", nil, "storage")
		sw = reg("switch", func() error { feature.Enable(); return nil })
		sw.Enable()
	}
	err := Start()
	rt.Assert(err == nil, "preptoggle/start-ok")
	rt.Quiesce(time.Second)
	for _, m := range []*Module{base, storage, feature} {
		rt.Assert(m.Online() == (variant == 1), "preptoggle/online-iff-wanted-after-prep")
		rt.Assert(started[m.Name] == map[bool]int{false: 0, true: 1}[variant == 1], "preptoggle/started-iff-wanted")
	}
	if sw != nil {
		rt.Assert(sw.Online(), "preptoggle/online-iff-wanted-after-prep")
	}
	shutdownFlag.Set()
	_ = stopModules()
	for _, m := range []*Module{base, storage, feature} {
		rt.Assert(!m.Online() && started[m.Name] == 0, "preptoggle/everything-started-is-stopped")
	}
	rt.Reach("preptoggle-end")
}
