package log

// C20 harnesses: no enabled log line is lost, duplicated or reordered.

import (
	"context"
	"time"

	rt "github.com/safing/portbase/zz_verifrt"
)

type c20Out struct {
	msg        string
	level      Severity
	duplicates uint64
	tracer     bool
	traceLines int
	traceMin   Severity // lowest level among the attached trace lines (0: none)
}

var c20Got []c20Out

// natively: the output adapter is slow (a flush takes a while)
var c20SlowAdapter bool

func c20Start() {
	c20Got = nil
	rt.CallerFile("/repo/log/zz_verif_log_h.go", 1)
	_ = Start()
	adapter = AdapterFunc(func(msg Message, duplicates uint64) {
		if c20SlowAdapter {
			rt.NativePause()
		}
		ll := msg.(*logLine)
		o := c20Out{msg: ll.msg, level: ll.level, duplicates: duplicates, tracer: ll.tracer != nil}
		if ll.tracer != nil {
			o.traceLines = len(ll.tracer.logs)
			for _, tl := range ll.tracer.logs {
				if o.traceMin == 0 || tl.level < o.traceMin {
					o.traceMin = tl.level
				}
			}
		}
		c20Got = append(c20Got, o)
	})
}

// one call site per severity (lines of one severity share file and line)
func c20Emit(level Severity, msg string) {
	switch level {
	case TraceLevel:
		Trace(msg)
	case DebugLevel:
		Debug(msg)
	case InfoLevel:
		Info(msg)
	case WarningLevel:
		Warning(msg)
	case ErrorLevel:
		Error(msg)
	case CriticalLevel:
		Critical(msg)
	}
}

func c20Total() uint64 {
	var n uint64
	for _, o := range c20Got {
		n += 1 + o.duplicates
	}
	return n
}

// ---- O1: level filter ----

func VerifC20_Filter() {
	rt.SchedYieldOnly(true)
	c20Start()
	global := Severity(1 + rt.Choice("global", 6))
	SetLogLevel(global)
	inForce := global
	// an earlier configuration of the per-package levels is replaced as a whole
	// by a later one
	if rt.Bool("earlier-pkg-levels") {
		earlier := Severity(1 + rt.Choice("earlierlevel", 6))
		SetPkgLevels(map[string]Severity{"log": earlier})
		inForce = earlier
	}
	switch rt.Choice("pkgmode", 4) {
	case 1: // per-package levels with an entry for this package
		lv := Severity(1 + rt.Choice("pkglevel", 6))
		SetPkgLevels(map[string]Severity{"log": lv})
		inForce = lv
	case 2: // per-package levels without an entry for this package
		SetPkgLevels(map[string]Severity{"other": Severity(1 + rt.Choice("pkglevel", 6))})
		inForce = global
	case 3: // per-package levels switched off again
		UnSetPkgLevels()
		inForce = global
	}
	level := Severity(1 + rt.Choice("level", 6))
	c20Emit(level, "m")
	rt.Quiesce(time.Second)
	if level >= inForce {
		rt.Assert(len(c20Got) == 1, "filter/enabled-line-emitted-exactly-once")
		if len(c20Got) == 1 {
			rt.Assert(c20Got[0].msg == "m" && c20Got[0].level == level && c20Got[0].duplicates == 0, "filter/line-content")
		}
	} else {
		rt.Assert(len(c20Got) == 0, "filter/disabled-line-never-emitted")
	}
	rt.Reach("filter-end")
}

// ---- O2: drain, order, merging of consecutive identical lines ----


// one call site for plain and traced lines: a nil tracer falls back to plain
// logging, so both kinds share message, level, file and line
func c20Via(tr *ContextTracer, warning bool, msg string) {
	if warning {
		tr.Warning(msg)
	} else {
		tr.Info(msg)
	}
}

func VerifC20_OrderAndMerge() {
	rt.SchedYieldOnly(true)
	c20Start()
	SetLogLevel(TraceLevel)
	maxK := 3
	if rt.Thorough() {
		maxK = 4
	}
	k := rt.Len("k", 0, maxK)
	type in struct {
		msg     string
		warning bool
		traced  bool // submitted through a context tracer (never merged)
		extra   int  // further lines collected by that tracer
	}
	kinds := []in{
		{"a", false, false, 0}, {"b", false, false, 0}, {"a", true, false, 0},
		{"a", false, true, 0}, {"a", false, true, 1}, {"b", false, true, 0},
	}
	var ins []in
	for i := 0; i < k; i++ {
		tag := "l" + string(rune('0'+i))
		l := kinds[rt.Choice(tag+".kind", len(kinds))]
		ins = append(ins, l)
		var tr *ContextTracer
		if l.traced {
			_, tr = AddTracer(context.Background())
			if l.extra == 1 {
				tr.Debug("collected")
			}
		}
		c20Via(tr, l.warning, l.msg)
		tr.Submit()
		if rt.Bool(tag + ".pause") {
			rt.Quiesce(time.Second) // the writer may run between two lines
		}
	}
	rt.Quiesce(time.Second)
	rt.Assert(c20Total() == uint64(k), "order/every-line-accounted-once")
	// expanding the output (line repeated 1+duplicates times) gives the input sequence
	pos := 0
	for _, o := range c20Got {
		if o.tracer {
			rt.Assert(o.duplicates == 0, "order/tracer-submission-never-merged")
		}
		for r := uint64(0); r <= o.duplicates; r++ {
			if pos < len(ins) {
				rt.Assert(ins[pos].msg == o.msg && ins[pos].warning == (o.level == WarningLevel), "order/output-is-input-order-with-adjacent-equal-lines-merged")
				rt.Assert(ins[pos].traced == o.tracer, "order/plain-and-traced-lines-not-confused")
				if o.tracer {
					rt.Assert(o.traceLines == ins[pos].extra, "order/tracer-submission-keeps-its-collected-lines")
				}
			}
			pos++
		}
	}
	rt.Reach("order-end")
}

// ---- O3: more lines than the buffer holds: none lost, producer order kept ----

func VerifC20_Overflow() {
	rt.SchedYieldOnly(true)
	c20Start()
	SetLogLevel(TraceLevel)
	logBuffer = make(chan *logLine, 2) // shrink the 1024-entry buffer
	msgs := []string{"1", "2", "3", "4", "5"}
	for _, m := range msgs {
		Info(m)
	}
	rt.Quiesce(time.Second)
	rt.Assert(len(c20Got) == len(msgs), "overflow/none-lost-none-duplicated")
	for i := range c20Got {
		if i < len(msgs) {
			rt.Assert(c20Got[i].msg == msgs[i], "overflow/producer-order-kept")
		}
	}
	rt.Reach("overflow-end")
}

// a context-tracer submission that finds the buffer full while the writer is
// busy in the middle of a batch (held inside the adapter): it waits, and
// reaches the adapter exactly once
func VerifC20_SubmitWithFullBuffer() {
	rt.SchedYieldOnly(true)
	c20Start()
	SetLogLevel(TraceLevel)
	logBuffer = make(chan *logLine, 2) // shrink the 1024-entry buffer
	gate := make(chan struct{})
	held := false
	inner := adapter
	adapter = AdapterFunc(func(msg Message, duplicates uint64) {
		if !held {
			held = true
			<-gate // the writer is busy with this line for a while
		}
		inner.Write(msg, duplicates)
	})
	Info("first")
	rt.Quiesce(5 * time.Millisecond) // the writer has taken the line and is inside the adapter
	Info("fill1")
	Info("fill2")
	_, tracer := AddTracer(context.Background())
	tracer.Info("collected")
	tracer.Warning("main")
	done := make(chan struct{})
	go func() {
		tracer.Submit() // the buffer is full: blocks
		close(done)
	}()
	rt.Quiesce(5 * time.Millisecond)
	close(gate)
	<-done
	rt.Quiesce(time.Second)
	submissions, lines := 0, 0
	for _, o := range c20Got {
		lines += 1 + int(o.duplicates)
		if o.tracer {
			submissions++
			rt.Assert(o.traceLines == 1, "submitfull/submission-carries-its-collected-line")
		}
	}
	rt.Assert(submissions == 1, "submitfull/submission-reaches-the-adapter-exactly-once")
	rt.Assert(lines == 4, "submitfull/every-line-exactly-once")
	rt.Reach("submitfull-end")
}

// the final flush takes longer than the writer's idle time-out (an adapter that
// needs a while per line, several lines still buffered at Shutdown because
// the writer is externally scheduled and was never triggered): everything is
// written all the same
func VerifC20_ShutdownFlushTakesLong() {
	rt.SchedYieldOnly(true)
	schedulingEnabled = true // (what EnableScheduling does before the logger starts)
	defer func() { schedulingEnabled = false }()
	c20Start()
	SetLogLevel(TraceLevel)
	inner := adapter
	adapter = AdapterFunc(func(msg Message, duplicates uint64) {
		time.Sleep(6 * time.Millisecond) // a slow output
		inner.Write(msg, duplicates)
	})
	k := 3 + rt.Choice("more", 2)
	if !rt.Symbolic() {
		// (natively the order in which a select takes two ready cases is
		// random: more lines make a flush that ends early all but certain)
		k += 12
	}
	for i := 0; i < k; i++ {
		Info("line" + string(rune('a'+i)))
	}
	Shutdown()
	rt.Assert(c20Total() == uint64(k), "slowflush/everything-logged-before-shutdown-was-written")
	rt.Reach("slowflush-end")
}

// ---- O4: Shutdown returns only after everything logged before it was written ----

func VerifC20_Shutdown() {
	rt.SchedYieldOnly(true)
	c20Start()
	SetLogLevel(TraceLevel)
	k := rt.Len("k", 0, 3)
	for i := 0; i < k; i++ {
		Info(string(rune('a' + i)))
		if rt.Bool("pause" + string(rune('0'+i))) {
			rt.Quiesce(5 * time.Millisecond)
		}
	}
	Shutdown()
	rt.Assert(c20Total() == uint64(k), "shutdown/everything-logged-before-was-written")
	for i, o := range c20Got {
		rt.Assert(o.msg == string(rune('a'+i)), "shutdown/order-kept")
	}
	rt.Reach("shutdown-end")
}

// Shutdown right after the writer finished a batch (it is in its 10 ms
// back-off): a line logged in that window is still written
var c20Written chan struct{}

func VerifC20_ShutdownRightAfterAWrite() {
	rt.SchedYieldOnly(true)
	c20Start()
	SetLogLevel(TraceLevel)
	c20Written = make(chan struct{}, 8)
	inner := adapter
	adapter = AdapterFunc(func(msg Message, duplicates uint64) {
		inner.Write(msg, duplicates)
		select {
		case c20Written <- struct{}{}:
		default:
		}
	})
	k := rt.Len("k", 1, 2)
	for i := 0; i < k; i++ {
		Info("first" + string(rune('a'+i)))
		<-c20Written // the writer has handed the line to the adapter
	}
	last := rt.Len("last", 1, 2)
	for i := 0; i < last; i++ {
		Info("last" + string(rune('a'+i)))
	}
	Shutdown()
	rt.Assert(c20Total() == uint64(k+last), "shutdownafterwrite/everything-logged-before-was-written")
	rt.Reach("shutdownafterwrite-end")
}

// a second Shutdown call (e.g. a module and main both stopping the logger)
// returns only after the flush as well
func VerifC20_ShutdownTwice() {
	rt.SchedYieldOnly(true)
	c20Start()
	c20SlowAdapter = true
	SetLogLevel(TraceLevel)
	k := rt.Len("k", 1, 3)
	for i := 0; i < k; i++ {
		Info(string(rune('a' + i)))
	}
	first := make(chan struct{})
	go func() {
		Shutdown()
		close(first)
	}()
	rt.Yield() // the first call may be anywhere in its flush
	if !rt.Symbolic() {
		time.Sleep(20 * time.Millisecond)
	}
	Shutdown()
	rt.Assert(c20Total() == uint64(k), "shutdowntwice/second-call-returns-after-the-flush")
	<-first
	rt.Assert(c20Total() == uint64(k), "shutdowntwice/everything-written-once")
	c20SlowAdapter = false
	rt.Reach("shutdowntwice-end")
}

// ---- O5: context tracer submissions carry all their lines ----

func VerifC20_TracerSubmit() {
	rt.SchedYieldOnly(true)
	c20Start()
	SetLogLevel(TraceLevel)
	_, tracer := AddTracer(context.Background())
	n := rt.Len("n", 0, 3)
	for i := 0; i < n; i++ {
		tracer.Info(string(rune('a' + i)))
	}
	tracer.Submit()
	rt.Quiesce(time.Second)
	if n == 0 {
		rt.Assert(len(c20Got) == 0, "tracer/empty-trace-emits-nothing")
		rt.Reach("tracer-empty")
		return
	}
	rt.Assert(len(c20Got) == 1, "tracer/one-line-submitted")
	if len(c20Got) == 1 {
		o := c20Got[0]
		rt.Assert(o.tracer, "tracer/tracer-attached")
		rt.Assert(o.msg == string(rune('a'+n-1)), "tracer/last-line-is-main-line")
		rt.Assert(o.traceLines == n-1, "tracer/remaining-lines-attached")
	}
	rt.Reach("tracer-end")
}

// ---- O6: context tracers obey the level in force for the calling package:
// below it, no tracer is handed out and nothing below the level is emitted ----

func VerifC20_TracerLevels() {
	rt.SchedYieldOnly(true)
	c20Start()
	global := Severity(1 + rt.Choice("global", 6))
	SetLogLevel(global)
	inForce := global
	switch rt.Choice("pkgmode", 3) {
	case 1:
		lv := Severity(1 + rt.Choice("pkglevel", 6))
		SetPkgLevels(map[string]Severity{"log": lv})
		inForce = lv
	case 2:
		SetPkgLevels(map[string]Severity{"other": Severity(1 + rt.Choice("pkglevel", 6))})
	}
	_, tracer := AddTracer(context.Background())
	rt.Assert((tracer != nil) == (inForce == TraceLevel), "tracerlevels/tracer-handed-out-iff-trace-level-in-force")
	tracer.Trace("t")
	tracer.Warning("w")
	tracer.Submit()
	rt.Quiesce(time.Second)
	for _, o := range c20Got {
		rt.Assert(o.level >= inForce, "tracerlevels/no-line-below-the-level-in-force")
		if o.traceMin != 0 {
			rt.Assert(o.traceMin >= inForce, "tracerlevels/no-trace-line-below-the-level-in-force")
		}
	}
	// the warning is at or above every level up to Warning
	if inForce <= WarningLevel {
		found := false
		for _, o := range c20Got {
			found = found || o.msg == "w"
		}
		rt.Assert(found, "tracerlevels/enabled-line-emitted")
	}
	rt.Reach("tracerlevels-end")
}
