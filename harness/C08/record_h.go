package record

// C08 harnesses: stored-record format round-trips and its decoder is total.

import (
	"sync"

	"github.com/safing/portbase/formats/dsd"
	rt "github.com/safing/portbase/zz_verifrt"
)

type verifRecord struct {
	Base
	sync.Mutex
	A int64
	B bool
	C uint8
}

func symMeta() *Meta {
	return &Meta{
		Created:   rt.I64("created"),
		Modified:  rt.I64("modified"),
		Expires:   rt.I64("expires"),
		Deleted:   rt.I64("deleted"),
		secret:    rt.Bool("secret"),
		cronjewel: rt.Bool("crownjewel"),
	}
}

func sameMeta(a, b *Meta, tag string) {
	rt.Assert(a.Created == b.Created, tag+"/created")
	rt.Assert(a.Modified == b.Modified, tag+"/modified")
	rt.Assert(a.Expires == b.Expires, tag+"/expires")
	rt.Assert(a.Deleted == b.Deleted, tag+"/deleted")
	rt.Assert(a.secret == b.secret, tag+"/secret")
	rt.Assert(a.cronjewel == b.cronjewel, tag+"/crownjewel")
}

// ---- O4: meta codec ----

func VerifC08_MetaCodec() {
	m := symMeta()
	buf, err := m.GenCodeMarshal(nil)
	rt.Assert(err == nil, "metacodec/marshal-ok")
	rt.Assert(len(buf) == 34, "metacodec/34-bytes")
	rt.Assert(m.GenCodeSize() == 34, "metacodec/size")
	var back Meta
	n, err := back.GenCodeUnmarshal(buf)
	rt.Assert(err == nil, "metacodec/unmarshal-ok")
	rt.Assert(n == 34, "metacodec/consumed")
	sameMeta(m, &back, "metacodec")
	// short input is an error, never a panic
	k := rt.Len("short", 0, 33)
	var m2 Meta
	_, err = m2.GenCodeUnmarshal(buf[:k])
	rt.Assert(err != nil, "metacodec/short-errors")
	rt.ObserveBytes("meta-bytes", buf)
	rt.Reach("metacodec-end")
}

// ---- O1: wrapper round trip ----

func VerifC08_WrapperRoundTrip() {
	m := symMeta()
	format := rt.U8("format")
	// all defined dsd format identifiers are < 128; larger ones are written as
	// a raw byte but parsed as a varint
	rt.Region("C08-format-id-ge-128", format >= 128)
	data := rt.BytesN("data", 0, 4)
	w, err := NewWrapper("db:some/key", m, format, data)
	rt.Assert(err == nil, "wrt/newwrapper-ok")
	stored, err := w.MarshalRecord(w)
	rt.Assert(err == nil, "wrt/marshal-ok")
	if err != nil {
		return
	}
	rt.ObserveBytes("stored", stored)
	back, err := NewRawWrapper("db", "some/key", stored)
	rt.Assert(err == nil, "wrt/parse-ok")
	if err != nil {
		return
	}
	rt.Assert(back.Key() == "db:some/key", "wrt/key")
	rt.Assert(back.DatabaseName() == "db", "wrt/dbname")
	rt.Assert(back.DatabaseKey() == "some/key", "wrt/dbkey")
	sameMeta(m, back.Meta(), "wrt")
	if m.Deleted > 0 {
		rt.Assert(len(back.Data) == 0, "wrt/deleted-no-data")
	} else {
		rt.Assert(back.Format == format, "wrt/format")
		rt.Assert(rt.EqBytes(back.Data, data), "wrt/data")
	}
	rt.Reach("wrt-end")
}

// ---- O2: typed record -> storage form -> wrapper -> Unwrap ----

func VerifC08_TypedRoundTrip() {
	r := &verifRecord{A: rt.I64("A"), B: rt.Bool("B"), C: rt.U8("C")}
	r.SetKey("db:some/key")
	r.SetMeta(symMeta())
	stored, err := r.MarshalRecord(r)
	if err != nil {
		// only the (stubbed) codec may fail
		rt.Reach("typed-codec-error")
		return
	}
	back, err := NewRawWrapper("db", "some/key", stored)
	rt.Assert(err == nil, "typed/parse-ok")
	if err != nil {
		return
	}
	sameMeta(r.Meta(), back.Meta(), "typed")
	if r.Meta().Deleted > 0 {
		rt.Assert(len(back.Data) == 0, "typed/deleted-no-data")
		rt.Reach("typed-deleted")
		return
	}
	rt.Assert(back.Format == dsd.JSON, "typed/format-json")
	fresh := &verifRecord{}
	err = Unwrap(back, fresh)
	rt.Assert(err == nil, "typed/unwrap-ok")
	rt.Assert(fresh.A == r.A, "typed/field-A")
	rt.Assert(fresh.B == r.B, "typed/field-B")
	rt.Assert(fresh.C == r.C, "typed/field-C")
	rt.Assert(fresh.Key() == "db:some/key", "typed/key")
	rt.Assert(fresh.Meta() == back.Meta(), "typed/meta-attached")
	rt.Reach("typed-end")
}

// ---- O3: decoder totality on arbitrary byte strings ----

func decodeLE(b []byte) int64 {
	var v uint64
	for i := 0; i < 8; i++ {
		v |= uint64(b[i]) << (8 * uint(i))
	}
	return int64(v)
}

func totality(b []byte) {
	w, err := NewRawWrapper("db", "k", b)
	if err != nil {
		rt.Assert(w == nil, "total/error-nil-wrapper")
		rt.Reach("total-error")
		return
	}
	rt.Assert(w != nil, "total/ok-nonnil")
	if w == nil {
		return
	}
	// on success the record data is a suffix of the input
	rt.Assert(len(w.Data) <= len(b), "total/data-within-input")
	if len(w.Data) <= len(b) {
		rt.Assert(rt.EqBytes(w.Data, b[len(b)-len(w.Data):]), "total/data-is-suffix")
	}
	rt.Assert(w.Meta() != nil, "total/meta-set")
	rt.Reach("total-ok")
}

func VerifC08_DecoderTotalShort() {
	maxLen := 6
	if rt.Thorough() {
		maxLen = 12
	}
	totality(rt.BytesN("b", 0, maxLen))
}

// every length prefix of the meta block, up to the maximal 10-byte varint
// (values up to 2^64-1): version byte fixed, 10..12 further symbolic bytes
func VerifC08_DecoderLengthPrefix() {
	n := rt.Len("n", 10, 12)
	b := append([]byte{1}, rt.Bytes("b", n)...)
	totality(b)
}

// a full GenCode meta block: version, block length 35 ('G' + 34 bytes), then
// 0..3 further bytes; every byte symbolic except the three needed to reach the
// GenCode decoder (otherwise the stubbed codecs take over)
func VerifC08_DecoderTotalGenCode() {
	extra := rt.Len("extra", 0, 3)
	b := rt.Bytes("b", 37+extra)
	rt.Assume(b[0] == 1)
	rt.Assume(b[2] == dsd.GenCode)
	// b[1] (block length) stays symbolic: truncated and oversized blocks included
	w, err := NewRawWrapper("db", "k", b)
	if err == nil && w != nil && b[1] == 35 {
		m := w.Meta()
		rt.Assert(m.Created == decodeLE(b[3:11]), "totalg/created")
		rt.Assert(m.Modified == decodeLE(b[11:19]), "totalg/modified")
		rt.Assert(m.Expires == decodeLE(b[19:27]), "totalg/expires")
		rt.Assert(m.Deleted == decodeLE(b[27:35]), "totalg/deleted")
		rt.Assert(m.secret == (b[35] == 1), "totalg/secret")
		rt.Assert(m.cronjewel == (b[36] == 1), "totalg/crownjewel")
		rt.Reach("totalg-full")
	}
	rt.ObserveBool("parse-ok", err == nil)
	if err == nil && w != nil {
		rt.ObserveBytes("data", w.Data)
		rt.Observe("format", uint64(w.Format))
	}
	if err == nil {
		rt.Assert(w != nil, "totalg/ok-nonnil")
		rt.Assert(len(w.Data) <= len(b), "totalg/data-within-input")
	}
	rt.Reach("totalg-end")
}

// truncations and single-byte corruptions of a valid encoding
func validEncoding() []byte {
	m := symMeta()
	data := rt.BytesN("data", 0, 2)
	w, _ := NewWrapper("db:k", m, dsd.JSON, data)
	stored, err := w.MarshalRecord(w)
	rt.Assert(err == nil, "trunc/marshal-ok")
	return stored
}

func VerifC08_Truncate() {
	stored := validEncoding()
	cut := rt.Len("cut", 0, len(stored))
	w, err := NewRawWrapper("db", "k", stored[:cut])
	if err == nil {
		rt.Assert(w != nil, "trunc/ok-nonnil")
		rt.Assert(len(w.Data) <= cut, "trunc/data-within-input")
	}
	if cut < 37 {
		rt.Assert(err != nil, "trunc/incomplete-meta-errors")
	}
	rt.Reach("trunc-end")
}

func VerifC08_Corrupt() {
	stored := validEncoding()
	pos := rt.Len("pos", 0, len(stored)-1)
	mut := append([]byte{}, stored...)
	mut[pos] = rt.U8("mut")
	w2, err2 := NewRawWrapper("db", "k", mut)
	if err2 == nil {
		rt.Assert(w2 != nil, "corrupt/ok-nonnil")
		rt.Assert(len(w2.Data) <= len(mut), "corrupt/data-within-input")
	}
	rt.Reach("corrupt-end")
}

// ParseKey
func VerifC08_ParseKey() {
	key := rt.StrN("key", 0, 5)
	db, k := ParseKey(key)
	// re-joining gives the key back when it has a separator
	hasSep := false
	for i := 0; i < len(key); i++ {
		if key[i] == ':' {
			hasSep = true
		}
	}
	if hasSep {
		rt.Assert(rt.EqStr(db+":"+k, key), "parsekey/rejoin")
	} else {
		rt.Assert(rt.EqStr(db, key), "parsekey/no-sep-db")
		rt.Assert(k == "", "parsekey/no-sep-key")
	}
	for i := 0; i < len(db); i++ {
		rt.Assert(db[i] != ':', "parsekey/db-has-no-sep")
	}
	rt.ObserveStr("db", db)
	rt.ObserveStr("k", k)
	rt.Reach("parsekey-end")
}
