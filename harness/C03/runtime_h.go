package runtime

// C03 harness (injected runtime database): records served by a value provider
// of the injected registry cross a database interface only if their flags
// permit it - for direct gets and for queries.

import (
	"errors"
	"sync"

	"github.com/safing/portbase/database"
	"github.com/safing/portbase/database/query"
	"github.com/safing/portbase/database/record"
	"github.com/safing/portbase/utils"
	rt "github.com/safing/portbase/zz_verifrt"
)

type c03rRec struct {
	record.Base
	sync.Mutex
	N int
}

func VerifC03_RuntimeRegistry() {
	rt.NoTimers()
	rt.SchedYieldOnly(true)
	rt.FsFaults(0)
	rt.FsStatDirs(true)
	_ = database.Initialize(utils.NewDirStructure(rt.Root("/data"), 0o755))
	_, err := database.Register(&database.Database{Name: "rtdb", Description: "t", StorageType: "injected"})
	rt.Assert(err == nil, "runtime/register-database")
	reg := NewRegistry()
	rt.Assert(reg.InjectAsDatabase("rtdb") == nil, "runtime/inject")

	secret, crown := rt.Bool("secret"), rt.Bool("crownjewel")
	prot := &c03rRec{N: 7}
	prot.SetKey("rtdb:a/p")
	prot.UpdateMeta()
	if secret {
		prot.Meta().MakeSecret()
	}
	if crown {
		prot.Meta().MakeCrownJewel()
	}
	open := &c03rRec{N: 1}
	open.SetKey("rtdb:a/o")
	open.UpdateMeta()
	sets := 0
	_, err = reg.Register("a/", &c03rProvider{records: []record.Record{prot, open}, sets: &sets})
	rt.Assert(err == nil, "runtime/provider-registered")

	local, internal := rt.Bool("local"), rt.Bool("internal")
	permitted := rt.All(rt.Any(!secret, internal), rt.Any(!crown, local))
	db := database.NewInterface(&database.Options{Local: local, Internal: internal})

	switch rt.Choice("op", 3) {
	case 0: // direct get
		got, err := db.Get("rtdb:a/p")
		if permitted {
			rt.Assert(err == nil, "runtime/permitted-get-ok")
		} else {
			rt.Assert(got == nil, "runtime/denied-get-returns-no-record")
			rt.Assert(errors.Is(err, database.ErrPermissionDenied), "runtime/denied-get-reports-permission-denied")
		}
	case 1: // query
		it, err := db.Query(query.New("rtdb:a/"))
		rt.Assert(err == nil, "runtime/query-ok")
		if err != nil {
			return
		}
		seenProt, seenOpen := 0, 0
		for r := range it.Next {
			if r.Key() == "rtdb:a/p" {
				seenProt++
			}
			if r.Key() == "rtdb:a/o" {
				seenOpen++
			}
		}
		rt.Assert(seenOpen == 1, "runtime/query-lists-the-open-record")
		if permitted {
			rt.Assert(seenProt == 1, "runtime/query-lists-permitted-record")
		} else {
			rt.Assert(seenProt == 0, "runtime/query-never-lists-a-denied-record")
		}
	case 2: // write over the protected record
		nr := &c03rRec{N: 9}
		nr.SetKey("rtdb:a/p")
		err := db.Put(nr)
		if !permitted {
			rt.Assert(err != nil, "runtime/denied-put-refused")
			rt.Assert(sets == 0, "runtime/denied-put-never-reaches-the-provider")
		}
	}
	rt.Reach("runtime-end")
}

type c03rProvider struct {
	records []record.Record
	sets    *int
}

func (p *c03rProvider) Set(r record.Record) (record.Record, error) {
	*p.sets++
	return r, nil
}

func (p *c03rProvider) Get(keyOrPrefix string) ([]record.Record, error) {
	var out []record.Record
	for _, r := range p.records {
		k := r.DatabaseKey()
		if len(k) >= len(keyOrPrefix) && k[:len(keyOrPrefix)] == keyOrPrefix {
			out = append(out, r)
		}
	}
	return out, nil
}
