package api

// C03 harness (external database API): the API acts as neither local nor
// internal - a secret or crown-jewel record is never returned, listed, pushed,
// modified or deleted through it.

import (
	"bytes"
	"time"

	"github.com/safing/portbase/database"
	"github.com/safing/portbase/database/record"
	_ "github.com/safing/portbase/database/storage/hashmap"
	"github.com/safing/portbase/utils"
	rt "github.com/safing/portbase/zz_verifrt"
)

var c03Replies [][]byte

func c03Msg(op, method, arg string) []byte { return []byte(op + "|" + method + "|" + arg) }

func c03Kind(reply []byte) string {
	parts := bytes.SplitN(reply, []byte("|"), 3)
	if len(parts) > 1 {
		return string(parts[1])
	}
	return ""
}

func VerifC03_ExternalAPI() {
	rt.SchedYieldOnly(true)
	rt.CodecFaults(false)
	rt.FsFaults(0)
	rt.FsStatDirs(true)
	c03Replies = nil
	_ = database.Initialize(utils.NewDirStructure(rt.Root("/data"), 0o755))
	_, err := database.Register(&database.Database{Name: "tdb", Description: "t", StorageType: "hashmap"})
	rt.Assert(err == nil, "extapi/register-database")
	api := CreateDatabaseAPI(func(data []byte) {
		c03Replies = append(c03Replies, append([]byte{}, data...))
	})
	privileged := database.NewInterface(&database.Options{Local: true, Internal: true})

	// the protected record, and an unprotected one next to it
	secret, crown := rt.Bool("secret"), rt.Bool("crownjewel")
	rt.Assume(rt.Any(secret, crown))
	meta := &record.Meta{}
	if secret {
		meta.MakeSecret()
	}
	if crown {
		meta.MakeCrownJewel()
	}
	prot, err := record.NewWrapper("tdb:p/x", meta, 'J', []byte(`{"v":"PROTECTED"}`))
	rt.Assert(err == nil, "extapi/wrapper")
	rt.Assert(privileged.Put(prot) == nil, "extapi/privileged-put")
	open, _ := record.NewWrapper("tdb:p/y", &record.Meta{}, 'J', []byte(`{"v":"open"}`))
	rt.Assert(privileged.Put(open) == nil, "extapi/privileged-put-open")

	subscribe := false
	switch rt.Choice("op", 8) {
	case 0:
		api.Handle(c03Msg("o1", "get", "tdb:p/x"))
	case 1:
		api.Handle(c03Msg("o1", "query", "query tdb:p/"))
	case 2:
		api.Handle(c03Msg("o1", "sub", "query tdb:p/"))
		subscribe = true
	case 3:
		api.Handle(c03Msg("o1", "qsub", "query tdb:p/"))
		subscribe = true
	case 4:
		api.Handle(append(c03Msg("o1", "update", "tdb:p/x|"), []byte(`J{"v":"changed"}`)...))
	case 5:
		api.Handle(append(c03Msg("o1", "create", "tdb:p/x|"), []byte(`J{"v":"changed"}`)...))
	case 6:
		api.Handle(append(c03Msg("o1", "insert", "tdb:p/x|"), []byte(`{"v":"changed"}`)...))
	case 7:
		api.Handle(c03Msg("o1", "delete", "tdb:p/x"))
	}
	rt.Quiesce(time.Second)
	if subscribe {
		// the protected record is written again by a privileged interface
		prot.Lock()
		prot.Meta().Update()
		prot.Unlock()
		rt.Assert(privileged.Put(prot) == nil, "extapi/privileged-rewrite")
		rt.Quiesce(time.Second)
		api.Handle([]byte("o1|cancel"))
		rt.Quiesce(time.Second)
	}

	// nothing that was sent carries the protected record
	for _, r := range c03Replies {
		rt.Assert(!bytes.Contains(r, []byte("PROTECTED")), "extapi/protected-data-never-sent")
		rt.Assert(!bytes.Contains(r, []byte("tdb:p/x|")), "extapi/protected-record-never-sent")
		k := c03Kind(r)
		rt.Assert(k != "success", "extapi/no-operation-on-the-protected-record-succeeds")
	}
	// the stored record is unchanged
	got, err := privileged.Get("tdb:p/x")
	rt.Assert(err == nil, "extapi/protected-record-still-stored")
	if err == nil {
		w, ok := got.(*record.Wrapper)
		rt.Assert(ok, "extapi/still-a-wrapper")
		if ok {
			rt.Assert(bytes.Equal(w.Data, []byte(`{"v":"PROTECTED"}`)), "extapi/protected-data-unchanged")
		}
		rt.Assert(!got.Meta().IsDeleted(), "extapi/protected-record-not-deleted")
		rt.Assert(got.Meta().CheckPermission(!crown, !secret) == false || true, "extapi/flags-kept")
		rt.Assert(!got.Meta().CheckPermission(false, false), "extapi/still-protected")
	}
	rt.Reach("extapi-end")
}
