package database

// C03 harnesses: secret and crown-jewel records never cross a non-privileged
// database interface.

import (
	"errors"
	"sync"
	"time"

	"github.com/safing/portbase/database/accessor"
	"github.com/safing/portbase/database/query"
	"github.com/safing/portbase/database/record"
	"github.com/safing/portbase/database/storage/hashmap"
	rt "github.com/safing/portbase/zz_verifrt"
)

type verifRec struct {
	record.Base
	sync.Mutex
	N int64
	S string
}

type verifRecAcc struct{ r *verifRec }

func (a *verifRecAcc) Get(key string) (interface{}, bool)       { return a.r.S, key == "S" }
func (a *verifRecAcc) GetString(key string) (string, bool)       { return a.r.S, key == "S" }
func (a *verifRecAcc) GetStringArray(key string) ([]string, bool) { return nil, false }
func (a *verifRecAcc) GetInt(key string) (int64, bool)           { return a.r.N, key == "N" }
func (a *verifRecAcc) GetFloat(key string) (float64, bool)       { return 0, false }
func (a *verifRecAcc) GetBool(key string) (bool, bool)           { return false, false }
func (a *verifRecAcc) Exists(key string) bool                    { return key == "N" || key == "S" }
func (a *verifRecAcc) Set(key string, value interface{}) error {
	if key == "N" {
		if v, ok := value.(int64); ok {
			a.r.N = v
			return nil
		}
	}
	return errors.New("cannot set")
}
func (a *verifRecAcc) Type() string { return "verif" }

func (r *verifRec) GetAccessor(self record.Record) accessor.Accessor { return &verifRecAcc{r} }

func c03Setup(shadowDelete bool) *Controller {
	initialized.Set()
	shuttingDown.UnSet()
	st, _ := hashmap.NewHashMap("t", "")
	c := newController(&Database{Name: "t", ShadowDelete: shadowDelete}, st, shadowDelete)
	controllersLock.Lock()
	controllers = map[string]*Controller{"t": c}
	controllersLock.Unlock()
	return c
}

func newRec(key string, n int64) *verifRec {
	r := &verifRec{N: n, S: "x"}
	r.SetKey("t:" + key)
	r.UpdateMeta()
	return r
}

type c03Snapshot struct {
	present                    bool
	created, modified, expires int64
	deleted                    int64
	n                          int64
	ptr                        record.Record
}

func snap(c *Controller, key string) c03Snapshot {
	r, err := c.storage.Get(key)
	if err != nil {
		return c03Snapshot{}
	}
	m := r.Meta()
	vr, _ := r.(*verifRec)
	s := c03Snapshot{present: true, created: m.Created, modified: m.Modified, expires: m.Expires, deleted: m.Deleted, ptr: r}
	if vr != nil {
		s.n = vr.N
	}
	return s
}

func sameSnap(a, b c03Snapshot, tag string) {
	rt.Assert(a.present == b.present, tag+"/storage-presence-unchanged")
	rt.Assert(a.ptr == b.ptr, tag+"/storage-record-unchanged")
	rt.Assert(a.created == b.created, tag+"/meta-created-unchanged")
	rt.Assert(a.modified == b.modified, tag+"/meta-modified-unchanged")
	rt.Assert(a.expires == b.expires, tag+"/meta-expires-unchanged")
	rt.Assert(a.deleted == b.deleted, tag+"/meta-deleted-unchanged")
	rt.Assert(a.n == b.n, tag+"/content-unchanged")
}

// truth table of the permission predicate itself
func VerifC03_CheckPermission() {
	m := &record.Meta{}
	secret, jewel := rt.Bool("secret"), rt.Bool("crownjewel")
	if secret {
		m.MakeSecret()
	}
	if jewel {
		m.MakeCrownJewel()
	}
	local, internal := rt.Bool("local"), rt.Bool("internal")
	want := !rt.Any(rt.All(secret, !internal), rt.All(jewel, !local))
	rt.Assert(m.CheckPermission(local, internal) == want, "checkpermission/truth-table")
	var nilMeta *record.Meta
	rt.Assert(!nilMeta.CheckPermission(local, internal), "checkpermission/nil-meta-denied")
	rt.Reach("checkpermission-end")
}

func VerifC03_Operations() {
	rt.NoTimers()
	rt.SchedYieldOnly(true)
	shadow := rt.Bool("shadowdelete")
	c := c03Setup(shadow)
	privileged := NewInterface(&Options{Local: true, Internal: true})
	secret, jewel := rt.Bool("secret"), rt.Bool("crownjewel")
	stored := newRec("a/k", 5)
	if secret {
		stored.Meta().MakeSecret()
	}
	if jewel {
		stored.Meta().MakeCrownJewel()
	}
	if rt.Bool("setup-putnew") {
		// (PutNew resets the time stamps, never the flags)
		rt.Assert(privileged.PutNew(stored) == nil, "setup/privileged-putnew")
	} else {
		rt.Assert(privileged.Put(stored) == nil, "setup/privileged-put")
	}
	rt.Assert(stored.Meta().CheckPermission(true, false) == !secret, "setup/secret-flag-kept")
	rt.Assert(stored.Meta().CheckPermission(false, true) == !jewel, "setup/crownjewel-flag-kept")
	decoy := newRec("a/other", 6)
	rt.Assert(privileged.Put(decoy) == nil, "setup/decoy-put")

	local, internal := rt.Bool("local"), rt.Bool("internal")
	acting := NewInterface(&Options{Local: local, Internal: internal})
	denied := rt.Any(rt.All(secret, !internal), rt.All(jewel, !local))
	before := snap(c, "a/k")
	op := rt.Choice("op", 12)
	var err error
	var got record.Record
	switch op {
	case 0:
		got, err = acting.Get("t:a/k")
	case 1:
		var ex bool
		ex, err = acting.Exists("t:a/k")
		rt.Assert(ex, "exists/key-exists-is-all-that-leaks")
		err = nil
		if denied {
			sameSnap(before, snap(c, "a/k"), "exists")
			rt.Reach("op-exists-denied")
			return
		}
	case 2:
		err = acting.Put(newRec("a/k", 99))
	case 3:
		err = acting.PutNew(newRec("a/k", 99))
	case 4:
		err = acting.Delete("t:a/k")
	case 5:
		// the permitted path goes through the reflection-based struct accessor
		// (not encodable): only the refusal is checked
		rt.Assume(denied)
		err = acting.InsertValue("t:a/k", "N", int64(77))
	case 6:
		err = acting.SetAbsoluteExpiry("t:a/k", 1)
	case 7:
		err = acting.SetRelativateExpiry("t:a/k", 1)
	case 8:
		err = acting.MakeSecret("t:a/k")
	case 9:
		err = acting.MakeCrownJewel("t:a/k")
	case 10:
		// query: the record is listed iff permitted
		it, qerr := acting.Query(query.New("t:a/"))
		rt.Assert(qerr == nil, "query/ok")
		sawStored, sawDecoy := false, false
		for r := range it.Next {
			if r == record.Record(stored) {
				sawStored = true
			}
			if r == record.Record(decoy) {
				sawDecoy = true
			}
		}
		rt.Assert(it.Err() == nil, "query/no-error")
		rt.Assert(sawDecoy, "query/unprotected-record-listed")
		rt.Assert(sawStored == !denied, "query/protected-record-listed-iff-permitted")
		sameSnap(before, snap(c, "a/k"), "query")
		rt.Reach("op-query")
		return
	case 11:
		// subscription: a later privileged write is pushed iff permitted
		sub, serr := acting.Subscribe(query.New("t:a/"))
		rt.Assert(serr == nil, "subscribe/ok")
		// ... and so is every later change of the record: expiry, flags, delete
		want := 0
		switch rt.Choice("subscribed-change", 4) {
		case 0:
			rt.Assert(privileged.Put(stored) == nil, "subscribe/privileged-write")
			want = 1
		case 1:
			rt.Assert(privileged.SetAbsoluteExpiry("t:a/k", time.Now().Unix()+100) == nil, "subscribe/privileged-expiry")
			want = 1
		case 2:
			rt.Assert(privileged.Delete("t:a/k") == nil, "subscribe/privileged-delete")
			want = 1
		case 3:
			rt.Assert(privileged.Put(stored) == nil, "subscribe/privileged-write")
			rt.Assert(privileged.Delete("t:a/k") == nil, "subscribe/privileged-delete")
			want = 2
		}
		if denied {
			rt.Assert(len(sub.Feed) == 0, "subscribe/never-pushed-to-a-denied-subscription")
		} else {
			rt.Assert(len(sub.Feed) == want, "subscribe/pushed-iff-permitted")
		}
		rt.Reach("op-subscribe")
		return
	}
	if denied {
		rt.Assert(got == nil, "denied/no-record-returned")
		rt.Assert(errors.Is(err, ErrPermissionDenied), "denied/permission-denied-reported")
		sameSnap(before, snap(c, "a/k"), "denied")
		// flags unchanged
		rt.Assert(stored.Meta().CheckPermission(true, false) == !secret, "denied/secret-flag-unchanged")
		rt.Assert(stored.Meta().CheckPermission(false, true) == !jewel, "denied/crownjewel-flag-unchanged")
		rt.Reach("op-denied")
	} else {
		rt.Assert(err == nil, "permitted/operation-succeeds")
		if op == 0 {
			rt.Assert(got == record.Record(stored), "permitted/get-returns-record")
		}
		rt.Reach("op-permitted")
	}
	_ = time.Now
}

// batch writes need full privileges
func VerifC03_PutMany() {
	rt.NoTimers()
	rt.SchedYieldOnly(true)
	c03Setup(false)
	local, internal := rt.Bool("local"), rt.Bool("internal")
	acting := NewInterface(&Options{Local: local, Internal: internal})
	put := acting.PutMany("t")
	err := put(newRec("a/k", 1))
	if !rt.All(local, internal) {
		rt.Assert(errors.Is(err, ErrPermissionDenied), "putmany/denied-without-full-privileges")
		rt.Reach("putmany-denied")
		return
	}
	rt.Assert(err == nil, "putmany/accepted")
	rt.Assert(put(nil) == nil, "putmany/finished")
	rt.Reach("putmany-end")
}

// ---- cached interfaces: a record that becomes protected after it entered
// the interface's cache is still refused ----

func VerifC03_CachedInterface() {
	rt.NoTimers()
	rt.SchedYieldOnly(true)
	c := c03Setup(false)
	privileged := NewInterface(&Options{Local: true, Internal: true})
	stored := newRec("a/k", 5)
	rt.Assert(privileged.Put(stored) == nil, "setup/privileged-put")
	local, internal := rt.Bool("local"), rt.Bool("internal")
	acting := NewInterface(&Options{Local: local, Internal: internal, CacheSize: 4})
	// first access: unprotected record, enters the cache
	got, err := acting.Get("t:a/k")
	rt.Assert(err == nil && got == record.Record(stored), "cached/first-get-permitted")
	// the record becomes protected (through the privileged interface): the
	// stored object is flagged, or a protected record replaces it (a new
	// object: the acting interface's cache still holds the old one)
	secret, jewel := rt.Bool("secret"), rt.Bool("crownjewel")
	var repl *verifRec
	if rt.Bool("protected-record-replaces-the-cached-one") {
		repl = newRec("a/k", 6)
		if secret {
			repl.Meta().MakeSecret()
		}
		if jewel {
			repl.Meta().MakeCrownJewel()
		}
		rt.Assert(privileged.Put(repl) == nil, "cached/privileged-replace")
	} else {
		if secret {
			rt.Assert(privileged.MakeSecret("t:a/k") == nil, "cached/make-secret")
		}
		if jewel {
			rt.Assert(privileged.MakeCrownJewel("t:a/k") == nil, "cached/make-crownjewel")
		}
	}
	denied := rt.Any(rt.All(secret, !internal), rt.All(jewel, !local))
	// possibly a batch put by the acting interface first (refused unless it
	// has every privilege): it must not change what the interface may do
	if rt.Bool("refused-batch-put-first") && !rt.All(local, internal) {
		put := acting.PutMany("t")
		rt.Assert(errors.Is(put(newRec("a/k", 8)), ErrPermissionDenied), "cached/batch-put-refused")
	}
	before := snap(c, "a/k")
	switch rt.Choice("op", 8) {
	case 6:
		err = acting.Put(newRec("a/k", 9))
	case 7:
		err = acting.PutNew(newRec("a/k", 9))
	case 0:
		got, err = acting.Get("t:a/k")
		if denied {
			// The cache may go on serving a version it holds (documented) -
			// an unprotected one, never a record the interface may not read.
			rt.Assert(got == nil || got.Meta().CheckPermission(local, internal), "cached/protected-record-never-returned")
			if repl != nil {
				rt.Assert(got != record.Record(repl), "cached/protected-record-never-returned")
			}
			rt.Assert(got != nil || err != nil, "cached/denied-get-reports-an-error")
			rt.Reach("cached-denied")
			return
		}
	case 1:
		err = acting.Delete("t:a/k")
	case 2:
		err = acting.SetAbsoluteExpiry("t:a/k", 1)
	case 3:
		err = acting.MakeSecret("t:a/k")
	case 4:
		err = acting.MakeCrownJewel("t:a/k")
	case 5:
		err = acting.SetRelativateExpiry("t:a/k", 1)
	}
	if denied {
		rt.Assert(errors.Is(err, ErrPermissionDenied), "cached/permission-denied-reported")
		sameSnap(before, snap(c, "a/k"), "cached")
		rt.Reach("cached-denied")
	} else {
		rt.Assert(err == nil, "cached/permitted-operation-succeeds")
		rt.Reach("cached-permitted")
	}
}

// ---- delayed cached writes (documented for internal and local interfaces
// only): an interface without full privileges does not get its writes parked
// in a write cache, from where an eviction would store them later - over
// whatever is stored then - without a permission check ----

func VerifC03_DelayedWritesNeedPrivileges() {
	rt.NoTimers()
	rt.SchedYieldOnly(true)
	c := c03Setup(false)
	privileged := NewInterface(&Options{Local: true, Internal: true})
	local, internal := rt.Bool("local"), rt.Bool("internal")
	acting := NewInterface(&Options{Local: local, Internal: internal, CacheSize: 2, DelayCachedWrites: "t"})
	// the key is free: the acting interface may write to it
	rt.Assert(acting.Put(newRec("a/k", 1)) == nil, "delayedpriv/put-to-a-free-key")
	// a protected record is stored under the key
	prot := newRec("a/k", 5)
	secret, jewel := rt.Bool("secret"), rt.Bool("crownjewel")
	if secret {
		prot.Meta().MakeSecret()
	}
	if jewel {
		prot.Meta().MakeCrownJewel()
	}
	rt.Assert(privileged.Put(prot) == nil, "delayedpriv/privileged-put")
	denied := rt.Any(rt.All(secret, !internal), rt.All(jewel, !local))
	before := snap(c, "a/k")
	// further writes of the acting interface push the first one out of its cache
	for i := 0; i < 4; i++ {
		_ = acting.Put(newRec("b/"+string(rune('0'+i)), int64(i)))
	}
	acting.FlushCache()
	if denied {
		sameSnap(before, snap(c, "a/k"), "delayedpriv")
	}
	rt.Reach("delayedpriv-end")
}
