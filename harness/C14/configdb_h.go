package config

// C14 harness (injected database): writes and deletes through an interface to
// the injected configuration database, and updates pushed by it, reach a
// matching subscription exactly once.

import (
	"errors"
	"sync"
	"sync/atomic"

	"github.com/tevino/abool"

	"github.com/safing/portbase/database"
	"github.com/safing/portbase/database/accessor"
	"github.com/safing/portbase/database/query"
	"github.com/safing/portbase/database/record"
	"github.com/safing/portbase/utils"
	rt "github.com/safing/portbase/zz_verifrt"
)

type c14cRec struct {
	record.Base
	sync.Mutex
	value string
}

type c14cAcc struct{ r *c14cRec }

func (a *c14cAcc) Get(key string) (interface{}, bool)       { return a.r.value, key == "Value" }
func (a *c14cAcc) GetString(key string) (string, bool)       { return a.r.value, key == "Value" }
func (a *c14cAcc) GetStringArray(key string) ([]string, bool) { return nil, false }
func (a *c14cAcc) GetInt(key string) (int64, bool)           { return 0, false }
func (a *c14cAcc) GetFloat(key string) (float64, bool)       { return 0, false }
func (a *c14cAcc) GetBool(key string) (bool, bool)           { return false, false }
func (a *c14cAcc) Exists(key string) bool                    { return key == "Value" }
func (a *c14cAcc) Set(key string, value interface{}) error   { return errors.New("no") }
func (a *c14cAcc) Type() string                              { return "verif" }

func (r *c14cRec) GetAccessor(self record.Record) accessor.Accessor { return &c14cAcc{r} }

// the package init (module registration, option registration with regular
// expressions) is not executed by the engine: build the state directly
func c14cReset() {
	optionsLock.Lock()
	options = make(map[string]*Option)
	optionsLock.Unlock()
	validityFlagLock.Lock()
	validityFlag = abool.NewBool(true)
	validityFlagLock.Unlock()
	if releaseLevel == nil {
		releaseLevel = new(int32)
	}
	atomic.StoreInt32(releaseLevel, 0)
	if releaseLevelOptionFlag == nil {
		releaseLevelOptionFlag = abool.New()
	}
	if expertiseLevelOptionFlag == nil {
		expertiseLevelOptionFlag = abool.New()
	}
	expertiseLevelOptionFlag.UnSet()
	releaseLevelOptionFlag.UnSet()
}

func c14cOption(key string) *Option {
	o := &Option{Name: key, Key: key, Description: "d", OptType: OptTypeString, DefaultValue: "dflt",
		activeFallbackValue: &valueCache{stringVal: "dflt"}}
	optionsLock.Lock()
	options[key] = o
	optionsLock.Unlock()
	return o
}

func VerifC14_InjectedConfigDB() {
	rt.NoTimers()
	rt.SchedYieldOnly(true)
	rt.FsFaults(0)
	rt.FsStatDirs(true)
	rt.CodecFaults(false) // exporting an option (JSON) does not fail
	c14cReset()
	_ = database.Initialize(utils.NewDirStructure(rt.Root("/data"), 0o755))
	rt.Assert(registerAsDatabase() == nil, "injected/register")
	c14cOption("seed/opt")
	c14cOption("other/opt")
	// the two options the configuration system itself reacts to
	releaseLevelOption = c14cOption(releaseLevelKey)
	releaseLevelOption.activeFallbackValue = &valueCache{stringVal: ReleaseLevelNameStable}
	releaseLevelOptionFlag.Set()
	if expertiseLevel == nil {
		expertiseLevel = new(int32)
	}
	expertiseLevelOption = c14cOption(expertiseLevelKey)
	expertiseLevelOption.activeFallbackValue = &valueCache{stringVal: ExpertiseLevelNameUser}
	expertiseLevelOptionFlag.Set()
	db := database.NewInterface(&database.Options{Local: true, Internal: true})
	coreSub, err := db.Subscribe(query.New("config:core/"))
	rt.Assert(err == nil, "injected/subscribe")
	if err != nil {
		return
	}
	sub, err := db.Subscribe(query.New("config:seed/"))
	rt.Assert(err == nil, "injected/subscribe")
	if err != nil {
		return
	}
	// an earlier value makes the delete a real change
	if rt.Bool("preset") {
		rt.Assert(SetConfigOption("seed/opt", "old") == nil, "injected/preset")
		rt.Assert(len(sub.Feed) == 1, "injected/pushed-update-delivered-once")
		<-sub.Feed
	}
	want, wantCore := 1, 0
	switch rt.Choice("op", 9) {
	case 6: // the release level is changed
		rt.Assert(SetConfigOption(releaseLevelKey, ReleaseLevelNameBeta) == nil, "injected/set-release-level")
		want, wantCore = 0, 1
	case 7: // the expertise level is changed
		rt.Assert(SetConfigOption(expertiseLevelKey, ExpertiseLevelNameExpert) == nil, "injected/set-expertise-level")
		want, wantCore = 0, 1
	case 8: // the whole configuration is replaced: every option is announced
		_, _ = ReplaceConfig(map[string]interface{}{"seed/opt": "x", releaseLevelKey: ReleaseLevelNameBeta})
		want, wantCore = 1, 2
	case 5: // a set that is refused (wrong type): nothing changed, nothing is delivered
		rt.Assert(SetConfigOption("seed/opt", 42) != nil, "injected/invalid-set-refused")
		want = 0
	case 0: // changed by the configuration system itself: pushed by the injected database
		rt.Assert(SetConfigOption("seed/opt", "x") == nil, "injected/set")
	case 1: // put through a database interface
		r := &c14cRec{value: "x"}
		r.SetKey("config:seed/opt")
		rt.Assert(db.Put(r) == nil, "injected/put")
	case 2: // delete through a database interface
		rt.Assert(db.Delete("config:seed/opt") == nil, "injected/delete")
	case 3: // a change outside the subscribed prefix
		rt.Assert(SetConfigOption("other/opt", "x") == nil, "injected/set-other")
		want = 0
	case 4: // put outside the subscribed prefix
		r := &c14cRec{value: "x"}
		r.SetKey("config:other/opt")
		rt.Assert(db.Put(r) == nil, "injected/put-other")
		want = 0
	}
	rt.Assert(len(sub.Feed) == want, "injected/matching-change-delivered-exactly-once")
	rt.Assert(len(coreSub.Feed) == wantCore, "injected/level-option-change-delivered-exactly-once")
	rt.Reach("injected-end")
}
