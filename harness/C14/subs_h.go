package database

// C14 harnesses: subscriptions deliver every matching write in order; hooks
// fire as registered.

import (
	"errors"
	"sync"
	"time"

	"github.com/safing/portbase/database/accessor"
	"github.com/safing/portbase/database/query"
	"github.com/safing/portbase/database/record"
	"github.com/safing/portbase/database/storage/hashmap"
	rt "github.com/safing/portbase/zz_verifrt"
)

type c14Rec struct {
	record.Base
	sync.Mutex
	N int64
}

type c14Acc struct{ r *c14Rec }

func (a *c14Acc) Get(key string) (interface{}, bool)       { return a.r.N, key == "N" }
func (a *c14Acc) GetString(key string) (string, bool)       { return "", false }
func (a *c14Acc) GetStringArray(key string) ([]string, bool) { return nil, false }
func (a *c14Acc) GetInt(key string) (int64, bool)           { return a.r.N, key == "N" }
func (a *c14Acc) GetFloat(key string) (float64, bool)       { return 0, false }
func (a *c14Acc) GetBool(key string) (bool, bool)           { return false, false }
func (a *c14Acc) Exists(key string) bool                    { return key == "N" }
func (a *c14Acc) Set(key string, value interface{}) error   { return errors.New("no") }
func (a *c14Acc) Type() string                              { return "verif" }

// c14SlowMatch: natively, evaluating a query condition on the record takes a
// while (widens the window in which the writer is inside the notification)
var c14SlowMatch bool

func (r *c14Rec) GetAccessor(self record.Record) accessor.Accessor {
	if c14SlowMatch {
		rt.NativePause()
	}
	return &c14Acc{r}
}

func c14Setup() *Controller {
	initialized.Set()
	shuttingDown.UnSet()
	st, _ := hashmap.NewHashMap("t", "")
	c := newController(&Database{Name: "t"}, st, false)
	controllersLock.Lock()
	controllers = map[string]*Controller{"t": c}
	controllersLock.Unlock()
	return c
}

func c14NewRec(key string, n int64, secret, jewel bool) *c14Rec {
	r := &c14Rec{N: n}
	r.SetKey("t:" + key)
	r.UpdateMeta()
	if secret {
		r.Meta().MakeSecret()
	}
	if jewel {
		r.Meta().MakeCrownJewel()
	}
	return r
}

func hasPrefixStr(s, p string) bool {
	if len(p) > len(s) {
		return false
	}
	return rt.EqStr(s[:len(p)], p)
}

// ---- O1: delivery: each feed holds exactly the matching, permitted writes, in order ----

func VerifC14_Delivery() {
	rt.NoTimers()
	c14Setup()
	writer := NewInterface(&Options{Local: true, Internal: true})
	maxSubs := 1
	if rt.Thorough() {
		maxSubs = 2
	}
	nSubs := rt.Len("subs", 1, maxSubs)
	type subInfo struct {
		sub             *Subscription
		local, internal bool
		prefix          string
		minN            int64
		hasCond         bool
	}
	var subs []subInfo
	for i := 0; i < nSubs; i++ {
		tag := "sub" + string(rune('0'+i))
		si := subInfo{local: rt.Bool(tag + ".local"), internal: rt.Bool(tag + ".internal"), prefix: rt.StrN(tag+".prefix", 0, 1)}
		q := query.New("t:" + si.prefix)
		if rt.Bool(tag + ".cond") {
			si.hasCond = true
			si.minN = 10
			q.Where(query.Where("N", query.GreaterThan, si.minN))
		}
		sub, err := NewInterface(&Options{Local: si.local, Internal: si.internal}).Subscribe(q)
		rt.Assert(err == nil, "delivery/subscribe-ok")
		si.sub = sub
		subs = append(subs, si)
	}
	nWrites := rt.Len("writes", 0, 2)
	type wr struct {
		rec           *c14Rec
		key           string
		secret, jewel bool
	}
	var writes []wr
	for j := 0; j < nWrites; j++ {
		tag := "w" + string(rune('0'+j))
		w := wr{key: rt.StrN(tag+".key", 1, 2), secret: rt.Bool(tag + ".secret"), jewel: rt.Bool(tag + ".jewel")}
		w.rec = c14NewRec(w.key, rt.I64(tag+".N"), w.secret, w.jewel)
		if rt.Bool(tag + ".deleted") {
			w.rec.Meta().Delete()
		}
		rt.Assert(writer.Put(w.rec) == nil, "delivery/write-ok")
		writes = append(writes, w)
	}
	for _, si := range subs {
		// expected deliveries in write order (fork-free membership)
		idx := 0
		var got []record.Record
		for len(si.sub.Feed) > 0 {
			got = append(got, <-si.sub.Feed)
		}
		for _, w := range writes {
			permitted := !rt.Any(rt.All(w.secret, !si.internal), rt.All(w.jewel, !si.local))
			match := rt.All(hasPrefixStr(w.key, si.prefix), rt.Implies(si.hasCond, w.rec.N > si.minN))
			expect := rt.All(permitted, match)
			if expect {
				rt.Assert(idx < len(got), "delivery/matching-permitted-write-delivered")
				if idx < len(got) {
					rt.Assert(got[idx] == record.Record(w.rec), "delivery/in-write-order")
				}
				idx++
			}
		}
		rt.Assert(idx == len(got), "delivery/nothing-else-delivered")
	}
	rt.Reach("delivery-end")
}

// ---- O2: cancel ----

func VerifC14_Cancel() {
	rt.NoTimers()
	c := c14Setup()
	writer := NewInterface(&Options{Local: true, Internal: true})
	iface := NewInterface(nil)
	shared := rt.Bool("sharedquery")
	q1 := query.New("t:a")
	q2 := q1
	if !shared {
		q2 = query.New("t:a")
	}
	s1, err1 := iface.Subscribe(q1)
	s2, err2 := iface.Subscribe(q2)
	rt.Assert(err1 == nil && err2 == nil, "cancel/subscribe-ok")
	which := rt.Choice("cancel", 2)
	cancelled, other := s1, s2
	if which == 1 {
		cancelled, other = s2, s1
	}
	rt.Assert(cancelled.Cancel() == nil, "cancel/cancel-ok")
	// the cancelled feed is closed and no longer registered
	closed := false
	select {
	case _, ok := <-cancelled.Feed:
		closed = !ok
	default:
	}
	rt.Assert(closed, "cancel/feed-closed")
	c.subscriptionLock.RLock()
	stillThere, otherThere := false, false
	for _, s := range c.subscriptions {
		if s == cancelled {
			stillThere = true
		}
		if s == other {
			otherThere = true
		}
	}
	c.subscriptionLock.RUnlock()
	rt.Assert(!stillThere, "cancel/cancelled-subscription-removed")
	rt.Assert(otherThere, "cancel/other-subscription-kept")
	// later writes neither deliver to it nor panic; the other one still receives
	rt.Assert(writer.Put(c14NewRec("ab", 1, false, false)) == nil, "cancel/later-write-ok")
	rt.Assert(len(other.Feed) == 1, "cancel/other-subscription-still-receives")
	rt.Reach("cancel-end")
}

// ---- O3: hooks ----

type c14Hook struct {
	pre, post, put bool
	calls          []string
	veto           int // 0 none, 1 preget, 2 postget, 3 preput
	replace        record.Record
}

var errVeto = errors.New("hook veto")

func (h *c14Hook) UsesPreGet() bool  { return h.pre }
func (h *c14Hook) UsesPostGet() bool { return h.post }
func (h *c14Hook) UsesPrePut() bool  { return h.put }
func (h *c14Hook) PreGet(dbKey string) error {
	h.calls = append(h.calls, "preget")
	if h.veto == 1 {
		return errVeto
	}
	return nil
}
func (h *c14Hook) PostGet(r record.Record) (record.Record, error) {
	h.calls = append(h.calls, "postget")
	if h.veto == 2 {
		return nil, errVeto
	}
	if h.replace != nil {
		return h.replace, nil
	}
	return r, nil
}
func (h *c14Hook) PrePut(r record.Record) (record.Record, error) {
	h.calls = append(h.calls, "preput")
	if h.veto == 3 {
		return nil, errVeto
	}
	if h.replace != nil {
		return h.replace, nil
	}
	return r, nil
}

// a hook registered with a condition on the record: the phases that see the
// record (after loading, before storing) are called only for records that
// satisfy it; the phase before loading goes by the key alone
func VerifC14_HookQueryCondition() {
	rt.NoTimers()
	c := c14Setup()
	iface := NewInterface(&Options{Local: true, Internal: true})
	n := int64(3 + 4*rt.Choice("n", 2)) // 3 or 7
	key := []string{"a/x", "b/x"}[rt.Choice("key", 2)]
	stored := c14NewRec(key, n, false, false)
	_, _ = c.storage.Put(stored)
	h := &c14Hook{pre: true, post: true, put: true}
	_, err := RegisterHook(query.New("t:a/").Where(query.Where("N", query.GreaterThan, 5)), h)
	rt.Assert(err == nil, "hookcond/register-ok")
	keyMatches := key == "a/x"
	recMatches := keyMatches && n > 5
	count := func(phase string) int {
		k := 0
		for _, cl := range h.calls {
			if cl == phase {
				k++
			}
		}
		return k
	}
	want := func(b bool) int {
		if b {
			return 1
		}
		return 0
	}
	switch rt.Choice("op", 4) {
	case 0:
		_, err := iface.Get("t:" + key)
		rt.Assert(err == nil, "hookcond/get-ok")
		rt.Assert(count("preget") == want(keyMatches), "hookcond/preget-goes-by-the-key")
		rt.Assert(count("postget") == want(recMatches), "hookcond/postget-only-for-records-matching-the-condition")
		rt.Assert(count("preput") == 0, "hookcond/no-put-phase-on-get")
	case 1:
		rt.Assert(iface.Put(c14NewRec(key, n, false, false)) == nil, "hookcond/put-ok")
		rt.Assert(count("preput") == want(recMatches), "hookcond/preput-only-for-records-matching-the-condition")
	case 2:
		rt.Assert(iface.Delete("t:"+key) == nil, "hookcond/delete-ok")
		rt.Assert(count("preput") == want(recMatches), "hookcond/preput-only-for-records-matching-the-condition")
	case 3:
		rt.Assert(iface.MakeSecret("t:"+key) == nil, "hookcond/makesecret-ok")
		rt.Assert(count("preput") == want(recMatches), "hookcond/preput-only-for-records-matching-the-condition")
	}
	rt.Reach("hookcond-end")
}

// a subscriber that has stopped reading (its feed is full) costs the other
// subscriptions nothing: a matching write still reaches every feed with room,
// whatever the order in which the subscriptions were made
func VerifC14_FullFeedOfAnotherSubscriber() {
	rt.NoTimers()
	c14Setup()
	iface := NewInterface(&Options{Local: true, Internal: true})
	q := query.New("t:a/")
	stalledFirst := rt.Bool("stalled-subscription-made-first")
	var stalled, attentive *Subscription
	var err1, err2 error
	if stalledFirst {
		stalled, err1 = iface.Subscribe(q)
		attentive, err2 = iface.Subscribe(q)
	} else {
		attentive, err1 = iface.Subscribe(q)
		stalled, err2 = iface.Subscribe(q)
	}
	rt.Assert(err1 == nil && err2 == nil, "fullfeed/subscribe-ok")
	if err1 != nil || err2 != nil {
		return
	}
	filler := c14NewRec("a/filler", 0, false, false)
	for len(stalled.Feed) < cap(stalled.Feed) {
		stalled.Feed <- filler
	}
	r := c14NewRec("a/x", 1, false, false)
	rt.Assert(iface.Put(r) == nil, "fullfeed/put-ok")
	rt.Assert(len(attentive.Feed) == 1, "fullfeed/delivered-to-the-subscription-with-room")
	rt.Assert(len(stalled.Feed) == cap(stalled.Feed), "fullfeed/full-feed-unchanged")
	rt.Assert(iface.Delete("t:a/x") == nil, "fullfeed/delete-ok")
	rt.Assert(len(attentive.Feed) == 2, "fullfeed/delete-delivered-to-the-subscription-with-room")
	rt.Reach("fullfeed-end")
}

// a hook is cancelled while a put is in the middle of its hooks (held inside
// an earlier hook): once Cancel has returned, the hook is not called any more -
// also not by the operation that was under way
type c14GateHook struct {
	gate    chan struct{}
	entered chan struct{}
}

func (h *c14GateHook) UsesPreGet() bool  { return false }
func (h *c14GateHook) UsesPostGet() bool { return false }
func (h *c14GateHook) UsesPrePut() bool  { return true }
func (h *c14GateHook) PreGet(string) error {
	return nil
}
func (h *c14GateHook) PostGet(r record.Record) (record.Record, error) { return r, nil }
func (h *c14GateHook) PrePut(r record.Record) (record.Record, error) {
	close(h.entered)
	<-h.gate
	return r, nil
}

type c14WatchHook struct {
	cancelReturned *bool
	calls          int
}

func (h *c14WatchHook) UsesPreGet() bool  { return false }
func (h *c14WatchHook) UsesPostGet() bool { return false }
func (h *c14WatchHook) UsesPrePut() bool  { return true }
func (h *c14WatchHook) PreGet(string) error {
	return nil
}
func (h *c14WatchHook) PostGet(r record.Record) (record.Record, error) { return r, nil }
func (h *c14WatchHook) PrePut(r record.Record) (record.Record, error) {
	h.calls++
	rt.Assert(!*h.cancelReturned, "hookcancel/hook-not-called-after-its-cancel-returned")
	return r, nil
}

func VerifC14_HookCancelDuringOperation() {
	rt.NoTimers()
	rt.SchedYieldOnly(true)
	c14Setup()
	iface := NewInterface(&Options{Local: true, Internal: true})
	first := &c14GateHook{gate: make(chan struct{}), entered: make(chan struct{})}
	_, err := RegisterHook(query.New("t:a/"), first)
	rt.Assert(err == nil, "hookcancel/register-ok")
	cancelReturned := false
	// further hooks behind the first: the one in the middle or the last is cancelled
	watchers := []*c14WatchHook{{cancelReturned: new(bool)}, {cancelReturned: new(bool)}}
	var regs []*RegisteredHook
	for _, w := range watchers {
		rh, err := RegisterHook(query.New("t:a/"), w)
		rt.Assert(err == nil, "hookcancel/register-ok")
		regs = append(regs, rh)
	}
	victim := rt.Choice("cancelled-hook", 2)
	watchers[victim].cancelReturned = &cancelReturned
	putDone := make(chan struct{})
	go func() {
		_ = iface.Put(c14NewRec("a/x", 1, false, false))
		close(putDone)
	}()
	<-first.entered // the put is inside the first hook
	cancelDone := make(chan struct{})
	go func() {
		_ = regs[victim].Cancel()
		cancelReturned = true
		close(cancelDone)
	}()
	rt.Yield()
	close(first.gate)
	<-putDone
	<-cancelDone
	// every hook was called at most once for the one put
	for _, w := range watchers {
		rt.Assert(w.calls <= 1, "hookcancel/hook-called-at-most-once-per-operation")
	}
	// afterwards the cancelled hook is not called, the other one is
	before := []int{watchers[0].calls, watchers[1].calls}
	close0 := make(chan struct{})
	first.gate, first.entered = close0, make(chan struct{})
	close(close0)
	rt.Assert(iface.Put(c14NewRec("a/y", 2, false, false)) == nil, "hookcancel/second-put-ok")
	rt.Assert(watchers[victim].calls == before[victim], "hookcancel/cancelled-hook-not-called-again")
	rt.Assert(watchers[1-victim].calls == before[1-victim]+1, "hookcancel/other-hook-still-called")
	rt.Reach("hookcancel-end")
}

func VerifC14_Hooks() {
	rt.NoTimers()
	c := c14Setup()
	iface := NewInterface(&Options{Local: true, Internal: true})
	seed := c14NewRec("a/x", 1, false, false)
	rt.Assert(iface.Put(seed) == nil, "hooks/seed")
	// (and a record with serialized content)
	wrapped, werr := record.NewWrapper("t:a/w", nil, 'J', []byte(`{"k":"v"}`))
	rt.Assert(werr == nil && iface.Put(wrapped) == nil, "hooks/seed")
	h := &c14Hook{pre: rt.Bool("usespreget"), post: rt.Bool("usespostget"), put: rt.Bool("usespreput"), veto: rt.Choice("veto", 4)}
	prefix := rt.StrN("prefix", 0, 2)
	if rt.Bool("replace") {
		h.replace = c14NewRec("a/x", 42, false, false)
	}
	rh, err := RegisterHook(query.New("t:"+prefix), h)
	rt.Assert(err == nil, "hooks/register-ok")
	matches := hasPrefixStr("a/x", prefix)
	cancelled := rt.Bool("cancelfirst")
	if cancelled {
		rt.Assert(rh.Cancel() == nil, "hooks/cancel-ok")
	}
	active := rt.All(matches, !cancelled)

	if rt.Bool("doput") {
		nr := c14NewRec("a/x", 7, false, false)
		// (possibly through an interface with a read cache)
		cached := rt.Bool("interface-with-read-cache")
		if cached {
			iface = NewInterface(&Options{Local: true, Internal: true, CacheSize: 4})
		}
		var err error
		if rt.Bool("put-new") {
			err = iface.PutNew(nr)
		} else {
			err = iface.Put(nr)
		}
		called := len(h.calls) == 1 && h.calls[0] == "preput"
		rt.Assert(called == rt.All(active, h.put), "hooks/preput-called-iff-declared-and-matching")
		stored, _ := c.storage.Get("a/x")
		if rt.All(active, h.put, h.veto == 3) {
			rt.Assert(errors.Is(err, errVeto), "hooks/put-veto-returns-hook-error")
			rt.Assert(stored == record.Record(seed), "hooks/put-veto-leaves-storage-unchanged")
			// and the same interface goes on reading what is stored, not the refused record
			h.veto, h.pre, h.post = 0, false, false
			got, gerr := iface.Get("t:a/x")
			rt.Assert(gerr == nil && got == record.Record(seed), "hooks/refused-record-is-not-read-back")
		} else {
			rt.Assert(err == nil, "hooks/put-ok")
			if rt.All(active, h.put, h.replace != nil) {
				rt.Assert(stored == h.replace, "hooks/put-replacement-is-stored")
			} else {
				rt.Assert(stored == record.Record(nr), "hooks/put-record-stored")
			}
		}
		rt.Reach("hooks-put")
		return
	}
	// operations that load the record, change it and put it back: a vetoed
	// put leaves the stored record as it was
	if h.replace == nil && !h.pre && !h.post && rt.Bool("domodify") {
		// (through an interface that may also stamp every record it writes)
		stamp := rt.Bool("interface-always-makes-crownjewel")
		iface := NewInterface(&Options{Local: true, Internal: true, AlwaysMakeCrownjewel: stamp})
		var err error
		modify := rt.Choice("modify", 5)
		switch modify {
		case 4:
			err = iface.InsertValue("t:a/w", "k2", "v2")
			if err != nil && !errors.Is(err, errVeto) {
				// (the value could not be set: nothing was put)
				return
			}
		case 0:
			err = iface.Delete("t:a/x")
		case 1:
			err = iface.SetAbsoluteExpiry("t:a/x", time.Now().Unix()+100)
		case 2:
			err = iface.MakeSecret("t:a/x")
		case 3:
			err = iface.SetRelativateExpiry("t:a/x", 60)
		}
		called := len(h.calls) == 1 && h.calls[0] == "preput"
		rt.Assert(called == rt.All(active, h.put), "hooks/modify-preput-called-iff-declared-and-matching")
		if rt.All(active, h.put, h.veto == 3) {
			rt.Assert(errors.Is(err, errVeto), "hooks/modify-veto-returns-hook-error")
			stored, serr := c.storage.Get("a/x")
			rt.Assert(serr == nil, "hooks/modify-veto-record-still-stored")
			if serr == nil {
				m := stored.Meta()
				rt.Assert(m.Deleted == 0, "hooks/vetoed-delete-leaves-record-undeleted")
				rt.Assert(m.Expires == 0, "hooks/vetoed-expiry-change-leaves-expiry")
				rt.Assert(m.GetRelativeExpiry() <= 0, "hooks/vetoed-expiry-change-leaves-relative-expiry")
				rt.Assert(m.CheckPermission(true, false), "hooks/vetoed-flag-change-leaves-flags")
				rt.Assert(m.CheckPermission(false, true), "hooks/vetoed-operation-leaves-the-interface-stamp-off")
			}
			_, gerr := iface.Get("t:a/x")
			rt.Assert(gerr == nil, "hooks/vetoed-modification-record-still-visible")
			if modify == 4 {
				sw, serr := c.storage.Get("a/w")
				rt.Assert(serr == nil, "hooks/modify-veto-record-still-stored")
				if w, ok := sw.(*record.Wrapper); ok {
					rt.Assert(string(w.Data) == `{"k":"v"}`, "hooks/vetoed-insert-leaves-the-stored-content")
					rt.Assert(w.Meta().CheckPermission(false, true), "hooks/vetoed-operation-leaves-the-interface-stamp-off")
				}
			}
		} else {
			rt.Assert(err == nil, "hooks/modify-ok")
		}
		rt.Reach("hooks-modify")
		return
	}
	// the stored record may be expired or (shadow-)deleted: the hooks still
	// see what was loaded, and may replace it
	storedState := rt.Choice("storedstate", 3)
	switch storedState {
	case 1:
		seed.Meta().Expires = time.Now().Unix() - 10
	case 2:
		seed.Meta().Deleted = time.Now().Unix() - 10
	}
	got, err := iface.Get("t:a/x")
	wantCalls := 0
	if rt.All(active, h.pre) {
		wantCalls++
	}
	preVeto := rt.All(active, h.pre, h.veto == 1)
	if rt.All(active, h.post, !preVeto) {
		wantCalls++
	}
	rt.Assert(len(h.calls) == wantCalls, "hooks/get-phases-called-exactly-as-declared")
	postVeto := rt.All(active, h.post, !preVeto, h.veto == 2)
	if rt.Any(preVeto, postVeto) {
		rt.Assert(errors.Is(err, errVeto), "hooks/get-veto-returns-hook-error")
		rt.Assert(got == nil, "hooks/get-veto-returns-no-record")
	} else if storedState != 0 && !rt.All(active, h.post, h.replace != nil) {
		rt.Assert(errors.Is(err, ErrNotFound), "hooks/get-invalid-record-not-found")
	} else {
		rt.Assert(err == nil, "hooks/get-ok")
		if rt.All(active, h.post, h.replace != nil) {
			rt.Assert(got == h.replace, "hooks/get-replacement-returned")
		} else {
			rt.Assert(got == record.Record(seed), "hooks/get-record-returned")
		}
	}
	rt.Reach("hooks-get")
}

// ---- Cancel racing with a writer that is inside the notification (G2: one
// preemption at any synchronisation operation): the write does not panic and
// nothing is delivered after Cancel returned ----

func VerifC14_CancelDuringWrite() {
	rt.NoTimers()
	rt.SchedYieldOnly(true)
	n := 1
	if rt.Thorough() {
		n = 2
	}
	rt.Preemptions(n)
	c14Setup()
	c14SlowMatch = true
	writer := NewInterface(&Options{Local: true, Internal: true})
	iface := NewInterface(nil)
	// a condition makes the notification look into the record
	sub, err := iface.Subscribe(query.New("t:a").Where(query.Where("N", query.GreaterThan, 0)))
	rt.Assert(err == nil, "cancelwrite/subscribe-ok")
	other, err := iface.Subscribe(query.New("t:a"))
	rt.Assert(err == nil, "cancelwrite/subscribe-ok")
	done := make(chan struct{})
	started := make(chan struct{})
	var werr error
	go func() {
		defer close(done)
		close(started)
		// the writer runs until it is preempted at some synchronisation
		// operation inside Put (or finishes)
		werr = writer.Put(c14NewRec("ab", 1, false, false))
	}()
	<-started
	if !rt.Symbolic() {
		time.Sleep(30 * time.Millisecond) // natively: the writer is inside the notification by now
	}
	rt.Assert(sub.Cancel() == nil, "cancelwrite/cancel-ok")
	c14SlowMatch = false
	// after Cancel returned: the feed is closed, whatever was delivered before
	// is still readable, nothing arrives afterwards
	delivered := 0
	for range sub.Feed {
		delivered++
	}
	rt.Assert(delivered <= 1, "cancelwrite/at-most-the-one-write")
	<-done
	rt.Assert(werr == nil, "cancelwrite/write-ok")
	rt.Assert(len(other.Feed) == 1, "cancelwrite/other-subscription-receives")
	rt.Reach("cancelwrite-end")
}
