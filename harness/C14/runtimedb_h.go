package runtime

// C14 harness (injected runtime registry): a write through an interface to a
// provider of the injected registry, and an update pushed by a provider, reach
// a matching subscription exactly once; others never.

import (
	"sync"

	"github.com/safing/portbase/database"
	"github.com/safing/portbase/database/query"
	"github.com/safing/portbase/database/record"
	"github.com/safing/portbase/utils"
	rt "github.com/safing/portbase/zz_verifrt"
)

type c14rRec struct {
	record.Base
	sync.Mutex
	N int
}

func c14rNew(key string, n int) *c14rRec {
	r := &c14rRec{N: n}
	r.SetKey(key)
	r.UpdateMeta()
	return r
}

func VerifC14_InjectedRuntimeRegistry() {
	rt.NoTimers()
	rt.SchedYieldOnly(true)
	rt.FsFaults(0)
	rt.FsStatDirs(true)
	_ = database.Initialize(utils.NewDirStructure(rt.Root("/data"), 0o755))
	_, err := database.Register(&database.Database{Name: "rtdb", Description: "t", StorageType: "injected"})
	rt.Assert(err == nil, "registry/register-database")
	reg := NewRegistry()
	// providers register before or after the registry is injected
	injectFirst := rt.Bool("inject-before-providers-register")
	if injectFirst {
		rt.Assert(reg.InjectAsDatabase("rtdb") == nil, "registry/inject")
	}
	sets := 0
	// the provider stores its own version of what it is given
	var stored *c14rRec
	push, err := reg.Register("a/", SimpleValueSetterFunc(func(r record.Record) (record.Record, error) {
		sets++
		stored = c14rNew(r.Key(), r.(*c14rRec).N+100)
		return stored, nil
	}))
	rt.Assert(err == nil, "registry/provider-registered")
	pushOther, err := reg.Register("b/x", SimpleValueSetterFunc(func(r record.Record) (record.Record, error) { return r, nil }))
	rt.Assert(err == nil, "registry/second-provider-registered")
	if !injectFirst {
		rt.Assert(reg.InjectAsDatabase("rtdb") == nil, "registry/inject")
	}
	db := database.NewInterface(&database.Options{Local: true, Internal: true})
	sub, err := db.Subscribe(query.New("rtdb:a/"))
	rt.Assert(err == nil, "registry/subscribe")
	if err != nil {
		return
	}
	want := 1
	switch rt.Choice("op", 5) {
	case 0: // put through an interface
		rt.Assert(db.Put(c14rNew("rtdb:a/k", 1)) == nil, "registry/put")
		rt.Assert(sets == 1, "registry/provider-set-called-once")
		// what is delivered is the record now in the database
		if len(sub.Feed) == 1 {
			got := <-sub.Feed
			rt.Assert(got == record.Record(stored), "registry/delivered-record-is-the-stored-one")
			sub.Feed <- got
		}
	case 1: // pushed by the provider
		push(c14rNew("rtdb:a/k", 2))
	case 2: // several records pushed at once: one delivery each
		push(c14rNew("rtdb:a/k", 2), c14rNew("rtdb:a/l", 3))
		want = 2
	case 3: // pushed outside the subscribed prefix
		pushOther(c14rNew("rtdb:b/x", 4))
		want = 0
	case 4: // put outside the subscribed prefix
		rt.Assert(db.Put(c14rNew("rtdb:b/x", 5)) == nil, "registry/put-other")
		want = 0
	}
	rt.Assert(len(sub.Feed) == want, "registry/matching-change-delivered-exactly-once")
	// a key no provider manages is refused and not delivered
	rt.Assert(db.Put(c14rNew("rtdb:c/none", 6)) != nil, "registry/unmanaged-key-refused")
	rt.Assert(len(sub.Feed) == want, "registry/refused-write-not-delivered")
	rt.Reach("registry-end")
}
