package updater

// C18 harnesses (updater): scan roots and archive entry names stay inside the
// registry's storage / unpack directory.

import (
	"github.com/safing/portbase/utils"
	rt "github.com/safing/portbase/zz_verifrt"
)

func insideC18(root, p string) bool {
	// lexically: below (or equal to) the root, with no parent reference in
	// the remainder (the file system would resolve "root/.." outside)
	if rt.EqStr(p, root) {
		return true
	}
	if len(p) <= len(root) {
		return false
	}
	ok := rt.All(rt.EqStr(p[:len(root)], root), p[len(root)] == '/')
	rest := p[len(root):]
	for i := 0; i+3 <= len(rest); i++ {
		// a segment that is exactly ".."
		end := true
		if i+3 < len(rest) {
			end = rest[i+3] == '/'
		}
		ok = rt.All(ok, !rt.All(rest[i] == '/', rest[i+1] == '.', rest[i+2] == '.', end))
	}
	return ok
}

func noNUL(s string) {
	for i := 0; i < len(s); i++ {
		rt.Assume(s[i] != 0)
	}
}

func newRegistry(storage string) *ResourceRegistry {
	reg := &ResourceRegistry{Name: "t", resources: make(map[string]*Resource)}
	reg.storageDir = utils.NewDirStructure(storage, 0o755)
	reg.tmpDir = reg.storageDir.ChildDir("tmp", 0o700)
	return reg
}

func VerifC18_ScanRoot() {
	storage := rt.Root("/s/updates")
	reg := newRegistry(storage)
	n := 3
	if rt.Thorough() {
		n = 5
	}
	var root string
	switch rt.Choice("kind", 3) {
	case 0:
		// a root that extends the storage path
		root = storage + rt.StrN("suffix", 1, n)
	case 1:
		root = "/" + rt.StrN("root", 0, n)
	case 2:
		// a relative root (parent references, dots, empty segments)
		root = rt.StrN("relative", 1, n+3)
		rt.Assume(root[0] != '/')
	}
	noNUL(root)
	for i := 0; i < len(root); i++ {
		// (the version pattern is matched against what the walk finds: the
		// engine's regular-expression interpreter handles ASCII subjects)
		rt.Assume(root[i] < 0x80)
	}
	rt.FsFaults(0)
	err := reg.ScanStorage(root)
	_ = err
	for i := 0; i < rt.FsLen(); i++ {
		if rt.FsOp(i) == "walk" {
			rt.Assert(insideC18(storage, rt.FsPath(i)), "scan/walk-root-inside-root")
		}
	}
	rt.Assert(!rt.NativeEscapes(), "scan/walk-root-inside-root")
	rt.Reach("scan-end")
}

func VerifC18_UnpackEntry() {
	storage := rt.Root("/s/updates")
	reg := newRegistry(storage)
	res := &Resource{registry: reg, Identifier: "a/b.zip"}
	rv := &ResourceVersion{resource: res, VersionNumber: "1.0.0", Available: true}
	res.Versions = []*ResourceVersion{rv}
	res.SelectedVersion = rv
	n := 6
	if rt.Thorough() {
		n = 9
	}
	name := rt.StrN("entry", 0, n)
	noNUL(name)
	rt.ZipEntry(name)
	rt.ZipMaterialize(storage + "/a/b_v1-0-0.zip")
	rt.FsFaults(1) // the destination must not exist yet: exactly one stat fails
	rt.FsFaultOps("stat")
	rt.FsStatDirs(true)
	unpackTmp := storage + "/tmp/b_v1-0-0"
	rt.NativeSubRoot("unpack-dir", unpackTmp)
	err := res.UnpackArchive()
	_ = err
	extracting := false
	for i := 0; i < rt.FsLen(); i++ {
		op := rt.FsOp(i)
		if op == "zipopen" {
			extracting = true
		}
		if op == "rename" {
			extracting = false
		}
		if extracting && op != "stat" && op != "zipopen" && op != "zipentryopen" && op != "removeall" && op != "remove" {
			// entries (files and directories alike) are extracted below the
			// per-archive temporary directory; only the clean-up of a
			// failed unpack touches anything else
			rt.Assert(insideC18(unpackTmp, rt.FsPath(i)), "unpack/entry-inside-unpack-dir")
		}
		if op != "zipopen" && op != "stat" {
			rt.Assert(insideC18(storage, rt.FsPath(i)), "unpack/access-inside-storage")
		}
	}
	// natively: nothing but the archive, its unpacked directory and the
	// (emptied) tmp directory may exist in the storage afterwards
	rt.Assert(!rt.NativeExtraFiles(storage+"/a/b_v1-0-0.zip", storage+"/a/b_v1-0-0", storage+"/tmp"), "unpack/entry-inside-unpack-dir")
	rt.Assert(!rt.NativeEscapes(), "unpack/access-inside-storage")
	rt.Reach("unpack-end")
}
