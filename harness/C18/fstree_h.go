package fstree

// C18 harnesses (fstree): no database key or query prefix reaches a file
// outside the backend's base directory.

import (
	"github.com/safing/portbase/database/query"
	"github.com/safing/portbase/database/record"
	rt "github.com/safing/portbase/zz_verifrt"
)

func inside(root, p string) bool {
	// lexically: below (or equal to) the root, with no parent reference in
	// the remainder (the file system would resolve "root/.." outside)
	if rt.EqStr(p, root) {
		return true
	}
	if len(p) <= len(root) {
		return false
	}
	ok := rt.All(rt.EqStr(p[:len(root)], root), p[len(root)] == '/')
	rest := p[len(root):]
	for i := 0; i+3 <= len(rest); i++ {
		// a segment that is exactly ".."
		end := true
		if i+3 < len(rest) {
			end = rest[i+3] == '/'
		}
		ok = rt.All(ok, !rt.All(rest[i] == '/', rest[i+1] == '.', rest[i+2] == '.', end))
	}
	return ok
}

// names produced by the engine's os.CreateTemp stub end in its fixed random part
func isTempName(p string) bool {
	return len(p) >= 7 && p[len(p)-7:] == "1234567"
}

func pickRoot() string {
	if rt.Choice("root", 2) == 0 {
		return rt.Root("/r/db")
	}
	return rt.Root("/db")
}

// NUL bytes never reach the file system (the os package rejects them), so
// names containing them are outside the claim.
func noNUL(s string) {
	for i := 0; i < len(s); i++ {
		rt.Assume(s[i] != 0)
	}
}

func keyLen() int {
	if rt.Thorough() {
		return 8
	}
	return 6
}

// every recorded file-system access names a path inside root
func traceInside(root, tag string) {
	for i := 0; i < rt.FsLen(); i++ {
		rt.Assert(inside(root, rt.FsPath(i)), tag+"/access-inside-root")
		if op := rt.FsOp(i); op == "rename" {
			rt.Assert(inside(root, rt.FsPath2(i)), tag+"/rename-target-inside-root")
		}
	}
}

func VerifC18_FstreeBuildPath() {
	root := pickRoot()
	fst := &FSTree{name: "t", basePath: root}
	key := rt.StrN("key", 0, keyLen())
	p, err := fst.buildFilePath(key, true)
	rt.ObserveBool("accepted", err == nil)
	if err == nil {
		rt.Assert(inside(root, p), "fstree/built-path-inside-root")
		rt.Reach("fstree-path-ok")
	} else {
		rt.Reach("fstree-path-rejected")
	}
}

func VerifC18_FstreeOps() {
	root := pickRoot()
	fst := &FSTree{name: "t", basePath: root}
	key := rt.StrN("key", 0, keyLen())
	noNUL(key)
	rt.FsFaults(0) // containment is checked on fault-free runs (replayable natively)
	switch rt.Choice("op", 3) {
	case 0:
		_, _ = fst.Get(key)
	case 1:
		_ = fst.Delete(key)
	case 2:
		w, _ := record.NewWrapper("t:"+key, &record.Meta{}, 1, []byte{1})
		_, _ = fst.Put(w)
	}
	// natively (replay) the sandbox around the root must be unchanged
	rt.Assert(!rt.NativeEscapes(), "fstreeops/access-inside-root")
	// temp files of the atomic writer live in the temp dir or next to the
	// destination; everything else must be inside the root
	for i := 0; i < rt.FsLen(); i++ {
		p := rt.FsPath(i)
		if len(p) >= 5 && p[:5] == "/tmp/" {
			continue
		}
		op := rt.FsOp(i)
		if op == "createtemp" || (op != "rename" && isTempName(p)) {
			// temporary files next to the destination (transient; not
			// observable after the operation, hence a separate obligation)
			rt.Assert(inside(root, p), "fstreeops/tempfile-inside-root")
			continue
		}
		if op == "rename" {
			rt.Assert(inside(root, rt.FsPath2(i)), "fstreeops/access-inside-root")
			continue
		}
		rt.Assert(inside(root, p), "fstreeops/access-inside-root")
	}
	rt.Reach("fstreeops-end")
}

func VerifC18_FstreeQuery() {
	root := rt.Root("/r/db")
	parent := root[:len(root)-len("/db")]
	fst := &FSTree{name: "t", basePath: root}
	n := 4
	if rt.Thorough() {
		n = 6
	}
	prefix := rt.StrN("prefix", 0, n)
	for i := 0; i < len(prefix); i++ {
		rt.Assume(prefix[i] != 0)
	}
	// candidate directory entries around the root (natively the sandbox holds
	// the same siblings, and two records inside the root)
	rt.WalkEntry(root, true)
	rt.WalkEntry(root+"/a", false)
	rt.WalkEntry(root+"/d", true)
	rt.WalkEntry(root+"/d/b", false)
	rt.WalkEntry(parent, true)
	rt.WalkEntry(parent+"/db2", true)
	rt.WalkEntry(parent+"/db2/x", false)
	rt.WalkEntry(parent+"/dbx", false)
	rt.WalkEntry(parent+"/o", false)
	if !rt.Symbolic() {
		for _, k := range []string{"a", "d/b"} {
			w, _ := record.NewWrapper("t:"+k, &record.Meta{}, 'J', []byte("{}"))
			w.UpdateMeta()
			_, _ = fst.Put(w)
		}
	}
	rt.FsFaults(1)
	rt.FsStatFromWalk(true) // stat agrees with the registered entries (the root is a directory)
	q := query.New("t:" + prefix)
	if _, err := q.Check(); err != nil {
		return
	}
	walkPrefix, err := fst.buildFilePath(q.DatabaseKeyPrefix(), false)
	if err != nil {
		rt.Reach("fstreequery-rejected")
		return
	}
	_ = walkPrefix
	it, err := fst.Query(q, true, true)
	if err != nil {
		return
	}
	for r := range it.Next {
		// no record from outside the root is returned
		k := r.DatabaseKey()
		rt.Assert(!(len(k) >= 2 && k[0] == '.' && k[1] == '.'), "fstreequery/no-record-from-outside-the-root")
	}
	for i := 0; i < rt.FsLen(); i++ {
		op := rt.FsOp(i)
		if op == "readfile" {
			rt.Assert(inside(root, rt.FsPath(i)), "fstreequery/reads-inside-root")
		}
		if op == "walk" {
			// the directory walk starts at the root or below it
			rt.Assert(inside(root, rt.FsPath(i)), "fstreequery/walk-inside-root")
		}
	}
	rt.Assert(!rt.NativeEscapes(), "fstreequery/reads-inside-root")
	rt.Reach("fstreequery-end")
}
