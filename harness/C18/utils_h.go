package utils

// C18 harnesses (DirStructure): no requested path creates or touches anything
// outside the structure's root.

import (
	rt "github.com/safing/portbase/zz_verifrt"
)

func insideC18(root, p string) bool {
	// lexically: below (or equal to) the root, with no parent reference in
	// the remainder (the file system would resolve "root/.." outside)
	if rt.EqStr(p, root) {
		return true
	}
	if len(p) <= len(root) {
		return false
	}
	ok := rt.All(rt.EqStr(p[:len(root)], root), p[len(root)] == '/')
	rest := p[len(root):]
	for i := 0; i+3 <= len(rest); i++ {
		// a segment that is exactly ".."
		end := true
		if i+3 < len(rest) {
			end = rest[i+3] == '/'
		}
		ok = rt.All(ok, !rt.All(rest[i] == '/', rest[i+1] == '.', rest[i+2] == '.', end))
	}
	return ok
}

func VerifC18_DirStructure() {
	root := rt.Root("/r/data")
	if rt.Choice("root", 2) == 1 {
		root = rt.Root("/d")
	}
	ds := NewDirStructure(root, 0o755)
	child := ds.ChildDir("sub", 0o700)
	n := 4
	if rt.Thorough() {
		n = 6
	}
	var err error
	rt.FsFaults(0)
	switch rt.Choice("op", 5) {
	case 0:
		// an absolute path below (or pretending to be below) the root
		err = ds.EnsureAbsPath(root + rt.StrN("p", 0, n))
	case 4:
		// an arbitrary short path
		err = ds.EnsureAbsPath(rt.Abs(rt.StrN("p", 0, 4)))
	case 1:
		err = ds.EnsureRelPath(rt.StrN("p", 0, n))
	case 2:
		err = ds.EnsureRelDir(rt.StrN("p", 0, n-2), rt.StrN("q", 0, 2))
	case 3:
		err = child.EnsureRelPath(rt.StrN("p", 0, n))
	}
	_ = err
	rt.Assert(!rt.NativeEscapes(), "dirstructure/access-inside-root")
	for i := 0; i < rt.FsLen(); i++ {
		rt.Assert(insideC18(root, rt.FsPath(i)), "dirstructure/access-inside-root")
	}
	rt.Reach("dirstructure-end")
}

// a root given with a trailing separator (or not): the structure's own
// directories can be ensured, and nothing outside the root is touched
func VerifC18_DirStructureRootForms() {
	root := rt.Root("/r/data")
	given := root
	if rt.Bool("root-given-with-trailing-separator") {
		given = root + "/"
	}
	ds := NewDirStructure(given, 0o755)
	child := ds.ChildDir("sub", 0o700)
	rt.FsFaults(0)
	rt.FsStatDirs(true)
	rt.Assert(ds.Ensure() == nil, "rootforms/root-can-be-ensured")
	rt.Assert(child.Ensure() == nil, "rootforms/child-can-be-ensured")
	rt.Assert(ds.EnsureRelPath("a/b") == nil, "rootforms/path-below-the-root-can-be-ensured")
	rt.Assert(ds.EnsureAbsPath(root+"2/x") != nil, "rootforms/sibling-sharing-the-name-refused")
	rt.Assert(ds.EnsureRelPath("../x") != nil, "rootforms/parent-refused")
	rt.Assert(!rt.NativeEscapes(), "rootforms/access-inside-root")
	for i := 0; i < rt.FsLen(); i++ {
		rt.Assert(insideC18(root, rt.FsPath(i)), "rootforms/access-inside-root")
	}
	rt.Reach("rootforms-end")
}
