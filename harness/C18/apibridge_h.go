package api

// C18 harness (API bridge): a database key turned into a request path never
// leaves the /api/v1/ scope.

import (
	"errors"
	"io"
	"net/http"
	"net/http/httptest"
	"net/url"

	rt "github.com/safing/portbase/zz_verifrt"
)

// what the bridged handler saw
var c18Seen []string

type c18Handler struct{}

func (c18Handler) ServeHTTP(w http.ResponseWriter, r *http.Request) {
	c18Seen = append(c18Seen, r.URL.Path)
	w.WriteHeader(200)
}

// VerifModel_httptest_NewRequest replaces httptest.NewRequest under the engine
// (the real one parses a textual HTTP request): same URL and method.
func VerifModel_httptest_NewRequest(method, target string, body io.Reader) *http.Request {
	u, err := VerifModel_url_ParseRequestURI(target)
	if err != nil {
		panic("invalid NewRequest arguments")
	}
	return &http.Request{Method: method, URL: u, RequestURI: target, Header: http.Header{}, Host: "example.com"}
}

// VerifModel_url_ParseRequestURI replaces url.ParseRequestURI under the engine
// for absolute paths without escapes: path up to the first '?', rest is the
// query. (The real parser splits on every byte class; the subject here is the
// scope of the path, which this keeps intact.)
func VerifModel_url_ParseRequestURI(raw string) (*url.URL, error) {
	if raw == "" || raw[0] != '/' {
		return nil, errors.New("invalid URI for request")
	}
	p, q := raw, ""
	for i := 0; i < len(raw); i++ {
		if raw[i] == '?' {
			p, q = raw[:i], raw[i+1:]
			break
		}
	}
	return &url.URL{Path: p, RawQuery: q}, nil
}

// VerifModel_url_URL_String replaces (*url.URL).String under the engine: no
// escaping (the request model above does not unescape either).
func VerifModel_url_URL_String(u *url.URL) string {
	if u.RawQuery != "" {
		return u.Path + "?" + u.RawQuery
	}
	return u.Path
}

type c18Recorder struct {
	code int
	h    http.Header
}

// VerifModel_http_NewRequest: the bridge's pre-check of the request parameters
// (methods are fixed tokens in this harness).
func VerifModel_http_NewRequest(method, target string, body io.Reader) (*http.Request, error) {
	return &http.Request{Method: method, URL: &url.URL{Path: target}, Header: http.Header{}}, nil
}

// VerifModel_httptest_NewRecorder: a recorder with code 200 by default.
func VerifModel_httptest_NewRecorder() *httptest.ResponseRecorder {
	return &httptest.ResponseRecorder{HeaderMap: http.Header{}, Code: 200}
}

func c18InScope(p string) bool {
	const scope = "/api/v1/"
	return len(p) >= len(scope) && rt.EqStr(p[:len(scope)], scope)
}

func VerifC18_APIBridge() {
	c18Seen = nil
	server.Handler = c18Handler{}
	n := 7
	if rt.Thorough() {
		n = 9
	}
	key := rt.StrN("key", 0, n)
	for i := 0; i < len(key); i++ {
		// printable ASCII (control characters and spaces make the request URI
		// unparsable, which is a rejection as well)
		rt.Assume(rt.All(key[i] > 0x20, key[i] < 0x7f, key[i] != '%'))
	}
	ebs := &endpointBridgeStorage{}
	var err error
	if rt.Bool("put") {
		r := &EndpointBridgeRequest{Path: "ignored/../../other", Method: "POST"}
		r.SetKey(apiDatabaseName + ":" + key)
		_, err = ebs.Put(r)
	} else {
		_, err = ebs.Get(key)
	}
	rt.ObserveBool("accepted", err == nil)
	rt.Assert(len(c18Seen) <= 1, "bridge/at-most-one-request")
	for _, p := range c18Seen {
		rt.Assert(c18InScope(p), "bridge/request-path-inside-api-scope")
	}
	if err == nil {
		rt.Assert(len(c18Seen) == 1, "bridge/accepted-means-handled")
	}
	rt.Reach("bridge-end")
}
