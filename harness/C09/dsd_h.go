package dsd

// C09 harnesses: DSD dump/load round-trips in every format, compressed or over
// HTTP. Third-party codecs and gzip are contract stubs (see config.json).

import (
	"bytes"
	"errors"
	"io"
	"net/http"

	rt "github.com/safing/portbase/zz_verifrt"
)

type verifValue struct {
	A int64
	B bool
	C uint8
}

// a GenCode-compatible harness type (two bytes)
type verifGen struct {
	X uint8
	Y uint8
}

func (g *verifGen) GenCodeMarshal(buf []byte) ([]byte, error) { return []byte{g.X, g.Y}, nil }
func (g *verifGen) GenCodeUnmarshal(buf []byte) (uint64, error) {
	if len(buf) < 2 {
		return 0, errors.New("short")
	}
	g.X, g.Y = buf[0], buf[1]
	return 2, nil
}

func symValue() *verifValue {
	return &verifValue{A: rt.I64("A"), B: rt.Bool("B"), C: rt.U8("C")}
}

func sameValue(a, b *verifValue, tag string) {
	rt.Assert(a.A == b.A, tag+"/field-A")
	rt.Assert(a.B == b.B, tag+"/field-B")
	rt.Assert(a.C == b.C, tag+"/field-C")
}

func resolved(format uint8) uint8 {
	if format == AUTO {
		return DefaultSerializationFormat
	}
	return format
}

// ---- O1: Dump -> Load for all 256 format ids ----

func VerifC09_DumpLoad() {
	format := rt.U8("format")
	rt.Region("C09-dump-auto-unloadable", format == AUTO)
	v := symValue()
	data, err := Dump(v, format)
	if err != nil {
		// only unsupported formats, RAW/GenCode on an incompatible value, or
		// the (stubbed) codec may fail
		_, ok := ValidateSerializationFormat(format)
		if ok && format != RAW && format != GenCode {
			rt.Reach("dumpload-codec-error")
		}
		return
	}
	back := &verifValue{}
	got, err := Load(data, back)
	rt.Assert(err == nil, "dumpload/load-ok")
	if err != nil {
		return
	}
	rt.Assert(got == resolved(format), "dumpload/format-reported")
	sameValue(v, back, "dumpload")
	rt.Reach("dumpload-end")
}

func VerifC09_DumpLoadGenCode() {
	format := rt.U8("format")
	rt.Assume(rt.Any(format == GenCode, format == RAW))
	if format == GenCode {
		g := &verifGen{X: rt.U8("X"), Y: rt.U8("Y")}
		data, err := Dump(g, format)
		rt.Assert(err == nil, "gencode/dump-ok")
		back := &verifGen{}
		got, err := Load(data, back)
		rt.Assert(err == nil, "gencode/load-ok")
		rt.Assert(got == GenCode, "gencode/format-reported")
		rt.Assert(back.X == g.X, "gencode/X")
		rt.Assert(back.Y == g.Y, "gencode/Y")
		rt.Reach("gencode-end")
		return
	}
	raw := rt.BytesN("raw", 0, 3) // including the empty value
	data, err := Dump(raw, RAW)
	rt.Assert(err == nil, "raw/dump-ok")
	rt.Assert(len(data) == len(raw)+1, "raw/len")
	got, err := Load(data, nil)
	// RAW payloads are reported as such: the caller takes the bytes
	rt.Assert(errors.Is(err, ErrIsRaw), "raw/reported-as-raw")
	rt.Assert(got == RAW, "raw/format-reported")
	rt.Assert(rt.EqBytes(data[1:], raw), "raw/bytes")
	rt.Reach("raw-end")
}

// Values whose encoding is a single byte (a small integer in JSON, CBOR and
// MsgPack): the smallest documents a codec produces, compressed or not.
func VerifC09_DumpLoadScalar() {
	format := rt.U8("format")
	rt.Region("C09-dump-auto-unloadable", format == AUTO)
	n := rt.U8("n")
	rt.Assume(n <= 9)
	compressed := rt.Bool("compressed")
	var (
		data []byte
		err  error
	)
	if compressed {
		data, err = DumpAndCompress(int(n), format, GZIP)
	} else {
		data, err = Dump(int(n), format)
	}
	if err != nil {
		return
	}
	back := new(int)
	got, err := Load(data, back)
	rt.Assert(err == nil, "scalar/load-ok")
	if err != nil {
		return
	}
	rt.Assert(got == resolved(format), "scalar/format-reported")
	rt.Assert(*back == int(n), "scalar/value")
	rt.Reach("scalar-end")
}

// a large, highly compressible value (8 KiB of one byte) survives compression:
// nothing on the way limits how far data may grow when it is decompressed
type verifGenBig struct {
	X uint8
}

const verifGenBigSize = 8192

func (g *verifGenBig) GenCodeMarshal(buf []byte) ([]byte, error) {
	out := make([]byte, verifGenBigSize)
	for i := range out {
		out[i] = g.X
	}
	return out, nil
}

func (g *verifGenBig) GenCodeUnmarshal(buf []byte) (uint64, error) {
	if len(buf) < verifGenBigSize {
		return 0, errors.New("short")
	}
	g.X = buf[verifGenBigSize-1]
	return verifGenBigSize, nil
}

func VerifC09_CompressLargeValue() {
	rt.SetUnwind(3 * verifGenBigSize)
	g := &verifGenBig{X: rt.U8("X")}
	data, err := DumpAndCompress(g, GenCode, GZIP)
	rt.Assert(err == nil, "compresslarge/dump-ok")
	if err != nil {
		return
	}
	back := &verifGenBig{}
	got, err := Load(data, back)
	rt.Assert(err == nil, "compresslarge/load-ok")
	if err != nil {
		return
	}
	rt.Assert(got == GenCode, "compresslarge/format-reported")
	rt.Assert(back.X == g.X, "compresslarge/value")
	rt.Reach("compresslarge-end")
}

// ---- O1b: DumpAndCompress -> Load for all 256 x 256 ids ----

func VerifC09_DumpCompressLoad() {
	format := rt.U8("format")
	compression := rt.U8("compression")
	rt.Region("C09-dump-auto-unloadable", format == AUTO)
	v := symValue()
	data, err := DumpAndCompress(v, format, compression)
	if err != nil {
		return
	}
	back := &verifValue{}
	got, err := Load(data, back)
	rt.Assert(err == nil, "compress/load-ok")
	if err != nil {
		return
	}
	rt.Assert(got == resolved(format), "compress/format-reported")
	sameValue(v, back, "compress")
	rt.Reach("compress-end")
}

// dumps are independent of each other: a compressed dump that is still held
// while further dumps are made (and after their results were dropped) loads
// to its own value
func VerifC09_DumpsAreIndependent() {
	format := []uint8{JSON, CBOR, MsgPack}[rt.Choice("format", 3)]
	compression := []uint8{GZIP, AUTO, 0}[rt.Choice("compression", 3)]
	a, b := &verifValue{}, &verifValue{}
	*a = *symValue()
	*b = *a
	b.C = a.C + 1
	b.B = !a.B
	var first, second []byte
	var err error
	if compression == 0 {
		first, err = Dump(a, format)
	} else {
		first, err = DumpAndCompress(a, format, compression)
	}
	if err != nil {
		return
	}
	snapshot := append([]byte{}, first...)
	if compression == 0 {
		second, err = Dump(b, format)
	} else {
		second, err = DumpAndCompress(b, format, compression)
	}
	if err != nil {
		return
	}
	rt.Assert(rt.EqBytes(first, snapshot), "independent/earlier-dump-unchanged-by-a-later-one")
	// (the held bytes are what the first dump returned: that they load to the
	// first value is the round trip of the harnesses above; the engine's codec
	// contract stubs are not injective, so the values are not compared here)
	_ = second
	rt.Reach("independent-end")
}

// ---- O4: Load is total on arbitrary bytes ----

func VerifC09_LoadTotal() {
	maxLen := 4
	if rt.Thorough() {
		maxLen = 6
	}
	b := rt.BytesN("b", 0, maxLen)
	back := &verifValue{}
	_, _ = Load(b, back)
	g := &verifGen{}
	_, _ = Load(b, g)
	rt.Reach("loadtotal-end")
}

// ---- O3: HTTP ----

func acceptString() string {
	maxLen := 3
	if rt.Thorough() {
		maxLen = 4
	}
	s := rt.StrN("accept", 0, maxLen)
	for i := 0; i < len(s); i++ {
		rt.Assume(s[i] < 0x80) // non-ASCII header bytes are outside the claim
	}
	return s
}

// canonical media types and a few structured Accept headers, plus an
// arbitrary symbolic string
func pickAccept() string {
	switch rt.Choice("acceptkind", 9) {
	case 0:
		return "application/json"
	case 1:
		return "application/cbor"
	case 2:
		return "application/msgpack"
	case 3:
		return "application/yaml"
	case 4:
		return "*/*"
	case 5:
		return "text/html, application/cbor;q=0.9, */*;q=0.8"
	case 6:
		return "text/html,*/*"
	case 7:
		return ""
	}
	return acceptString()
}

func VerifC09_MimeDumpLoad() {
	accept := pickAccept()
	want := FormatFromAccept(accept)
	v := symValue()
	data, mimeType, format, err := MimeDump(v, accept)
	if want == AUTO {
		rt.Assert(err != nil, "mime/unsupported-accept-errors")
		rt.Reach("mime-unsupported")
		return
	}
	if err != nil {
		rt.Reach("mime-codec-error")
		return
	}
	rt.Assert(format == want, "mime/format")
	rt.Assert(mimeType != "", "mime/mimetype-nonempty")
	back := &verifValue{}
	got, err := MimeLoad(data, mimeType, back)
	rt.Assert(err == nil, "mime/load-ok")
	if err == nil {
		rt.Assert(got == format, "mime/load-format")
		sameValue(v, back, "mime")
	}
	rt.Reach("mime-end")
}

// supported format names and wildcards must be accepted
func VerifC09_AcceptSupported() {
	rt.Assert(FormatFromAccept("application/json") == JSON, "accept/json")
	rt.Assert(FormatFromAccept("application/cbor") == CBOR, "accept/cbor")
	rt.Assert(FormatFromAccept("application/msgpack") == MsgPack, "accept/msgpack")
	rt.Assert(FormatFromAccept("application/yaml") == YAML, "accept/yaml")
	rt.Assert(FormatFromAccept("*/*") == DefaultSerializationFormat, "accept/wildcard")
	rt.Assert(FormatFromAccept("") == DefaultSerializationFormat, "accept/empty")
	// FormatFromAccept is total on every ASCII string
	s := acceptString()
	f := FormatFromAccept(s)
	rt.Observe("format", uint64(f))
	_, ok := FormatToMimeType[f]
	rt.Assert(rt.Any(f == AUTO, ok), "accept/result-is-auto-or-supported")
	rt.Reach("accept-end")
}

type verifRW struct {
	h    http.Header
	body []byte
}

func (w *verifRW) Header() http.Header { return w.h }
func (w *verifRW) Write(b []byte) (int, error) {
	w.body = append(w.body, b...)
	return len(b), nil
}
func (w *verifRW) WriteHeader(int) {}

func VerifC09_HTTPResponse() {
	accept := pickAccept()
	want := FormatFromAccept(accept)
	req := &http.Request{Header: http.Header{"Accept": {accept}}}
	w := &verifRW{h: http.Header{}}
	v := symValue()
	err := DumpToHTTPResponse(w, req, v)
	if want == AUTO {
		rt.Assert(err != nil, "httpresp/unsupported-accept-errors")
		return
	}
	if err != nil {
		rt.Reach("httpresp-codec-error")
		return
	}
	ct := w.h.Get("Content-Type")
	rt.Assert(ct != "", "httpresp/content-type-set")
	resp := &http.Response{Header: w.h, Body: io.NopCloser(bytes.NewReader(w.body))}
	back := &verifValue{}
	got, err := LoadFromHTTPResponse(resp, back)
	rt.Assert(err == nil, "httpresp/load-ok")
	if err == nil {
		rt.Assert(got == want, "httpresp/format")
		sameValue(v, back, "httpresp")
	}
	rt.Reach("httpresp-end")
}

func VerifC09_HTTPRequest() {
	format := rt.U8("format")
	req := &http.Request{Header: http.Header{}}
	// the request may already carry a content type: a default set by the
	// caller, or that of an earlier dump in another format into the same request
	switch rt.Choice("earlier-content-type", 3) {
	case 1:
		req.Header.Set("Content-Type", "application/json")
	case 2:
		if DumpToHTTPRequest(req, symValue(), YAML) != nil {
			return
		}
	}
	v := symValue()
	err := DumpToHTTPRequest(req, v, format)
	if err != nil {
		return
	}
	_, supported := FormatToMimeType[format]
	rt.Assert(supported, "httpreq/only-supported-formats")
	rt.Assert(req.Header.Get("Content-Type") != "", "httpreq/content-type-set")
	back := &verifValue{}
	got, err := LoadFromHTTPRequest(req, back)
	rt.Assert(err == nil, "httpreq/load-ok")
	if err == nil {
		rt.Assert(got == format, "httpreq/format")
		sameValue(v, back, "httpreq")
	}
	rt.Reach("httpreq-end")
}

// ---- Accept headers built from the media-type grammar: 1..3 entries of
// type/subtype with optional parameters and optional white space ----

type c09Media struct {
	text     string
	format   uint8 // named supported format (AUTO: none)
	wildcard bool
}

func c09MediaMenu() []c09Media {
	return []c09Media{
		{"application/json", JSON, false},
		{"application/cbor", CBOR, false},
		{"application/msgpack", MsgPack, false},
		{"application/yaml", YAML, false},
		{"APPLICATION/JSON", JSON, false},
		{"yml", YAML, false},
		{"text/html", AUTO, false},
		{"application/xhtml+xml", AUTO, false},
		{"*/*", AUTO, true},
		{"*", AUTO, true},
		{"text/*", AUTO, true},
	}
}

func VerifC09_AcceptGrammar() {
	media := c09MediaMenu()
	params := []string{"", ";q=0.8", "; q=0.5", ";profile=a/b", ";charset=utf-8;q=0.1"}
	n := 1 + rt.Choice("entries", 2)
	if rt.Thorough() {
		n = 1 + rt.Choice("entries3", 3)
	}
	accept := ""
	want := uint8(AUTO)
	decided, sawWildcard := false, false
	for i := 0; i < n; i++ {
		tag := "e" + string(rune('0'+i))
		m := media[rt.Choice(tag+".type", len(media))]
		p := params[rt.Choice(tag+".param", len(params))]
		if i > 0 {
			accept += []string{",", ", "}[rt.Choice(tag+".sep", 2)]
		}
		accept += m.text + p
		// reference: the first entry naming a supported format wins; otherwise
		// any wildcard selects the default format
		if !decided && m.format != AUTO {
			want = m.format
			decided = true
		}
		sawWildcard = sawWildcard || m.wildcard
	}
	if !decided && sawWildcard {
		want = DefaultSerializationFormat
	}
	got := FormatFromAccept(accept)
	rt.Observe("format", uint64(got))
	rt.Assert(got == want, "acceptgrammar/format-follows-the-documented-rule")
	// and the response side names an encoding the load side understands
	// (for up to two entries: the third multiplies the paths without reaching new code)
	if want != AUTO && n <= 2 {
		v := symValue()
		data, mimeType, format, err := MimeDump(v, accept)
		if err == nil {
			rt.Assert(format == want, "acceptgrammar/dump-format")
			got2 := FormatFromAccept(mimeType)
			rt.Assert(got2 == want, "acceptgrammar/content-type-names-the-encoding")
			_ = data
		}
	}
	rt.Reach("acceptgrammar-end")
}
