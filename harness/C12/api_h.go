package api

// C12 harnesses: an API handler runs only for requests holding the permission
// it requires (authenticateRequest / checkAuth / checkAPIKey /
// checkSessionCookie / getEffectiveMethod decision table).

import (
	"errors"
	"net/http"
	"net/url"
	"time"

	"github.com/gorilla/mux"
	"github.com/tevino/abool"

	rt "github.com/safing/portbase/zz_verifrt"
)

type verifHandler struct {
	read, write Permission
	invoked     bool
}

func (h *verifHandler) ReadPermission(*http.Request) Permission  { return h.read }
func (h *verifHandler) WritePermission(*http.Request) Permission { return h.write }
func (h *verifHandler) ServeHTTP(http.ResponseWriter, *http.Request) {
	h.invoked = true
}

type verifRW struct {
	h     http.Header
	codes []int
}

func (w *verifRW) Header() http.Header         { return w.h }
func (w *verifRW) Write(b []byte) (int, error) { return len(b), nil }
func (w *verifRW) WriteHeader(code int)        { w.codes = append(w.codes, code) }

func inRange(p Permission) bool { return rt.All(p >= PermitAnyone, p <= PermitSelf) }

func symPerm(name string) Permission { return Permission(rt.I8(name)) }

// credential state -> reference effective permissions (granted read/write).
// ok=false means the reference predicts an error reply from checkAuth itself.
type credState struct {
	scenario   int
	dev        bool
	bridge     bool
	authHeader string
	keyKnown   bool
	keyExpired bool
	keyToken   *AuthToken
	cookie     int // 0 none, 1 unknown, 2 valid, 3 expired
	sessToken  *AuthToken
	authn      int // 0 unset, 1 token, 2 nil, 3 denied, 4 other error
	authnToken *AuthToken
}

func setupCredentials() (*http.Request, *credState) {
	cs := &credState{}
	// the package init (router, module registration, flags) is not executed by
	// the engine; set the globals the authentication code reads
	if ErrAPIAccessDeniedMessage == nil {
		ErrAPIAccessDeniedMessage = errors.New("")
	}
	if authFnSet == nil {
		authFnSet = abool.New()
	}
	// scenario: which credential sources are present
	// 0 none, 1 dev mode, 2 bridge, 3 api key, 4 cookie, 5 authenticator,
	// 6 key+cookie+authenticator together (precedence), 7 dev mode + everything
	sc := rt.Choice("scenario", 8)
	cs.scenario = sc
	cs.dev = sc == 1 || sc == 7
	devMode = func() bool { return cs.dev }
	cs.bridge = sc == 2
	r := &http.Request{Header: http.Header{}, Method: "GET"}
	if cs.bridge {
		r.RemoteAddr = endpointBridgeRemoteAddress
	} else {
		r.RemoteAddr = "192.168.0.1:1234"
	}

	// configured API key "abcdef", possibly with an expiry
	apiKeys = make(map[string]*AuthToken)
	cs.keyToken = &AuthToken{Read: symPerm("key.read"), Write: symPerm("key.write")}
	if sc == 3 && rt.Bool("key.hasexpiry") {
		cs.keyExpired = rt.Bool("key.expired")
		var until time.Time
		if cs.keyExpired {
			until = time.Now().Add(-time.Hour)
		} else {
			until = time.Now().Add(time.Hour)
		}
		cs.keyToken.ValidUntil = &until
	}
	apiKeys["abcdef"] = cs.keyToken

	// Authorization header
	kind := 0
	if sc == 3 {
		kind = 1 + rt.Choice("auth.kind", 4)
	} else if sc >= 6 {
		kind = 1
	}
	switch kind {
	case 1: // the configured key
		cs.authHeader = "Bearer abcdef"
		cs.keyKnown = true
	case 2: // arbitrary bearer key of 0..6 bytes (unknown, short, or by chance the configured one)
		k := rt.StrN("bearer", 0, 6)
		rt.Region("C12-short-unknown-key-panics", len(k) < 4)
		cs.authHeader = "Bearer " + k
		cs.keyKnown = rt.EqStr(k, "abcdef")
	case 3: // other scheme / malformed
		cs.authHeader = rt.StrN("authraw", 1, 4)
		// exclude by-chance well-formed Bearer/Basic prefixes (covered above)
		rt.Assume(!hasPrefix(cs.authHeader, "Bearer "))
		rt.Assume(!hasPrefix(cs.authHeader, "Basic "))
	case 4: // basic auth (decoded by a stub: arbitrary user/pass)
		cs.authHeader = "Basic eDp5"
	}
	if cs.authHeader != "" {
		r.Header["Authorization"] = []string{cs.authHeader}
	}

	// sessions
	sessions = make(map[string]*session)
	cs.sessToken = &AuthToken{Read: symPerm("sess.read"), Write: symPerm("sess.write")}
	if sc == 4 {
		cs.cookie = 1 + rt.Choice("cookie", 3)
	} else if sc >= 6 {
		cs.cookie = 2
	}
	switch cs.cookie {
	case 1:
		r.Header["Cookie"] = []string{sessionCookieName + "=unknownvalue"}
	case 2:
		sessions["sesskey"] = &session{token: cs.sessToken, validUntil: time.Now().Add(time.Minute)}
		r.Header["Cookie"] = []string{sessionCookieName + "=sesskey"}
	case 3:
		sessions["sesskey"] = &session{token: cs.sessToken, validUntil: time.Now().Add(-time.Minute)}
		r.Header["Cookie"] = []string{sessionCookieName + "=sesskey"}
	}

	// authenticator
	if sc == 5 {
		cs.authn = 1 + rt.Choice("authn", 4)
	} else if sc >= 6 {
		cs.authn = 1
	}
	cs.authnToken = &AuthToken{Read: symPerm("authn.read"), Write: symPerm("authn.write")}
	authFnSet.UnSet()
	authFn = nil
	if cs.authn != 0 {
		authFnSet.Set()
		authFn = func(r *http.Request, s *http.Server) (*AuthToken, error) {
			switch cs.authn {
			case 1:
				return cs.authnToken, nil
			case 2:
				return nil, nil
			case 3:
				return nil, ErrAPIAccessDeniedMessage
			}
			return nil, errors.New("authenticator broke")
		}
	}
	return r, cs
}

func hasPrefix(s, p string) bool {
	if len(s) < len(p) {
		return false
	}
	return rt.EqStr(s[:len(p)], p)
}

// reference decision procedure: which token does the credential state grant?
// returns (token, handledWithStatus)
func (cs *credState) reference(authRequired bool) (*AuthToken, int) {
	anyone := &AuthToken{Read: PermitAnyone, Write: PermitAnyone}
	switch {
	case cs.dev:
		return &AuthToken{Read: PermitSelf, Write: PermitSelf}, 0
	case cs.bridge:
		return &AuthToken{Read: dbCompatibilityPermission, Write: dbCompatibilityPermission}, 0
	case cs.keyKnown && !cs.keyExpired:
		return cs.keyToken, 0
	case cs.cookie == 2:
		return cs.sessToken, 0
	}
	switch cs.authn {
	case 1:
		return cs.authnToken, 0
	case 3:
		if authRequired {
			return nil, 403
		}
	case 4:
		return nil, 500
	}
	return anyone, 0
}

func VerifC12_Authenticate() {
	r, cs := setupCredentials()
	h := &verifHandler{read: symPerm("h.read"), write: symPerm("h.write")}
	readMethod := rt.Bool("readMethod")
	w := &verifRW{h: http.Header{}}
	if cs.authHeader == "Basic eDp5" {
		rt.Reach("auth-basic")
	}

	token := authenticateRequest(w, r, h, readMethod)

	required := h.write
	if readMethod {
		required = h.read
	}
	if cs.authHeader != "Basic eDp5" {
		// (Basic credentials are decoded by a contract stub under the engine:
		// not comparable with the native run)
		rt.ObserveBool("granted", token != nil)
		if token != nil {
			rt.Observe("token-read", uint64(uint8(token.Read)))
			rt.Observe("token-write", uint64(uint8(token.Write)))
		}
		for _, c := range w.codes {
			rt.Observe("reply", uint64(c))
		}
	}
	if token != nil {
		rt.Assert(len(w.codes) == 0, "auth/granted-without-error-reply")
		rt.Assert(required != NotFound, "auth/notfound-never-granted")
		rt.Assert(required != NotSupported, "auth/notsupported-never-granted")
		eff := required
		if required == Dynamic {
			eff = PermitAnyone
		}
		rt.Assert(inRange(eff), "auth/required-in-range")
		if required != PermitAnyone && cs.authHeader != "Basic eDp5" {
			ref, status := cs.reference(eff > PermitAnyone)
			rt.Assert(status == 0, "auth/reference-predicts-grant")
			if status == 0 {
				granted := ref.Write
				if readMethod {
					granted = ref.Read
				}
				rt.Assert(inRange(granted), "auth/granted-in-range")
				rt.Assert(granted >= eff, "auth/granted>=required")
				rt.Assert(token.Read == ref.Read, "auth/token-read-is-what-credential-grants")
				rt.Assert(token.Write == ref.Write, "auth/token-write-is-what-credential-grants")
			}
		}
		rt.Reach("auth-granted")
	} else {
		rt.Assert(len(w.codes) == 1, "auth/refused-with-exactly-one-reply")
		if len(w.codes) == 1 {
			c := w.codes[0]
			rt.Assert(rt.Any(c == 401, c == 403, c == 404, c == 405, c == 500), "auth/refusal-status")
		}
		// a sufficient, valid credential must not be refused
		if inRange(required) && required != PermitAnyone && cs.authHeader != "Basic eDp5" {
			ref, status := cs.reference(required > PermitAnyone)
			if status == 0 {
				granted := ref.Write
				if readMethod {
					granted = ref.Read
				}
				rt.Assert(!rt.All(inRange(granted), granted >= required), "auth/sufficient-credential-not-refused")
			}
		}
		rt.Reach("auth-refused")
	}
	rt.Assert(!h.invoked, "auth/handler-not-invoked-by-authentication")
}

// a plain handler function wrapped with the public helper declares exactly the
// two permissions it was wrapped with, and is held to them
func VerifC12_WrappedHandler() {
	r, cs := setupCredentials()
	read, write := symPerm("h.read"), symPerm("h.write")
	invoked := false
	h := WrapInAuthHandler(func(http.ResponseWriter, *http.Request) { invoked = true }, read, write)
	ah, ok := h.(AuthenticatedHandler)
	rt.Assert(ok, "wrapped/is-an-authenticated-handler")
	if !ok {
		return
	}
	rt.Assert(ah.ReadPermission(r) == read, "wrapped/declares-the-read-permission-it-was-given")
	rt.Assert(ah.WritePermission(r) == write, "wrapped/declares-the-write-permission-it-was-given")
	readMethod := rt.Bool("readMethod")
	w := &verifRW{h: http.Header{}}
	token := authenticateRequest(w, r, h, readMethod)
	required := write
	if readMethod {
		required = read
	}
	if token != nil {
		rt.Assert(required != NotFound && required != NotSupported, "wrapped/notfound-and-notsupported-never-granted")
		if inRange(required) && required != PermitAnyone && cs.authHeader != "Basic eDp5" {
			ref, status := cs.reference(required > PermitAnyone)
			if status == 0 {
				granted := ref.Write
				if readMethod {
					granted = ref.Read
				}
				rt.Assert(granted >= required, "wrapped/granted>=required-for-the-method-class")
			}
		}
	}
	rt.Assert(!invoked, "wrapped/handler-not-invoked-by-authentication")
	rt.Reach("wrapped-end")
}

func VerifC12_EffectiveMethod() {
	var method string
	switch rt.Choice("m", 8) {
	case 0:
		method = "GET"
	case 1:
		method = "HEAD"
	case 2:
		method = "POST"
	case 3:
		method = "PUT"
	case 4:
		method = "DELETE"
	case 5:
		method = "OPTIONS"
	case 6:
		method = "PATCH"
	default:
		method = rt.StrN("method", 0, 7)
	}
	r := &http.Request{Header: http.Header{}, Method: method}
	pre := ""
	if rt.Bool("haspreflight") {
		pre = rt.StrN("preflight", 0, 6)
		r.Header["Access-Control-Request-Method"] = []string{pre}
	}
	em, read, ok := getEffectiveMethod(r)
	rt.ObserveStr("effective", em)
	rt.ObserveBool("read", read)
	rt.ObserveBool("ok", ok)
	eff := method
	if rt.EqStr(method, "OPTIONS") {
		eff = pre
	}
	isRead := rt.Any(rt.EqStr(eff, "GET"), rt.EqStr(eff, "HEAD"))
	isWrite := rt.Any(rt.EqStr(eff, "POST"), rt.EqStr(eff, "PUT"), rt.EqStr(eff, "DELETE"))
	rt.Assert(ok == rt.Any(isRead, isWrite), "method/ok-iff-known-method")
	if ok {
		rt.Assert(read == isRead, "method/read-class")
		if isRead {
			rt.Assert(em == "GET", "method/read-maps-to-get")
		} else {
			rt.Assert(rt.EqStr(em, eff), "method/write-keeps-method")
		}
	} else {
		rt.Assert(!read, "method/not-ok-not-read")
	}
	rt.Reach("method-end")
}

// ---- API key configuration: every configured key grants exactly what its own
// entry says, until its own expiry, whatever else is configured around it ----

type c12Key struct {
	entry   string // configuration entry
	path    string // the key itself
	ok      bool   // well-formed entry, not expired at import
	perm    Permission
	expires int // units after the import (0: never)
}

// Under the engine the clock is assumed to be within 10 minutes after
// 2030-06-01T00:00:00Z and one unit is an hour; natively expiries are built
// from the real clock and one unit is two seconds.
const c12Ref = 1906502400

func c12Unit() time.Duration {
	if rt.Symbolic() {
		return time.Hour
	}
	return 2 * time.Second
}

func c12Expiry(units int) string {
	if rt.Symbolic() {
		switch units {
		case -1:
			return "2030-05-31T23:00:00Z"
		case 1:
			return "2030-06-01T01:00:00Z"
		}
		return "2030-06-01T03:00:00Z"
	}
	return time.Now().Add(time.Duration(units) * c12Unit()).UTC().Format(time.RFC3339)
}

func c12KeyMenu(tag string, path string, perm string, p Permission) c12Key {
	base := path + "?read=" + perm + "&write=" + perm
	switch rt.Choice(tag+".expiry", 4) {
	case 0:
		return c12Key{base, path, true, p, 0}
	case 1: // already expired at import
		return c12Key{base + "&expires=" + c12Expiry(-1), path, false, p, -1}
	case 2:
		return c12Key{base + "&expires=" + c12Expiry(1), path, true, p, 1}
	}
	return c12Key{base + "&expires=" + c12Expiry(3), path, true, p, 3}
}

func VerifC12_APIKeyConfig() {
	setupGlobalsC12()
	if rt.Symbolic() {
		now := time.Now().Unix()
		rt.Assume(now >= c12Ref)
		rt.Assume(now < c12Ref+600)
	}
	keys := []c12Key{
		c12KeyMenu("k0", "keyAAAA", "admin", PermitAdmin),
		c12KeyMenu("k1", "keyBBBB", "user", PermitUser),
	}
	if rt.Bool("swap") {
		keys[0], keys[1] = keys[1], keys[0]
	}
	switch rt.Choice("third", 5) {
	case 1:
		keys = append(keys, c12Key{"keyCCCC?read=bogus", "keyCCCC", false, 0, 0})
	case 2:
		keys = append(keys, c12Key{"keyCCCC?read=user&expires=tomorrow", "keyCCCC", false, 0, 0})
	case 3:
		keys = append(keys, c12Key{"?read=admin&write=admin", "", false, 0, 0})
	case 4:
		keys = append([]c12Key{{"keyCCCC?write=user", "keyCCCC", true, PermitUser, 0}}, keys...)
	}
	var entries []string
	for _, k := range keys {
		entries = append(entries, k.entry)
	}
	configuredAPIKeys = func() []string { return entries }
	err := updateAPIKeys(nil, nil)
	rt.Assert(err == nil, "keyconfig/import-ok")
	// time passes: 0, 2 or 4 units
	wait := 2 * rt.Choice("wait", 3)
	time.Sleep(time.Duration(wait) * c12Unit())
	for _, k := range keys {
		if k.path == "" {
			continue
		}
		r := &http.Request{Header: http.Header{"Authorization": {"Bearer " + k.path}}, RemoteAddr: "192.168.0.1:1234"}
		token := checkAPIKey(r)
		if k.ok && (k.expires == 0 || wait < k.expires) {
			rt.Assert(token != nil, "keyconfig/configured-unexpired-key-accepted")
		} else {
			rt.Assert(token == nil, "keyconfig/expired-or-malformed-key-grants-nothing")
		}
		if token != nil && k.entry != "keyCCCC?write=user" {
			rt.Assert(token.Read == k.perm && token.Write == k.perm, "keyconfig/grants-what-its-entry-says")
		}
	}
	// unknown key
	r := &http.Request{Header: http.Header{"Authorization": {"Bearer keyZZZZ"}}, RemoteAddr: "192.168.0.1:1234"}
	rt.Assert(checkAPIKey(r) == nil, "keyconfig/unknown-key-grants-nothing")
	// the configuration changes: all keys revoked, or only one entry kept
	var kept []c12Key
	switch rt.Choice("reconfigure", 3) {
	case 1:
		kept = keys[:1]
	case 2:
		kept = keys[len(keys)-1:]
	}
	entries = nil
	for _, k := range kept {
		entries = append(entries, k.entry)
	}
	rt.Assert(updateAPIKeys(nil, nil) == nil, "keyconfig/reimport-ok")
	for _, k := range keys {
		if k.path == "" {
			continue
		}
		stillConfigured := false
		for _, kk := range kept {
			if kk.path == k.path && kk.entry == k.entry {
				stillConfigured = true
			}
		}
		r := &http.Request{Header: http.Header{"Authorization": {"Bearer " + k.path}}, RemoteAddr: "192.168.0.1:1234"}
		if !stillConfigured {
			rt.Assert(checkAPIKey(r) == nil, "keyconfig/revoked-key-grants-nothing")
		}
	}
	rt.Reach("keyconfig-end")
}

func setupGlobalsC12() {
	if ErrAPIAccessDeniedMessage == nil {
		ErrAPIAccessDeniedMessage = errors.New("")
	}
	if authFnSet == nil {
		authFnSet = abool.New()
	}
	if apiKeys == nil {
		apiKeys = make(map[string]*AuthToken)
	}
}

// ---- end to end: mainHandler.handle invokes the handler only for permitted,
// same-origin (or excepted) requests ----

// route table stand-in for gorilla/mux under the engine (natively the real
// router is used): what Match reports for the request
var c12Route struct {
	handler http.Handler
	err     error
}

// VerifModel_mux_Router_Match replaces (*mux.Router).Match under the engine.
func VerifModel_mux_Router_Match(_ *mux.Router, _ *http.Request, match *mux.RouteMatch) bool {
	match.Handler = c12Route.handler
	match.MatchErr = c12Route.err
	return c12Route.err == nil && c12Route.handler != nil
}

type c12Origin struct {
	origin, host string
	allowed      bool // outside dev mode
	devAllowed   bool // in dev mode
}

// (a function: the package initialiser is not executed under the engine)
func c12Origins() []c12Origin {
	return []c12Origin{
		{"", "app.local:817", true, true},
		{"http://app.local:817", "app.local:817", true, true},
		{"http://app.local", "app.local", true, true},
		{"http://app.local:817", "app.local", true, true}, // origin without its port matches the host
		{"http://app.local", "app.local:817", false, false},
		{"http://app.local:8170", "app.local:817", false, false}, // sibling port sharing a prefix
		{"http://app.local:817", "app.local:8170", false, false},
		{"http://evil.example", "app.local:817", false, false},
		{"http://app.local.evil.example", "app.local", false, false},
		{"http://evil.example/app.local", "app.local", false, false},
		{"chrome-extension://abcdefgh", "app.local:817", true, true},
		{"http://localhost:4200", "app.local:817", false, true},
		{"http://127.0.0.1:4200", "app.local:817", false, true},
		{"http://localhost.evil.example", "app.local:817", false, false},
		{"null", "app.local:817", false, false},
		{"://bad", "app.local:817", false, false},
		// a request without a Host header (HTTP/1.0): an origin without a host is no match
		{"null", "", false, false},
		{"evil", "", false, false},
		{"file:///etc/passwd", "", false, false},
	}
}

// every origin of the table against three credential scenarios
func VerifC12_HandleOrigin() { c12Handle(true) }

// every credential scenario, method and routing outcome for requests without
// Origin, with a same-origin Origin and with a development-mode origin
func VerifC12_HandleDispatch() { c12Handle(false) }

func c12Handle(allOrigins bool) {
	// origin / host
	origins := c12Origins()
	var o c12Origin
	if allOrigins {
		o = origins[rt.Choice("origin", len(origins))]
	} else {
		o = origins[[]int{0, 1, 12}[rt.Choice("origin", 3)]]
	}
	r, cs := setupCredentials()
	if allOrigins {
		// no credentials, authenticator, development mode with everything
		rt.Assume(cs.scenario == 0 || cs.scenario == 5 || cs.scenario == 7)
	}
	h := &verifHandler{read: symPerm("h.read"), write: symPerm("h.write")}
	if o.origin != "" {
		r.Header["Origin"] = []string{o.origin}
	}
	r.Host = o.host
	originOK := o.allowed
	if cs.dev {
		originOK = o.devAllowed
	}
	// method
	methods := []string{"GET", "HEAD", "POST", "PUT", "DELETE", "OPTIONS", "PATCH"}
	if allOrigins {
		r.Method = []string{"GET", "POST", "OPTIONS"}[rt.Choice("method", 3)]
	} else {
		r.Method = methods[rt.Choice("method", len(methods))]
	}
	preflight := ""
	if r.Method == "OPTIONS" && rt.Bool("preflight") {
		preflight = methods[rt.Choice("preflightmethod", len(methods))]
		r.Header["Access-Control-Request-Method"] = []string{preflight}
	}
	r.URL = &url.URL{Path: "/api/v1/thing"}
	r.RequestURI = "/api/v1/thing"
	// routing
	mh := &mainHandler{}
	route := 0 // 0 registered, 1 no route, 2 method mismatch
	if !allOrigins {
		route = rt.Choice("route", 3)
	}
	if rt.Symbolic() {
		mh.mux = &mux.Router{}
		switch route {
		case 0:
			c12Route.handler, c12Route.err = h, nil
		case 1:
			c12Route.handler, c12Route.err = nil, mux.ErrNotFound
		case 2:
			c12Route.handler, c12Route.err = nil, mux.ErrMethodMismatch
		}
	} else {
		mh.mux = mux.NewRouter()
		switch route {
		case 0:
			mh.mux.Handle("/api/v1/thing", h)
		case 2:
			mh.mux.Handle("/api/v1/thing", h).Methods("TRACE")
		}
	}
	authCalled := false
	if authFn != nil {
		inner := authFn
		authFn = func(r *http.Request, s *http.Server) (*AuthToken, error) {
			authCalled = true
			return inner(r, s)
		}
	}
	w := &verifRW{h: http.Header{}}

	err := mh.handle(w, r)
	rt.Assert(err == nil, "handle/no-internal-error")

	// effective method class
	eff := r.Method
	if r.Method == "OPTIONS" {
		eff = preflight
	}
	isRead := eff == "GET" || eff == "HEAD"
	isWrite := eff == "POST" || eff == "PUT" || eff == "DELETE"
	required := h.write
	if isRead {
		required = h.read
	}
	if !originOK {
		rt.Assert(!h.invoked, "handle/cross-origin-handler-not-invoked")
		rt.Assert(!authCalled, "handle/cross-origin-refused-before-authenticator")
		rt.Assert(len(w.codes) == 1 && w.codes[0] == 403, "handle/cross-origin-refused-with-403")
		rt.Reach("handle-cross-origin")
		return
	}
	if h.invoked {
		rt.Assert(route == 0, "handle/invoked-only-when-routed")
		rt.Assert(isRead || isWrite, "handle/invoked-only-for-known-method")
		rt.Assert(!(o.origin != "" && r.Method == "OPTIONS" && preflight != ""), "handle/preflight-never-reaches-handler")
		rt.Assert(required != NotFound && required != NotSupported, "handle/notfound-notsupported-never-invoked")
		effReq := required
		if required == Dynamic {
			effReq = PermitAnyone
		}
		rt.Assert(inRange(effReq), "handle/required-in-range")
		if effReq != PermitAnyone && cs.authHeader != "Basic eDp5" {
			ref, status := cs.reference(effReq > PermitAnyone)
			rt.Assert(status == 0, "handle/reference-predicts-grant")
			if status == 0 {
				granted := ref.Write
				if isRead {
					granted = ref.Read
				}
				rt.Assert(rt.All(inRange(granted), granted >= effReq), "handle/invoked-only-with-sufficient-permission")
			}
		}
		rt.Assert(len(w.codes) == 0, "handle/invoked-without-error-reply")
		rt.Reach("handle-invoked")
	} else {
		rt.Assert(len(w.codes) == 1, "handle/not-invoked-exactly-one-reply")
		// a permitted, routed, known-method, non-preflight request must reach the handler
		if route == 0 && (isRead || isWrite) && !(o.origin != "" && r.Method == "OPTIONS") && inRange(required) && cs.authHeader != "Basic eDp5" {
			ref, status := cs.reference(required > PermitAnyone)
			if status == 0 {
				granted := ref.Write
				if isRead {
					granted = ref.Read
				}
				rt.Assert(!rt.All(inRange(granted), granted >= required), "handle/permitted-request-reaches-handler")
			}
		}
		rt.Reach("handle-refused")
	}
}
