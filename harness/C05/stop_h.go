package modules

// C05 harnesses: stopping a module waits for all of its managed work.

import (
	"container/list"
	"context"
	"errors"
	"sync/atomic"
	"time"

	rt "github.com/safing/portbase/zz_verifrt"
)

func chanClosed(c chan struct{}) bool {
	select {
	case <-c:
		return true
	default:
		return false
	}
}

// ---- O1: decision lemma for checkIfStopComplete ----

func VerifC05_StopCompleteDecision() {
	m := initNewModule("m", nil, nil, nil)
	stopFlag := rt.Bool("stopFlag")
	ctrl := rt.Bool("ctrlFuncRunning")
	completed := rt.Bool("stopCompleted")
	w, t, mt := rt.I32("workers"), rt.I32("tasks"), rt.I32("microtasks")
	m.stopFlag.SetTo(stopFlag)
	m.ctrlFuncRunning.SetTo(ctrl)
	m.stopCompleted.SetTo(completed)
	atomic.StoreInt32(m.workerCnt, w)
	atomic.StoreInt32(m.taskCnt, t)
	atomic.StoreInt32(m.microTaskCnt, mt)
	m.stopComplete = make(chan struct{})
	m.checkIfStopComplete()
	want := rt.All(stopFlag, !ctrl, w == 0, t == 0, mt == 0, !completed)
	rt.Assert(chanClosed(m.stopComplete) == want, "decision/closed-iff-all-work-done")
	rt.Assert(m.stopCompleted.IsSet() == rt.Any(completed, want), "decision/completed-flag")
	// a second evaluation never closes twice (would panic)
	m.checkIfStopComplete()
	rt.Reach("decision-end")
}

// ---- O2: accounting of worker-like run paths ----

func VerifC05_WorkerAccounting() {
	SetStdErrReporting(false)
	m := initNewModule("m", nil, nil, nil)
	pre := rt.I32("pre")
	rt.Assume(pre >= 0)
	rt.Assume(pre < 1000)
	atomic.StoreInt32(m.workerCnt, pre)
	m.stopFlag.Set()
	m.stopCompleted.SetTo(false)
	m.stopComplete = make(chan struct{})
	outcome := rt.Choice("outcome", 3)
	err := m.RunWorker("w", func(ctx context.Context) error {
		rt.Assert(atomic.LoadInt32(m.workerCnt) == pre+1, "worker/counted-while-running")
		rt.Assert(!chanClosed(m.stopComplete), "worker/stop-not-complete-while-running")
		switch outcome {
		case 1:
			return context.Canceled
		case 2:
			panic("worker panicked")
		}
		return nil
	})
	_ = err
	rt.Assert(atomic.LoadInt32(m.workerCnt) == pre, "worker/counter-restored")
	// the completion check ran after the decrement
	rt.Assert(chanClosed(m.stopComplete) == (pre == 0), "worker/stop-complete-checked-after-decrement")
	rt.Reach("worker-end")
}

// ---- O3/O4: the stop sequence with running items (G1, all choices) ----

func VerifC05_StopProtocol() {
	rt.NoTimers()
	rt.SchedYieldOnly(false)
	SetStdErrReporting(false)
	c05Reset()
	// natively (replay) a lost completion must show up as a hang, not as a
	// silent one-minute timeout
	moduleStopTimeout = time.Hour
	var order []string
	var m *Module
	stopFn := func() error {
		order = append(order, "stopfn-begin")
		rt.Assert(m.stopFlag.IsSet(), "protocol/stopflag-set-before-stopfn")
		rt.Assert(m.Ctx.Err() != nil, "protocol/context-cancelled-before-stopfn")
		rt.Yield()
		order = append(order, "stopfn-end")
		if rt.Bool("stopfails") {
			panic("stop routine panicked")
		}
		return nil
	}
	m = initNewModule("m", nil, nil, stopFn)
	dep := initNewModule("dep", nil, nil, nil) // m depends on dep
	m.depModules = []*Module{dep}
	dep.depReverse = []*Module{m}
	m.status, dep.status = StatusOnline, StatusOnline
	close(m.startComplete)

	// running work items of symbolic kind
	items := rt.Len("items", 0, 2)
	stopCalled := false
	var beganBeforeStop, returned [2]bool
	for i := 0; i < items; i++ {
		i := i
		body := func(ctx context.Context) error {
			beganBeforeStop[i] = !stopCalled
			<-ctx.Done() // runs until the module context is cancelled
			rt.Yield()
			returned[i] = true
			return nil
		}
		switch rt.Choice("kind"+string(rune('0'+i)), 3) {
		case 0:
			m.StartWorker("w", body)
		case 1:
			m.StartServiceWorker("sw", 0, body)
		case 2:
			m.StartHighPriorityMicroTask("mt", body)
		}
	}
	// let the items start (or not: every choice is explored)
	for i := 0; i < items; i++ {
		rt.Yield()
	}

	reports := make(chan *report)
	stopCalled = true
	m.stop(reports)
	rep := <-reports
	// the report arrives only after the stop routine and every item that was
	// running when the stop began has returned
	rt.Assert(len(order) == 2, "protocol/stopfn-ran-once-and-returned")
	for i := 0; i < items; i++ {
		if beganBeforeStop[i] {
			rt.Assert(returned[i], "protocol/running-item-returned-before-report")
		}
	}
	rt.Assert(m.Status() == StatusOffline, "protocol/offline-at-report")
	rt.Assert(rep.module == m, "protocol/report-names-module")
	rt.Assert(dep.readyToStop() == statusReady, "protocol/dependency-may-stop-afterwards")

	// work on a stopped module
	t := m.NewTask("late", func(context.Context, *Task) error { return nil })
	rt.Assert(t.canceled, "stopped/new-task-is-cancelled")
	sawCancelled := false
	_ = m.RunWorker("late", func(ctx context.Context) error {
		sawCancelled = ctx.Err() != nil
		return nil
	})
	rt.Assert(sawCancelled, "stopped/worker-gets-cancelled-context")
	rt.Reach("protocol-end")
}

// ---- the stop sequence under one preemption at any synchronisation operation
// (G2): an item that reacts to the cancelled context at once must not complete
// the stop before the stop routine has run ----

func VerifC05_StopRace() {
	rt.NoTimers()
	rt.SchedYieldOnly(true)
	if rt.Thorough() {
		rt.Preemptions(2)
	} else {
		rt.Preemptions(1)
	}
	SetStdErrReporting(false)
	c05Reset()
	moduleStopTimeout = time.Hour
	var order []string
	var m *Module
	stopFn := func() error {
		order = append(order, "stopfn-begin")
		rt.NativePause()
		order = append(order, "stopfn-end")
		return nil
	}
	m = initNewModule("m", nil, nil, stopFn)
	m.status = StatusOnline
	close(m.startComplete)
	// natively the race window (between cancelling the context and starting
	// the stop routine) is widened instead of being scheduled
	cancel := m.cancelCtx
	m.cancelCtx = func() {
		cancel()
		rt.NativePause()
	}
	began, returned := false, false
	kind := rt.Choice("kind", 3)
	body := func(ctx context.Context) error {
		began = true
		<-ctx.Done()
		returned = true
		return nil
	}
	switch kind {
	case 0:
		m.StartWorker("w", body)
	case 1:
		m.StartServiceWorker("sw", 0, body)
	case 2:
		m.StartHighPriorityMicroTask("mt", body)
	}
	rt.Yield()
	if !began {
		// the item has not started yet: it is not a running item (covered by
		// the stop protocol harness)
		return
	}
	reports := make(chan *report)
	m.stop(reports)
	rep := <-reports
	rt.Assert(len(order) == 2, "stoprace/stop-routine-returned-before-report")
	rt.Assert(returned, "stoprace/running-item-returned-before-report")
	rt.Assert(m.Status() == StatusOffline, "stoprace/offline-at-report")
	rt.Assert(rep.err == nil, "stoprace/no-error")
	rt.Reach("stoprace-end")
}

// ---- work that got the module's context before the start that brought the
// module online (launched from the prep routine, or by a first start attempt
// that failed): its context is cancelled no later than when the stop routine
// is invoked, and the stop does not hang on it ----

func VerifC05_WorkLaunchedBeforeStart() {
	rt.NoTimers()
	rt.SchedYieldOnly(true)
	SetStdErrReporting(false)
	c05Reset()
	moduleStopTimeout = time.Hour
	var m *Module
	var workCtx context.Context
	launched, returned := false, false
	kind := rt.Choice("kind", 3)
	launch := func() {
		launched = true
		body := func(ctx context.Context) error {
			workCtx = ctx
			<-ctx.Done()
			returned = true
			return nil
		}
		switch kind {
		case 0:
			m.StartWorker("w", body)
		case 1:
			m.StartServiceWorker("sw", 0, body)
		case 2:
			m.StartHighPriorityMicroTask("mt", body)
		}
	}
	fromPrep := rt.Bool("from-prep")
	startCalls := 0
	prepFn := func() error {
		if fromPrep {
			launch()
		}
		return nil
	}
	startFn := func() error {
		startCalls++
		if !fromPrep && startCalls == 1 {
			launch()
			return errors.New("first start attempt fails")
		}
		return nil
	}
	stopFn := func() error {
		rt.Assert(workCtx == nil || workCtx.Err() != nil, "prestart/context-cancelled-when-the-stop-routine-runs")
		return nil
	}
	m = initNewModule("m", prepFn, startFn, stopFn)
	m.status = StatusDead
	reports := make(chan *report, 4)
	m.prep(reports)
	rt.Assert((<-reports).err == nil, "prestart/prep-ok")
	rt.Yield() // work launched from the prep routine may begin now
	m.start(reports)
	rep := <-reports
	if !fromPrep {
		rt.Assert(rep.err != nil, "prestart/first-start-fails")
		rt.Yield()       // work launched by the failed attempt may begin now
		m.start(reports) // the retry (as a later management pass would do)
		rep = <-reports
	}
	rt.Assert(rep.err == nil, "prestart/start-ok")
	rt.Assert(launched, "prestart/work-launched")
	rt.Yield()
	m.stop(reports)
	rep = <-reports // a stop that waits for work whose context was never cancelled hangs here
	rt.Assert(rep.err == nil, "prestart/stop-ok")
	rt.Assert(workCtx == nil || returned, "prestart/work-returned-before-the-stop-report")
	rt.Assert(m.Status() == StatusOffline, "prestart/offline")
	rt.Reach("prestart-end")
}

// ---- a service worker that answers the cancellation with an error, a wrapped
// context.Canceled or a restart request is not invoked again once the module
// stops, and the stop completes ----

type c05Wrap struct{ err error }

func (w c05Wrap) Error() string { return "wrapped" }
func (w c05Wrap) Unwrap() error { return w.err }

func VerifC05_ServiceWorkerOnStop() {
	rt.SchedYieldOnly(true)
	SetStdErrReporting(false)
	c05Reset()
	moduleStopTimeout = time.Hour
	m := initNewModule("m", nil, nil, func() error { return nil })
	m.status = StatusOnline
	close(m.startComplete)
	answer := rt.Choice("answer", 5)
	// or: the worker failed shortly before the stop and waits for its restart
	failedBefore := rt.Bool("failed-before-the-stop")
	invocations, afterCancel := 0, 0
	m.StartServiceWorker("sw", 3*time.Second, func(ctx context.Context) error {
		invocations++
		if failedBefore && invocations == 1 {
			return errors.New("first run failed")
		}
		if ctx.Err() != nil {
			afterCancel++
			// invoked although the module context is already cancelled: at most
			// once more is tolerated, never a loop
			rt.Assert(afterCancel <= 1, "swstop/not-reinvoked-in-a-loop-after-cancellation")
			if afterCancel > 1 {
				rt.AllowDeadlock()
				select {}
			}
		}
		<-ctx.Done()
		switch answer {
		case 1:
			return context.Canceled
		case 2:
			return c05Wrap{context.Canceled}
		case 3:
			return c05Wrap{ErrRestartNow}
		case 4:
			return errors.New("connection closed")
		}
		return nil
	})
	rt.Yield()
	if failedBefore {
		time.Sleep(50 * time.Millisecond) // the worker is in its back-off wait
	}
	reports := make(chan *report, 1)
	t0 := time.Now()
	m.stop(reports)
	rep := <-reports
	// all work returns at once when the context is cancelled: the stop does not
	// wait out a restart back-off
	rt.Assert(time.Since(t0) < time.Second, "swstop/stop-completes-promptly")
	rt.Assert(rep.err == nil, "swstop/stop-ok")
	rt.Assert(atomic.LoadInt32(m.workerCnt) == 0, "swstop/no-worker-left-at-report")
	rt.Assert(m.Status() == StatusOffline, "swstop/offline")
	n := invocations
	time.Sleep(time.Minute) // nothing runs after the report either
	rt.Assert(invocations == n, "swstop/not-invoked-after-the-stop-report")
	rt.Reach("swstop-end")
}

// ---- a stop that begins right after the start returned (G2, two
// preemptions): the late bookkeeping of the start routine's goroutine must
// not complete the stop ----

func VerifC05_StopRightAfterStart() {
	rt.NoTimers()
	rt.SchedYieldOnly(true)
	rt.Preemptions(2)
	SetStdErrReporting(false)
	c05Reset()
	moduleStopTimeout = time.Hour
	stopReturned := false
	stopFails := rt.Bool("stopfails")
	m := initNewModule("m", nil,
		func() error { return nil },
		func() error {
			rt.Yield()
			stopReturned = true
			if stopFails {
				return errors.New("stop failed")
			}
			return nil
		})
	m.status = StatusOffline
	reports := make(chan *report, 2)
	m.start(reports)
	rt.Assert((<-reports).err == nil, "stopafterstart/start-ok")
	m.stop(reports)
	rep := <-reports
	rt.Assert(stopReturned, "stopafterstart/stop-routine-returned-before-report")
	rt.Assert((rep.err != nil) == stopFails, "stopafterstart/stop-result-reported")
	rt.Assert(m.Status() == StatusOffline, "stopafterstart/offline")
	rt.Reach("stopafterstart-end")
}

// the dependency keeps waiting while the dependent is stopping
func VerifC05_DependencyWaits() {
	m := initNewModule("m", nil, nil, nil)
	dep := initNewModule("dep", nil, nil, nil)
	dep.depReverse = []*Module{m}
	dep.status = StatusOnline
	m.status = rt.U8("status")
	rt.Assume(m.status <= StatusOnline)
	shutdownFlag.Set()
	got := dep.readyToStop()
	if m.status > StatusOffline {
		rt.Assert(got == statusWaiting, "depwait/waits-while-dependent-not-offline")
	} else {
		rt.Assert(got == statusReady, "depwait/ready-once-dependent-offline")
	}
	rt.Reach("depwait-end")
}

// ---- work of every kind that has finished before the stop (or, for a signalled
// microtask, is ended right after the cancellation) does not hold up the stop:
// it completes at once, not by waiting out the stop timeout ----

func VerifC05_FinishedWorkDoesNotHoldUpStop() {
	rt.NoTimers()
	rt.SchedYieldOnly(true)
	SetStdErrReporting(false)
	c05Reset()
	// a lost count must show up as a hang, not as a silent one-minute timeout
	moduleStopTimeout = time.Hour
	atomic.StoreInt32(microTasks, 0)
	if rt.Symbolic() {
		microTaskSchedulerStarted.UnSet()
	}
	for len(mediumPriorityClearance) > 0 {
		<-mediumPriorityClearance
	}
	for len(lowPriorityClearance) > 0 {
		<-lowPriorityClearance
	}
	for len(microTaskFinished) > 0 {
		<-microTaskFinished
	}
	SetMaxConcurrentMicroTasks(2)
	go microTaskScheduler()
	m := initNewModule("m", nil, nil, nil)
	m.status = StatusOnline
	close(m.startComplete)
	ran := 0
	finished := make(chan struct{})
	body := func(ctx context.Context) error {
		ran++
		close(finished)
		return nil
	}
	var pendingDone func()
	afterCancel := false
	kind := rt.Choice("kind", 9)
	switch kind {
	case 0:
		_ = m.RunWorker("w", body)
	case 1:
		m.StartWorker("w", body)
		<-finished
	case 2:
		_ = m.RunHighPriorityMicroTask("mt", body)
	case 3:
		m.StartHighPriorityMicroTask("mt", body)
		<-finished
	case 4:
		_ = m.RunMicroTask("mt", 0, body)
	case 5:
		_ = m.RunLowPriorityMicroTask("mt", 0, body)
	case 6:
		pendingDone = m.SignalHighPriorityMicroTask()
	case 7:
		pendingDone = m.SignalMicroTask(time.Second)
	case 8:
		pendingDone = m.SignalLowPriorityMicroTask(time.Second)
	}
	// the done function of a signalled microtask may be called more than once
	// (documented: eg. a deferred call next to an early one)
	doneTwice := false
	if pendingDone != nil {
		afterCancel = rt.Bool("signalled-microtask-ends-after-the-cancellation")
		doneTwice = rt.Bool("done-called-twice")
		if !afterCancel {
			pendingDone()
			if doneTwice {
				pendingDone()
			}
		}
	} else {
		rt.Assert(ran == 1, "finishedwork/ran")
	}
	reports := make(chan *report, 1)
	m.stop(reports)
	if afterCancel {
		<-m.Ctx.Done()
		rt.Assert(len(reports) == 0, "finishedwork/stop-waits-for-the-signalled-microtask")
		pendingDone()
		if doneTwice {
			pendingDone()
		}
	}
	rep := <-reports
	rt.Assert(rep.err == nil, "finishedwork/stop-ok")
	rt.Assert(m.Status() == StatusOffline, "finishedwork/offline")
	rt.Assert(atomic.LoadInt32(m.microTaskCnt) == 0 && atomic.LoadInt32(m.workerCnt) == 0, "finishedwork/nothing-counted-as-running")
	rt.Assert(atomic.LoadInt32(microTasks) == 0, "finishedwork/global-count-zero")
	rt.Reach("finishedwork-end")
}

// ---- work that panics in answer to the cancellation while nobody reads the
// module error channel (its consumer may have been stopped already): the stop
// still completes, and a stop routine's error does not wedge the stop sequence ----

func VerifC05_PanickingWorkWithUnreadErrorChannel() {
	rt.NoTimers()
	rt.SchedYieldOnly(true)
	SetStdErrReporting(false)
	c05Reset()
	moduleStopTimeout = time.Hour // (a report that blocks must hang, not time out)
	SetErrorReportingChannel(make(chan *ModuleError)) // unbuffered, never read
	defer SetErrorReportingChannel(nil)
	stopFails := rt.Bool("stop-routine-returns-an-error")
	m := initNewModule("m", nil, nil, func() error {
		if stopFails {
			return errors.New("stop failed")
		}
		return nil
	})
	modules = map[string]*Module{"m": m}
	m.status = StatusOnline
	close(m.startComplete)
	began := false
	body := func(ctx context.Context) error {
		began = true
		<-ctx.Done()
		panic("worker panics when cancelled")
	}
	switch rt.Choice("kind", 3) {
	case 0:
		m.StartWorker("w", body)
	case 1:
		m.StartHighPriorityMicroTask("mt", body)
	case 2:
		// no work item: only the stop routine
		began = true
	}
	rt.Yield()
	if !began {
		return
	}
	err := stopModules()
	rt.Assert((err != nil) == stopFails, "unreadchannel/stop-error-returned")
	rt.Assert(m.Status() == StatusOffline, "unreadchannel/offline")
	rt.Assert(atomic.LoadInt32(m.workerCnt) == 0 && atomic.LoadInt32(m.microTaskCnt) == 0, "unreadchannel/nothing-counted-as-running")
	rt.Reach("unreadchannel-end")
}

func c05Reset() {
	modules = make(map[string]*Module)
	modulesLocked.UnSet()
	moduleMgmtEnabled.UnSet()
	shutdownFlag.UnSet()
	modulesChangeNotifyFn = nil
}

// a running event hook belongs to the module that registered it: stopping that
// module cancels the hook's context before the stop routine runs and waits for
// the hook, while the module that emitted the event stays online
func VerifC05_EventHook() {
	rt.NoTimers()
	rt.SchedYieldOnly(false)
	SetStdErrReporting(false)
	c05Reset()
	moduleStopTimeout = time.Hour
	var hooker *Module
	hookRunning, hookReturned, hookBegan := false, false, false
	stopFn := func() error {
		if hookBegan {
			rt.Assert(hooker.Ctx.Err() != nil, "eventhook/module-context-cancelled-before-stopfn")
		}
		return nil
	}
	source := Register("src", nil, nil, nil)
	hooker = Register("hook", nil, nil, stopFn, "src")
	rt.Assert(initDependencies() == nil, "eventhook/setup")
	for _, m := range []*Module{source, hooker} {
		m.status = StatusOnline
		close(m.startComplete)
	}
	source.RegisterEvent("ev", true)
	err := hooker.RegisterEventHook("src", "ev", "d", func(ctx context.Context, _ interface{}) error {
		hookBegan = true
		hookRunning = true
		<-ctx.Done() // a well-behaved hook returns once its context is cancelled
		rt.Yield()
		hookRunning = false
		hookReturned = true
		return nil
	})
	rt.Assert(err == nil, "eventhook/register")
	source.TriggerEvent("ev", nil)
	for i := 0; i < 3; i++ {
		rt.Yield()
	}
	began := hookBegan
	reports := make(chan *report)
	hooker.stop(reports)
	<-reports
	rt.Assert(hooker.Status() == StatusOffline, "eventhook/offline-at-report")
	if began {
		rt.Assert(hookReturned, "eventhook/running-hook-returned-before-report")
		rt.Assert(!hookRunning, "eventhook/no-hook-running-at-report")
	}
	rt.Assert(source.Status() == StatusOnline, "eventhook/source-module-untouched")
	rt.Reach("eventhook-end")
}

// ---- a task that the queue handler is just about to start while the module
// is stopped (G2, preemptions at synchronisation operations): it either counts
// as running work the stop waits for, or it is not executed - it never runs
// after the stop was reported ----

func VerifC05_TaskStartedDuringStop() {
	rt.NoTimers()
	rt.SchedYieldOnly(true)
	rt.Preemptions(1)
	rt.PreemptedRunLast(true) // the preempted goroutine resumes when the others have blocked
	SetStdErrReporting(false)
	c05Reset()
	// task queue state as in the C07 harnesses
	sleepMode.UnSet()
	taskQueue = list.New()
	prioritizedTaskQueue = list.New()
	taskSchedule = list.New()
	if rt.Symbolic() {
		taskQueueHandlerStarted.UnSet()
		taskScheduleHandlerStarted.UnSet()
	}
	for len(queueIsFilled) > 0 {
		<-queueIsFilled
	}
	moduleStopTimeout = time.Hour
	m := initNewModule("m", nil, nil, func() error { return nil })
	m.status = StatusOnline
	close(m.startComplete)
	stopReported := false
	ranAfterReport := false
	running := false
	t := m.NewTask("t", func(ctx context.Context, _ *Task) error {
		running = true
		if stopReported {
			ranAfterReport = true
		}
		rt.Yield()
		running = false
		return nil
	}).MaxDelay(0)
	t.Queue()
	go func() {
		for {
			taskTimeslot <- struct{}{}
		}
	}()
	go taskQueueHandler()
	rt.Yield() // (the time slot server reaches its send)
	rt.Yield() // the handler may be anywhere in starting the task
	reports := make(chan *report, 1)
	m.stop(reports)
	rep := <-reports
	stopReported = true
	rt.Assert(rep.err == nil, "taskduringstop/stop-ok")
	rt.Assert(!running, "taskduringstop/no-task-running-at-the-stop-report")
	rt.Yield()
	rt.Yield()
	rt.Yield()
	rt.Assert(!ranAfterReport, "taskduringstop/task-never-starts-after-the-stop-report")
	rt.Reach("taskduringstop-end")
}

// ---- a task that is executing when its module is stopped is running work:
// the stop report arrives only after its function has returned ----

func VerifC05_StopWaitsForRunningTask() {
	rt.NoTimers()
	rt.SchedYieldOnly(true)
	SetStdErrReporting(false)
	c05Reset()
	sleepMode.UnSet()
	taskQueue = list.New()
	prioritizedTaskQueue = list.New()
	taskSchedule = list.New()
	if rt.Symbolic() {
		taskQueueHandlerStarted.UnSet()
		taskScheduleHandlerStarted.UnSet()
	}
	for len(queueIsFilled) > 0 {
		<-queueIsFilled
	}
	moduleStopTimeout = time.Hour
	stopFnSawCancelled := false
	var m *Module
	m = initNewModule("m", nil, nil, func() error {
		stopFnSawCancelled = m.Ctx.Err() != nil
		return nil
	})
	m.status = StatusOnline
	close(m.startComplete)
	entered := make(chan struct{}, 1)
	returned := false
	t := m.NewTask("t", func(ctx context.Context, _ *Task) error {
		entered <- struct{}{}
		<-ctx.Done()
		rt.NativePause() // it takes the function a moment to return after the cancellation
		for i := 0; i < 5; i++ {
			rt.Yield() // (the rest of the system may do anything meanwhile)
		}
		returned = true
		return nil
	}).MaxDelay(0)
	switch rt.Choice("submission", 3) {
	case 0:
		t.Queue()
	case 1:
		t.QueuePrioritized()
	case 2:
		t.StartASAP()
	}
	go func() {
		for {
			taskTimeslot <- struct{}{}
		}
	}()
	go taskQueueHandler()
	<-entered
	reports := make(chan *report, 1)
	m.stop(reports)
	rep := <-reports
	rt.Assert(rep.err == nil, "stoptask/stop-ok")
	rt.Assert(returned, "stoptask/running-task-returned-before-the-stop-report")
	rt.Assert(stopFnSawCancelled, "stoptask/context-cancelled-before-the-stop-routine")
	rt.Assert(m.Status() == StatusOffline, "stoptask/offline-at-report")
	rt.Assert(atomic.LoadInt32(m.taskCnt) == 0, "stoptask/task-counter-zero")
	rt.Reach("stoptask-end")
}

// ---- a task that was taken up while its module was starting and is given up
// because the start failed was never running work: it must not disturb the
// count, or the stop after a later (successful) start no longer waits for a
// task that is running ----

func VerifC05_StopAfterAbortedTask() {
	rt.SchedYieldOnly(true)
	SetStdErrReporting(false)
	c05Reset()
	sleepMode.UnSet()
	taskQueue = list.New()
	prioritizedTaskQueue = list.New()
	taskSchedule = list.New()
	if rt.Symbolic() {
		taskQueueHandlerStarted.UnSet()
		taskScheduleHandlerStarted.UnSet()
	}
	for len(queueIsFilled) > 0 {
		<-queueIsFilled
	}
	moduleStopTimeout = time.Hour
	fail := true
	release := make(chan struct{})
	t0Ran := false
	var m *Module
	submission := rt.Choice("submission", 3)
	m = initNewModule("m", nil, func() error {
		if fail {
			// (the start routine itself creates and submits the task, as start
			// routines commonly do; the queue comes to it while the start is running)
			t0 := m.NewTask("t0", func(context.Context, *Task) error { t0Ran = true; return nil }).MaxDelay(0)
			switch submission {
			case 0:
				t0.Queue()
			case 1:
				t0.QueuePrioritized()
			case 2:
				t0.StartASAP()
			}
			<-release
			return errors.New("start failed")
		}
		return nil
	}, func() error { return nil })
	m.status = StatusOffline // prepared
	go func() {
		for {
			taskTimeslot <- struct{}{}
		}
	}()
	go taskQueueHandler()
	reports := make(chan *report, 2)
	m.start(reports)
	rt.Quiesce(time.Second) // the handler has taken the task and waits for the start
	close(release)
	rep := <-reports
	rt.Assert(rep.err != nil, "abortedtask/start-reports-the-failure")
	rt.Quiesce(time.Second) // the handler gives the task up
	rt.Assert(!t0Ran, "abortedtask/task-of-the-failed-start-not-executed")
	rt.Assert(atomic.LoadInt32(m.taskCnt) == 0, "abortedtask/given-up-task-is-not-counted")
	// a later start attempt works
	fail = false
	m.start(reports)
	rep = <-reports
	rt.Assert(rep.err == nil && m.Status() == StatusOnline, "abortedtask/second-start-ok")
	entered := make(chan struct{}, 1)
	returned := false
	t := m.NewTask("t", func(ctx context.Context, _ *Task) error {
		entered <- struct{}{}
		<-ctx.Done()
		rt.NativePause()
		for i := 0; i < 3; i++ {
			rt.Yield()
		}
		returned = true
		return nil
	}).MaxDelay(0)
	t.Queue()
	<-entered
	m.stop(reports)
	rep = <-reports
	rt.Assert(rep.err == nil, "abortedtask/stop-ok")
	rt.Assert(returned, "abortedtask/running-task-returned-before-the-stop-report")
	rt.Assert(atomic.LoadInt32(m.taskCnt) == 0, "abortedtask/task-counter-zero-after-stop")
	rt.Reach("abortedtask-end")
}
