package query

// C11 harnesses: query text <-> query object.

import (
	rt "github.com/safing/portbase/zz_verifrt"
)

// ---- O1: tokenizer is total and structural on every string ----

func VerifC11_Tokenizer() {
	n := 4
	if rt.Thorough() {
		n = 5
	}
	s := rt.StrN("s", 0, n)
	rt.SetUnwind(len(s) + 3) // terminates within len+2 iterations of every loop
	snippets, err := extractSnippets(s)
	rt.ObserveBool("tok-ok", err == nil)
	rt.Observe("tok-count", uint64(len(snippets)))
	if err != nil {
		rt.Assert(snippets == nil, "tok/error-no-snippets")
		rt.Reach("tok-error")
		return
	}
	for _, sn := range snippets {
		rt.ObserveStr("tok-text", sn.text)
		rt.Observe("tok-pos", uint64(sn.globalPosition))
	}
	for _, sn := range snippets {
		rt.Assert(sn.globalPosition >= 1, "tok/position>=1")
		rt.Assert(sn.globalPosition <= len(s)+1, "tok/position-within-input")
		rt.Assert(len(sn.text) <= len(s), "tok/snippet-not-longer-than-input")
	}
	rt.Reach("tok-ok")
}

// an unquoted token at the end of the input is returned whole, also when it
// ends in a multi-byte rune
func VerifC11_TrailingToken() {
	n := 4
	if rt.Thorough() {
		n = 6
	}
	tok := rt.StrN("tok", 1, n)
	for i := 0; i < len(tok); i++ {
		c := tok[i]
		// plain token characters: no separators, quotes, escapes
		rt.Assume(rt.All(c != ' ', c != '\t', c != '\n', c != '\r', c != '(', c != ')', c != '"', c != '\\'))
	}
	rt.Assume(validUTF8(tok))
	snippets, err := extractSnippets("a " + tok)
	rt.Assert(err == nil, "trailing/no-error")
	if err != nil {
		return
	}
	rt.Assert(len(snippets) == 2, "trailing/two-tokens")
	if len(snippets) == 2 {
		rt.Assert(rt.EqStr(snippets[1].text, tok), "trailing/token-whole")
	}
	rt.Reach("trailing-end")
}

func validUTF8(s string) bool {
	for _, r := range s {
		if r == 0xFFFD {
			return false
		}
	}
	return true
}

// ---- O2: token preservation through print -> parse ----

func VerifC11_TokenPreserved() {
	n := 3
	if rt.Thorough() {
		n = 4
	}
	v := rt.StrN("v", 0, n)
	rt.Assume(validUTF8(v))
	hasBackslash := false
	for i := 0; i < len(v); i++ {
		hasBackslash = rt.Any(hasBackslash, v[i] == '\\')
	}
	_ = hasBackslash
	q := New("t:p").Where(Where("k", SameAs, v))
	_, err := q.Check()
	rt.Assert(err == nil, "preserve/check-ok")
	text := q.Print()
	rt.ObserveStr("printed", text)
	back, err := ParseQuery(text)
	rt.Assert(err == nil, "preserve/parse-ok")
	if err != nil {
		return
	}
	sc, ok := back.where.(*stringCondition)
	rt.Assert(ok, "preserve/is-string-condition")
	if ok {
		rt.Assert(rt.EqStr(sc.value, v), "preserve/value-exact")
		rt.Assert(sc.key == "k", "preserve/key")
		rt.Assert(sc.operator == SameAs, "preserve/operator")
	}
	rt.Assert(rt.EqStr(back.Print(), text), "preserve/print-stable")
	rt.Reach("preserve-end")
}

// the key token is preserved as well (also under "not")
func VerifC11_KeyPreserved() {
	n := 3
	if rt.Thorough() {
		n = 4
	}
	k := rt.StrN("k", 1, n)
	rt.Assume(validUTF8(k))
	hasBackslash, hasSpace := false, false
	for i := 0; i < len(k); i++ {
		hasBackslash = rt.Any(hasBackslash, k[i] == '\\')
		hasSpace = rt.Any(hasSpace, k[i] == ' ')
	}
	negate := rt.Bool("negate")
	_ = hasSpace
	_ = hasBackslash
	// (includes keys that are exactly a structural token of the language)
	var cond Condition = Where(k, Exists, nil)
	if negate {
		cond = Not(cond)
	}
	q := New("t:p").Where(cond)
	text := q.Print()
	back, err := ParseQuery(text)
	rt.Assert(err == nil, "keypreserve/parse-ok")
	if err != nil {
		return
	}
	inner := back.where
	if negate {
		nc, ok := inner.(*notCond)
		rt.Assert(ok, "keypreserve/is-not")
		if !ok {
			return
		}
		inner = nc.notC
	}
	ec, ok := inner.(*existsCondition)
	rt.Assert(ok, "keypreserve/is-exists-condition")
	if ok {
		rt.Assert(rt.EqStr(ec.key, k), "keypreserve/key-exact")
	}
	rt.Reach("keypreserve-end")
}

// ---- O3: print -> parse -> print on fixed tree shapes ----

type verifAcc struct {
	i   int64
	s   string
	b   bool
	has bool
}

func (a *verifAcc) Get(key string) (interface{}, bool)       { return a.s, a.has }
func (a *verifAcc) GetString(key string) (string, bool)       { return a.s, a.has }
func (a *verifAcc) GetStringArray(key string) ([]string, bool) { return []string{a.s}, a.has }
func (a *verifAcc) GetInt(key string) (int64, bool)           { return a.i, a.has }
func (a *verifAcc) GetFloat(key string) (float64, bool)       { return 0, false }
func (a *verifAcc) GetBool(key string) (bool, bool)           { return a.b, a.has }
func (a *verifAcc) Exists(key string) bool                    { return a.has }
func (a *verifAcc) Set(key string, value interface{}) error   { return nil }
func (a *verifAcc) Type() string                              { return "verif" }

var boundaryInts = []int64{0, 1, -1, 42, 9223372036854775807, -9223372036854775808}

func leaf(tag string) Condition {
	switch rt.Choice(tag+".kind", 6) {
	case 0:
		op := []uint8{Equals, GreaterThan, GreaterThanOrEqual, LessThan, LessThanOrEqual}[rt.Choice(tag+".iop", 5)]
		return Where("n", op, boundaryInts[rt.Choice(tag+".ival", len(boundaryInts))])
	case 1:
		op := []uint8{SameAs, Contains, StartsWith, EndsWith}[rt.Choice(tag+".sop", 4)]
		v := rt.StrN(tag+".sval", 0, 2)
		rt.Assume(validUTF8(v))
		for i := 0; i < len(v); i++ {
			rt.Assume(v[i] != '\\')
		}
		return Where("s", op, v)
	case 2:
		if rt.Choice(tag+".bval", 2) == 1 {
			return Where("b", Is, true)
		}
		return Where("b", Is, false)
	case 3:
		return Where("e", Exists, nil)
	case 4:
		return Where("l", In, "x,y")
	}
	return Not(Where("s", SameAs, "z"))
}

func roundTrip(q *Query, tag string) {
	if _, err := q.Check(); err != nil {
		rt.Assert(false, tag+"/built-query-checks")
		return
	}
	text := q.Print()
	back, err := ParseQuery(text)
	rt.Assert(err == nil, tag+"/parse-ok")
	if err != nil {
		return
	}
	rt.Assert(rt.EqStr(back.Print(), text), tag+"/print-stable")
	acc := &verifAcc{i: rt.I64("acc.i"), s: rt.StrN("acc.s", 0, 2), b: rt.Bool("acc.b"), has: rt.Bool("acc.has")}
	rt.Assert(back.MatchesAccessor(acc) == q.MatchesAccessor(acc), tag+"/matches-same-records")
	rt.Assert(back.dbName == q.dbName, tag+"/dbname")
	rt.Assert(back.dbKeyPrefix == q.dbKeyPrefix, tag+"/prefix")
	rt.Assert(back.orderBy == q.orderBy, tag+"/orderby")
	rt.Assert(back.limit == q.limit, tag+"/limit")
	rt.Assert(back.offset == q.offset, tag+"/offset")
}

func VerifC11_RoundTripSingle() {
	q := New("t:some/prefix").Where(leaf("a"))
	if rt.Bool("orderby") {
		q.OrderBy("n")
	}
	if rt.Bool("limit") {
		q.Limit(10)
	}
	if rt.Bool("offset") {
		q.Offset(3)
	}
	roundTrip(q, "single")
	rt.Reach("single-end")
}

// the list operand of "in": every entry is preserved exactly
func VerifC11_InList() {
	max := 2
	if rt.Thorough() {
		max = 3
	}
	n := rt.Len("entries", 0, max)
	list := make([]string, n)
	for i := range list {
		v := rt.StrN("e"+string(rune('0'+i)), 0, 2)
		rt.Assume(validUTF8(v))
		for j := 0; j < len(v); j++ {
			rt.Assume(v[j] != '\\')
		}
		list[i] = v
	}
	hasComma := false
	for _, v := range list {
		for j := 0; j < len(v); j++ {
			hasComma = rt.Any(hasComma, v[j] == ',')
		}
	}
	rt.Region("C11-in-list-fewer-than-two-entries", n < 2)
	rt.Region("C11-in-list-entry-with-comma", hasComma)
	q := New("t:p").Where(Where("l", In, list))
	if _, err := q.Check(); err != nil {
		// (a list the text form cannot carry may be refused by the check)
		return
	}
	text := q.Print()
	rt.ObserveStr("printed", text)
	back, err := ParseQuery(text)
	rt.Assert(err == nil, "inlist/parse-ok")
	if err != nil {
		return
	}
	sc, ok := back.where.(*stringSliceCondition)
	rt.Assert(ok, "inlist/is-list-condition")
	if ok {
		rt.Assert(len(sc.value) == len(list), "inlist/entry-count")
		if len(sc.value) == len(list) {
			for i := range list {
				rt.Assert(rt.EqStr(sc.value[i], list[i]), "inlist/entry-exact")
			}
		}
	}
	rt.Assert(rt.EqStr(back.Print(), text), "inlist/print-stable")
	acc := &verifAcc{s: rt.StrN("acc.s", 0, 2), has: rt.Bool("acc.has")}
	rt.Assert(back.MatchesAccessor(acc) == q.MatchesAccessor(acc), "inlist/matches-same-records")
	rt.Reach("inlist-end")
}

func VerifC11_RoundTripGroups() {
	a, b, c, d := Where("n", GreaterThan, 1), Where("s", SameAs, "x"), Where("b", Is, true), Where("e", Exists, nil)
	var w Condition
	switch rt.Choice("shape", 7) {
	case 0:
		w = And(a, b)
	case 1:
		w = Or(a, b)
	case 2:
		w = Or(And(a, b), And(c, d))
	case 3:
		w = Not(And(a, b))
	case 4:
		w = And(a, Or(b, c))
	case 5:
		w = And(Or(a, b), c)
	case 6:
		w = Or(a, And(b, Not(Or(c, d))))
	}
	q := New("t:").Where(w)
	if rt.Bool("tail") {
		q.Limit(5)
	}
	roundTrip(q, "groups")
	rt.Reach("groups-end")
}

// float operands: preserved exactly through print -> parse (values that need
// all 17 significant digits, the limits of the float64 range, integers beyond
// 2^24)
func VerifC11_FloatOperands() {
	vals := []float64{0.30000000000000004, 120.41300000000001, 16777217, 1e300, 5e-324, 1.7976931348623157e308, -0.1, 1.1, 0, -2.5e-7, 9007199254740993}
	v := vals[rt.Choice("value", len(vals))]
	op := []uint8{FloatEquals, FloatGreaterThan, FloatGreaterThanOrEqual, FloatLessThan, FloatLessThanOrEqual}[rt.Choice("op", 5)]
	q := New("t:p").Where(Where("f", op, v))
	if _, err := q.Check(); err != nil {
		rt.Assert(false, "float/built-query-checks")
		return
	}
	text := q.Print()
	back, err := ParseQuery(text)
	rt.Assert(err == nil, "float/parse-ok")
	if err != nil {
		return
	}
	fc, ok := back.where.(*floatCondition)
	rt.Assert(ok, "float/is-float-condition")
	if ok {
		rt.Assert(fc.value == v, "float/operand-exact")
		rt.Assert(fc.operator == op, "float/operator")
	}
	rt.Assert(back.Print() == text, "float/print-stable")
	rt.Reach("float-end")
}

// limit and offset over the whole range of the API's int parameter
func VerifC11_LimitOffset() {
	vals := []int{0, 1, 10, 2147483647, 2147483648, 3000000000, 1 << 62, 9223372036854775807}
	limit := vals[rt.Choice("limit", len(vals))]
	offset := vals[rt.Choice("offset", len(vals))]
	q := New("t:p").Limit(limit).Offset(offset)
	if rt.Bool("where") {
		q.Where(Where("n", GreaterThan, 1))
	}
	if _, err := q.Check(); err != nil {
		return
	}
	text := q.Print()
	back, err := ParseQuery(text)
	rt.Assert(err == nil, "limitoffset/parse-ok")
	if err != nil {
		return
	}
	rt.Assert(back.limit == limit, "limitoffset/limit-exact")
	rt.Assert(back.offset == offset, "limitoffset/offset-exact")
	rt.Assert(back.Print() == text, "limitoffset/print-stable")
	rt.Reach("limitoffset-end")
}

// hand-written input with a backslash-escaped character (the documented way
// to use a control character inside a value or key): the character is taken
// literally, the backslash is dropped - outside and inside quotes
func VerifC11_EscapedInput() {
	c := rt.U8("c")
	rt.Assume(rt.All(c != 0, c < 0x80))
	quoted := rt.Bool("quoted")
	inKey := rt.Bool("in-key")
	// the escaped character in the middle, at the start, at the end of the
	// token, or the whole token
	pre, post := "a", "b"
	switch rt.Choice("position", 4) {
	case 1:
		pre = ""
	case 2:
		post = ""
	case 3:
		pre, post = "", ""
	}
	tok := pre + "\\" + string(rune(c)) + post
	if quoted {
		tok = "\"" + tok + "\""
	}
	text := "query t: where k sameas " + tok
	if inKey {
		text = "query t: where " + tok + " sameas v"
	}
	rt.SetUnwind(4 * (len(text) + 4))
	q, err := ParseQuery(text)
	rt.Assert(err == nil, "escaped/parse-ok")
	if err != nil {
		return
	}
	sc, ok := q.where.(*stringCondition)
	rt.Assert(ok, "escaped/is-string-condition")
	if ok {
		want := pre + string(rune(c)) + post
		if inKey {
			rt.Assert(rt.EqStr(sc.key, want), "escaped/key-is-the-literal-character-without-the-backslash")
		} else {
			rt.Assert(rt.EqStr(sc.value, want), "escaped/value-is-the-literal-character-without-the-backslash")
		}
	}
	rt.Reach("escaped-end")
}

// a condition with an invalid operand (refused by its own check) inside and /
// or / not groups at any position: a query that passes its check still
// round-trips, and the parser either refuses the text or returns a query
// whose text parses again
func VerifC11_InvalidOperandInGroups() {
	var bad Condition
	switch rt.Choice("bad", 4) {
	case 0:
		bad = Where("a", Equals, "banana")
	case 1:
		bad = Where("a", Is, "great")
	case 2:
		bad = Where("a", FloatLessThan, "x")
	case 3:
		bad = Where("a", 200, "x") // no such operator
	}
	ok1, ok2 := Where("b", Exists, nil), Where("s", SameAs, "x")
	var w Condition
	shape := rt.Choice("shape", 11)
	switch shape {
	case 0:
		w = Or(bad, ok1)
	case 1:
		w = Or(ok1, bad)
	case 2:
		w = And(bad, ok1)
	case 3:
		w = And(ok1, bad)
	case 4:
		w = Not(Or(ok1, bad))
	case 5:
		w = And(ok2, Or(ok1, bad))
	case 6:
		w = Or(ok2, And(ok1, bad))
	case 7:
		w = Or(ok1, ok2, bad)
	case 8:
		w = Not(bad)
	case 9:
		w = bad
	case 10:
		w = Or(And(ok1, ok2), Not(bad))
	}
	q := New("t:")
	if rt.Bool("checked-before-the-condition-is-set") {
		// (a query that was checked, and then gets its condition)
		_, _ = q.Check()
	}
	q.Where(w)
	_, err := q.Check()
	rt.ObserveBool("built-query-refused", err != nil)
	if err == nil {
		roundTrip(q, "invalid-operand")
	}
	// the same through the parser
	texts := []string{
		"query t: where a == banana or b exists",
		"query t: where b exists or a is great",
		"query t: where b exists and a == banana",
		"query t: where s sameas x and (a f< x or b exists)",
		"query t: where not (b exists or a == banana)",
		"query t: where b exists or s sameas x or a is great",
		"query t: where (b exists and s sameas x) or not (a is great)",
	}
	text := texts[shape%len(texts)]
	rt.SetUnwind(4 * (len(text) + 4))
	pq, perr := ParseQuery(text)
	rt.ObserveBool("text-refused", perr != nil)
	if perr == nil {
		printed := pq.Print()
		back, err := ParseQuery(printed)
		rt.Assert(err == nil, "invalid-operand/accepted-text-parses-again")
		if err == nil {
			rt.Assert(back.Print() == printed, "invalid-operand/print-stable")
		}
	}
	rt.Reach("invalid-operand-end")
}

// operands and keys that are spelled like structural tokens - a parenthesis,
// and / or / not - next to real groups and connectives in the same query
func VerifC11_StructuralWordsAsOperands() {
	word := []string{"(", ")", "and", "or", "not"}[rt.Choice("word", 5)]
	a, b := Where("n", GreaterThan, 1), Where("e", Exists, nil)
	var special Condition
	if rt.Bool("as-key") {
		special = Where(word, Exists, nil)
	} else {
		special = Where("s", SameAs, word)
	}
	var w Condition
	switch rt.Choice("shape", 5) {
	case 0:
		w = And(special, Or(a, b))
	case 1:
		w = Or(special, Not(And(a, b)))
	case 2:
		w = And(Or(a, b), special)
	case 3:
		w = Not(Or(special, a))
	case 4:
		w = And(special, a, Not(b))
	}
	q := New("t:").Where(w)
	if rt.Bool("tail") {
		q.OrderBy(word)
	}
	roundTrip(q, "structuralwords")
	rt.Reach("structuralwords-end")
}

// groups of zero or one condition, nested and negated
func VerifC11_GroupShapes() {
	a, b := Where("n", GreaterThan, 1), Where("s", SameAs, "x")
	var w Condition
	switch rt.Choice("shape", 12) {
	case 0:
		w = And(a)
	case 1:
		w = Or(a)
	case 2:
		w = And(And(a))
	case 3:
		w = Not(And(a))
	case 4:
		w = Not(Or(a))
	case 5:
		w = And()
	case 6:
		w = Or()
	case 7:
		w = And(a, And(b))
	case 8:
		w = Not(Not(And(a)))
	case 9:
		w = Or(And(a), b)
	case 10:
		w = And(a, Or())
	case 11:
		w = Not(And(Not(a)))
	}
	q := New("t:").Where(w)
	if rt.Bool("tail") {
		q.Limit(5)
	}
	if _, err := q.Check(); err != nil {
		// (a group without conditions may be refused by the check)
		return
	}
	roundTrip(q, "shapes")
	rt.Reach("shapes-end")
}

// key prefix and order-by key are tokens of the text as well
func VerifC11_PrefixOrderBy() {
	prefix := rt.StrN("prefix", 0, 3)
	rt.Assume(validUTF8(prefix))
	key := rt.StrN("orderby", 0, 2)
	rt.Assume(validUTF8(key))
	q := New("t:" + prefix)
	if len(key) > 0 {
		q.OrderBy(key)
	}
	if rt.Bool("where") {
		q.Where(Where("n", GreaterThan, 1))
	}
	if _, err := q.Check(); err != nil {
		return
	}
	text := q.Print()
	rt.ObserveStr("printed", text)
	back, err := ParseQuery(text)
	rt.Assert(err == nil, "prefix/parse-ok")
	if err != nil {
		return
	}
	rt.Assert(back.dbName == "t", "prefix/dbname")
	rt.Assert(rt.EqStr(back.dbKeyPrefix, prefix), "prefix/prefix-exact")
	rt.Assert(rt.EqStr(back.orderBy, key), "prefix/orderby-exact")
	rt.Assert((back.where == nil) == (q.where == nil), "prefix/where-kept")
	rt.Assert(rt.EqStr(back.Print(), text), "prefix/print-stable")
	rt.Reach("prefix-end")
}

// ---- O4: the documented grammar is accepted; parser totality over token sequences ----

func VerifC11_Grammar() {
	accepted := []string{
		"query t:",
		"query t:a/b",
		"query t: where a > 1",
		"query t: where (a > 1)",
		"query t: where a > 1 and (b sameas x)",
		"query t: where (a > 1) or (b sameas x)",
		"query t: where not (a > 1)",
		"query t: where (a > 1 and b < 2) limit 3",
		"query t: where a exists orderby a limit 1 offset 2",
		"query t: where a not sameas \"x y\"",
	}
	i := rt.Choice("q", len(accepted))
	q, err := ParseQuery(accepted[i])
	rt.Assert(err == nil, "grammar/documented-query-accepted")
	if err == nil {
		rt.Assert(q.IsChecked(), "grammar/result-is-checked")
	}
	rt.Reach("grammar-end")
}

var vocab = []string{"query", "t:", "where", "a", ">", "1", "(", ")", "and", "or", "not", "limit", "sameas", "\"x\""}

func VerifC11_ParserTotal() {
	n := 4
	if rt.Thorough() {
		n = 5
	}
	cnt := rt.Len("tokens", 0, n)
	text := "query t:"
	for i := 0; i < cnt; i++ {
		text += " " + vocab[2+rt.Choice("tok"+string(rune('0'+i)), len(vocab)-2)]
	}
	rt.SetUnwind(4 * (len(text) + 4))
	q, err := ParseQuery(text)
	rt.ObserveBool("parse-ok", err == nil)
	if err == nil && q != nil {
		rt.ObserveStr("reprinted", q.Print())
	}
	if err == nil {
		rt.Assert(q != nil, "total/ok-nonnil")
		rt.Assert(q.IsChecked(), "total/ok-checked")
	} else {
		rt.Assert(q == nil, "total/error-nil")
	}
	rt.Reach("total-end")
}
