package varint

// C10 harnesses: varint pack/unpack exact inverses with exact byte accounting.
// Executed symbolically by symgo; compiled natively only for replay.

import (
	rt "github.com/safing/portbase/zz_verifrt"
)

// refDecode is the reference base-128 decoder (oracle): status 0 = ok,
// 1 = truncated (no terminator within the input), 2 = overflows uint64.
func refDecode(b []byte) (val uint64, n int, status int) {
	var shift uint
	for i := 0; i < len(b); i++ {
		c := b[i]
		if i == 9 && c > 1 {
			return 0, 0, 2
		}
		if i > 9 {
			return 0, 0, 2
		}
		val |= uint64(c&0x7f) << shift
		if c < 0x80 {
			return val, i + 1, 0
		}
		shift += 7
	}
	return 0, 0, 1
}

func refSize(n uint64) int {
	s := 1
	for n >= 0x80 {
		n >>= 7
		s++
	}
	return s
}

func checkCanonical(p []byte, n uint64, tag string) {
	rt.Assert(len(p) >= 1, tag+"/nonempty")
	if len(p) < 1 {
		return
	}
	for i := 0; i < len(p)-1; i++ {
		rt.Assert(p[i] >= 0x80, tag+"/continuation-bits")
	}
	last := p[len(p)-1]
	rt.Assert(last < 0x80, tag+"/terminator")
	if len(p) > 1 {
		rt.Assert(last != 0, tag+"/shortest-form")
	}
	rt.Assert(len(p) == EncodedSize(n), tag+"/encoded-size")
	rt.Assert(len(p) == refSize(n), tag+"/ref-size")
	v, used, st := refDecode(p)
	rt.Assert(st == 0, tag+"/ref-decodes")
	rt.Assert(used == len(p), tag+"/ref-consumes-all")
	rt.Assert(v == n, tag+"/ref-value")
}

// ---- O1/O2: round trip + canonical form, every value of each width ----

func VerifC10_RoundTrip8() {
	n := rt.U8("n")
	rt.Region("C10-unpack8-count", n >= 128)
	p := Pack8(n)
	checkCanonical(p, uint64(n), "pack8")
	v, used, err := Unpack8(p)
	rt.Assert(err == nil, "rt8/no-error")
	rt.Assert(v == n, "rt8/value")
	rt.Assert(used == len(p), "rt8/consumed")
	rt.ObserveBytes("packed", p)
	rt.Reach("rt8-end")
}

func VerifC10_RoundTrip16() {
	n := rt.U16("n")
	p := Pack16(n)
	checkCanonical(p, uint64(n), "pack16")
	v, used, err := Unpack16(p)
	rt.Assert(err == nil, "rt16/no-error")
	rt.Assert(v == n, "rt16/value")
	rt.Assert(used == len(p), "rt16/consumed")
	rt.ObserveBytes("packed", p)
	rt.Reach("rt16-end")
}

func VerifC10_RoundTrip32() {
	n := rt.U32("n")
	p := Pack32(n)
	checkCanonical(p, uint64(n), "pack32")
	v, used, err := Unpack32(p)
	rt.Assert(err == nil, "rt32/no-error")
	rt.Assert(v == n, "rt32/value")
	rt.Assert(used == len(p), "rt32/consumed")
	rt.ObserveBytes("packed", p)
	rt.Reach("rt32-end")
}

func VerifC10_RoundTrip64() {
	n := rt.U64("n")
	p := Pack64(n)
	checkCanonical(p, n, "pack64")
	v, used, err := Unpack64(p)
	rt.Assert(err == nil, "rt64/no-error")
	rt.Assert(v == n, "rt64/value")
	rt.Assert(used == len(p), "rt64/consumed")
	rt.ObserveBytes("packed", p)
	rt.Reach("rt64-end")
}

// ---- O1b: canonical encoding followed by arbitrary trailing bytes ----

func VerifC10_TrailingBytes() {
	n := rt.U64("n")
	tail := rt.BytesN("tail", 0, 2)
	p := append(Pack64(n), tail...)
	v, used, err := Unpack64(p)
	rt.Assert(err == nil, "trail64/no-error")
	rt.Assert(v == n, "trail64/value")
	rt.Assert(used == len(p)-len(tail), "trail64/consumed")

	m := rt.U8("m")
	rt.Region("C10-unpack8-count", m >= 128)
	q := append(Pack8(m), tail...)
	v8, used8, err8 := Unpack8(q)
	rt.Assert(err8 == nil, "trail8/no-error")
	rt.Assert(v8 == m, "trail8/value")
	rt.Assert(used8 == len(q)-len(tail), "trail8/consumed")
	rt.Reach("trail-end")
}

// ---- O3: decoders on every byte string of length 0..maxLen ----

func decoderObligations(blob []byte, v uint64, used int, err error, width uint, tag string) {
	rv, rn, st := refDecode(blob)
	if err == nil {
		rt.Assert(used >= 1, tag+"/consumed>=1")
		rt.Assert(used <= len(blob), tag+"/consumed<=len")
		if used >= 1 && used <= len(blob) {
			rt.Assert(blob[used-1] < 0x80, tag+"/ends-on-terminator")
			for i := 0; i < used-1; i++ {
				rt.Assert(blob[i] >= 0x80, tag+"/only-continuation-before")
			}
		}
		rt.Assert(st == 0, tag+"/ref-accepts")
		rt.Assert(used == rn, tag+"/ref-consumed")
		rt.Assert(v == rv, tag+"/ref-value")
		if width < 64 {
			rt.Assert(rv>>width == 0, tag+"/fits-width")
		}
	} else {
		rt.Assert(used == 0, tag+"/error-consumed-0")
		rt.Assert(v == 0, tag+"/error-value-0")
		// must-fail classes: truncated input, > 64 bit, above width. Any
		// other rejection must not hit a canonical in-range encoding.
		if st == 0 && (width == 64 || rv>>width == 0) {
			// reference accepts an in-range value: only non-canonical
			// paddings may be rejected
			rt.Assert(rn > refSize(rv), tag+"/rejects-only-noncanonical")
		}
	}
	if st != 0 {
		rt.Assert(err != nil, tag+"/must-fail-truncated-or-overflow")
	}
	if st == 0 && width < 64 && rv>>width != 0 {
		rt.Assert(err != nil, tag+"/must-fail-above-width")
	}
}

func VerifC10_Decode8() {
	blob := rt.BytesN("blob", 0, 4)
	rt.Region("C10-unpack8-count", len(blob) >= 2 && blob[0] >= 0x80 && blob[1] == 1)
	v, used, err := Unpack8(blob)
	decoderObligations(blob, uint64(v), used, err, 8, "dec8")
	rt.Observe("v", uint64(v))
	rt.Observe("used", uint64(used))
	rt.ObserveBool("ok", err == nil)
	rt.Reach("dec8-end")
}

func VerifC10_Decode16() {
	blob := rt.BytesN("blob", 0, 12)
	v, used, err := Unpack16(blob)
	decoderObligations(blob, uint64(v), used, err, 16, "dec16")
	rt.Observe("v", uint64(v))
	rt.Observe("used", uint64(used))
	rt.ObserveBool("ok", err == nil)
	rt.Reach("dec16-end")
}

func VerifC10_Decode32() {
	blob := rt.BytesN("blob", 0, 12)
	v, used, err := Unpack32(blob)
	decoderObligations(blob, uint64(v), used, err, 32, "dec32")
	rt.Observe("v", uint64(v))
	rt.Observe("used", uint64(used))
	rt.ObserveBool("ok", err == nil)
	rt.Reach("dec32-end")
}

func VerifC10_Decode64() {
	blob := rt.BytesN("blob", 0, 12)
	v, used, err := Unpack64(blob)
	decoderObligations(blob, v, used, err, 64, "dec64")
	rt.Observe("v", v)
	rt.Observe("used", uint64(used))
	rt.ObserveBool("ok", err == nil)
	rt.Reach("dec64-end")
}

// ---- O4: GetNextBlock on every byte string of length 0..12 ----

func VerifC10_GetNextBlock() {
	data := rt.BytesN("data", 0, 12)
	rv, rn, st := refDecode(data)
	// known finding: a length prefix so large that int(l)+n wraps/turns negative
	rt.Region("C10-getnextblock-hugelen", st == 0 && rv > uint64(len(data)))
	block, total, err := GetNextBlock(data)
	if err == nil {
		rt.Assert(st == 0, "gnb/ref-accepts-prefix")
		rt.Assert(total >= 0, "gnb/total-nonneg")
		rt.Assert(total <= len(data), "gnb/total<=len")
		rt.Assert(uint64(len(block)) == rv, "gnb/block-len")
		rt.Assert(total == rn+len(block), "gnb/total=prefix+block")
		if total <= len(data) && total >= rn && len(block) == total-rn {
			for i := 0; i < len(block); i++ {
				rt.Assert(block[i] == data[rn+i], "gnb/block-bytes")
			}
		}
	} else {
		rt.Assert(block == nil, "gnb/error-nil-block")
		rt.Assert(total == 0, "gnb/error-total-0")
		if st == 0 {
			// prefix decodes: error only if block exceeds the input
			// (or the prefix is a non-canonical padding)
			if rn == refSize(rv) {
				rt.Assert(rv > uint64(len(data)-rn), "gnb/error-only-when-too-short")
			}
		}
	}
	if st != 0 {
		rt.Assert(err != nil, "gnb/must-fail-bad-prefix")
	}
	if st == 0 && rv > uint64(len(data)-rn) {
		rt.Assert(err != nil, "gnb/must-fail-too-long")
	}
	rt.ObserveBytes("block", block)
	rt.Observe("total", uint64(total))
	rt.ObserveBool("ok", err == nil)
	rt.Reach("gnb-end")
}

// ---- O5: GetNextBlock(PrependLength(d) ++ tail) == d ----

func VerifC10_PrependLength() {
	d := rt.BytesN("d", 0, 4)
	tail := rt.BytesN("tail", 0, 2)
	p := PrependLength(d)
	rt.Assert(len(p) == len(d)+1, "pl/len")
	p = append(p, tail...)
	block, total, err := GetNextBlock(p)
	rt.Assert(err == nil, "pl/no-error")
	rt.Assert(total == len(d)+1, "pl/total")
	rt.Assert(len(block) == len(d), "pl/block-len")
	if len(block) == len(d) {
		for i := range d {
			rt.Assert(block[i] == d[i], "pl/bytes")
		}
	}
	rt.Reach("pl-end")
}
