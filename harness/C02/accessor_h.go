package accessor

// C02 harness (accessors): an integer field of a serialized record is read
// exactly - for every int64, also beyond the 2^53 range that a float64 holds
// exactly - so that integer conditions decide the same for serialized records
// as for typed ones.

import (
	"strconv"

	rt "github.com/safing/portbase/zz_verifrt"
)

func VerifC02_JSONAccessorInts() {
	vals := []int64{0, 1, -1, 42, 1 << 53, 1<<53 + 1, -(1<<53 + 1), 1<<62 + 1, 9223372036854775807, -9223372036854775808, 1700000000123456789}
	n := vals[rt.Choice("n", len(vals))]
	doc := []byte(`{"S":"x","N":` + strconv.FormatInt(n, 10) + `,"B":true}`)
	acc := NewJSONBytesAccessor(&doc)
	v, ok := acc.GetInt("N")
	rt.Assert(ok, "jsonints/integer-field-found")
	rt.Assert(v == n, "jsonints/integer-field-read-exactly")
	_, ok = acc.GetInt("S")
	rt.Assert(!ok, "jsonints/string-field-is-no-integer")
	_, ok = acc.GetInt("missing")
	rt.Assert(!ok, "jsonints/missing-field")
	s, ok := acc.GetString("S")
	rt.Assert(ok && s == "x", "jsonints/string-field")
	b, ok := acc.GetBool("B")
	rt.Assert(ok && b, "jsonints/bool-field")
	rt.Reach("jsonints-end")
}
