package bbolt

// C02 harness (bbolt backend): portbase's bbolt storage adapter - get, put,
// delete, batch put, prefix query, record maintenance and purge - against a
// plain key -> record map. Under the engine the third-party database behind
// the adapter is modelled by its contract: one bucket that is an ordered
// key/value map, cursors positioned by key, transactions that roll back when
// their function fails. Natively the real bbolt database runs in a sandbox
// directory.

import (
	"context"
	"errors"
	"time"

	bolt "go.etcd.io/bbolt"

	"github.com/safing/portbase/database/query"
	"github.com/safing/portbase/database/record"
	"github.com/safing/portbase/database/storage"
	rt "github.com/safing/portbase/zz_verifrt"
)

// ---- model of go.etcd.io/bbolt (engine only) ----

var (
	c02bKeys   []string // sorted
	c02bVals   map[string][]byte
	c02bCursor string // key under the (single) cursor
	c02bAtEnd  bool
)

func c02bInsertKey(k string) {
	for i, x := range c02bKeys {
		if x == k {
			return
		}
		if x > k {
			c02bKeys = append(c02bKeys[:i], append([]string{k}, c02bKeys[i:]...)...)
			return
		}
	}
	c02bKeys = append(c02bKeys, k)
}

func c02bRemoveKey(k string) {
	for i, x := range c02bKeys {
		if x == k {
			c02bKeys = append(c02bKeys[:i:i], c02bKeys[i+1:]...)
			return
		}
	}
}

func VerifModel_bbolt_Open(path string, mode uint32, options *bolt.Options) (*bolt.DB, error) {
	c02bKeys, c02bVals = nil, map[string][]byte{}
	return &bolt.DB{}, nil
}

func c02bTx(fn func(*bolt.Tx) error, rollback bool) error {
	keys := append([]string{}, c02bKeys...)
	vals := map[string][]byte{}
	for k, v := range c02bVals {
		vals[k] = v
	}
	err := fn(&bolt.Tx{})
	if err != nil && rollback {
		c02bKeys, c02bVals = keys, vals
	}
	return err
}

func VerifModel_bbolt_DB_Update(db *bolt.DB, fn func(*bolt.Tx) error) error { return c02bTx(fn, true) }
func VerifModel_bbolt_DB_Batch(db *bolt.DB, fn func(*bolt.Tx) error) error  { return c02bTx(fn, true) }
func VerifModel_bbolt_DB_View(db *bolt.DB, fn func(*bolt.Tx) error) error   { return c02bTx(fn, false) }
func VerifModel_bbolt_DB_Close(db *bolt.DB) error                            { return nil }

func VerifModel_bbolt_Tx_Bucket(tx *bolt.Tx, name []byte) *bolt.Bucket { return &bolt.Bucket{} }
func VerifModel_bbolt_Tx_CreateBucketIfNotExists(tx *bolt.Tx, name []byte) (*bolt.Bucket, error) {
	return &bolt.Bucket{}, nil
}

func VerifModel_bbolt_Bucket_Get(b *bolt.Bucket, key []byte) []byte {
	v, ok := c02bVals[string(key)]
	if !ok {
		return nil
	}
	return v
}

func VerifModel_bbolt_Bucket_Put(b *bolt.Bucket, key, value []byte) error {
	if len(key) == 0 {
		return errors.New("key required")
	}
	c02bInsertKey(string(key))
	c02bVals[string(key)] = append([]byte{}, value...)
	return nil
}

func VerifModel_bbolt_Bucket_Delete(b *bolt.Bucket, key []byte) error {
	c02bRemoveKey(string(key))
	delete(c02bVals, string(key))
	return nil
}

func VerifModel_bbolt_Bucket_Cursor(b *bolt.Bucket) *bolt.Cursor {
	c02bAtEnd = true
	return &bolt.Cursor{}
}

func c02bAt(i int) ([]byte, []byte) {
	if i >= len(c02bKeys) {
		c02bAtEnd = true
		return nil, nil
	}
	c02bAtEnd = false
	c02bCursor = c02bKeys[i]
	return []byte(c02bCursor), c02bVals[c02bCursor]
}

func VerifModel_bbolt_Cursor_First(c *bolt.Cursor) ([]byte, []byte) { return c02bAt(0) }

func VerifModel_bbolt_Cursor_Seek(c *bolt.Cursor, seek []byte) ([]byte, []byte) {
	for i, k := range c02bKeys {
		if k >= string(seek) {
			return c02bAt(i)
		}
	}
	return c02bAt(len(c02bKeys))
}

func VerifModel_bbolt_Cursor_Next(c *bolt.Cursor) ([]byte, []byte) {
	if c02bAtEnd {
		return nil, nil
	}
	for i, k := range c02bKeys {
		if k > c02bCursor {
			return c02bAt(i)
		}
	}
	return c02bAt(len(c02bKeys))
}

func VerifModel_bbolt_Cursor_Delete(c *bolt.Cursor) error {
	if c02bAtEnd {
		return errors.New("no element under the cursor")
	}
	c02bRemoveKey(c02bCursor)
	delete(c02bVals, c02bCursor)
	return nil
}

// ---- the reference map ----

type c02bEntry struct {
	present bool
	expires int64
	deleted int64
	data    byte
	secret  bool
	crown   bool
}

func c02bPermitted(e c02bEntry, local, internal bool) bool {
	return rt.All(rt.Any(!e.secret, internal), rt.Any(!e.crown, local))
}

var c02bKeySet = []string{"a", "a/b", "ab", "b"}

func c02bValid(e c02bEntry, now int64) bool {
	return rt.All(e.present, e.deleted == 0, rt.Any(e.expires == 0, e.expires >= now))
}

func c02bNewRecord(key string, e c02bEntry) *record.Wrapper {
	m := &record.Meta{Created: 1, Modified: 2, Expires: e.expires, Deleted: e.deleted}
	if e.secret {
		m.MakeSecret()
	}
	if e.crown {
		m.MakeCrownJewel()
	}
	w, _ := record.NewWrapper("t:"+key, m, 1 /* RAW */, []byte{e.data})
	return w
}

// a record in one of six states: valid (no expiry, expiring this very second,
// expiring later), expired, deleted recently, deleted long ago
func c02bSymEntry(tag string, now int64) c02bEntry {
	e := c02bEntry{present: true, data: rt.U8(tag + ".data")}
	switch rt.Choice(tag+".state", 6) {
	case 1:
		e.expires = now // this very second: still valid
	case 2:
		e.expires = now + 10
	case 3:
		e.expires = now - 10
	case 4:
		e.deleted = now - 100
	case 5:
		e.deleted = now - 1000
		e.expires = now - 2000
	}
	return e
}

func c02bHasPrefix(s, p string) bool { return len(s) >= len(p) && s[:len(p)] == p }

func VerifC02_BBoltBackend() {
	rt.NoTimers()
	rt.SchedYieldOnly(true)
	rt.FsFaults(0)
	st, err := NewBBolt("t", rt.Root("/data/t"))
	rt.Assert(err == nil, "bbolt/open")
	if err != nil {
		return
	}
	b := st.(*BBolt)
	now := time.Now().Unix()
	// the clock reads a time between 2004 and 2038 (all time stamps used here
	// then encode with the same length, which keeps the paths few)
	rt.Assume(now > 1<<30+2000)
	rt.Assume(now < 1<<31-2000)
	model := map[string]c02bEntry{}

	// the operation
	op := rt.Choice("op", 7)
	local, internal := true, true // (protected records and callers without privileges: VerifC03_BBoltProtectedRecords)

	// pre-state: 0..2 stored records - one with any key, expiry and deletion
	// state, and possibly a second one that is valid or expired
	if rt.Bool("pre0") {
		key := c02bKeySet[rt.Choice("pre0.key", len(c02bKeySet))]
		e := c02bSymEntry("pre0", now)
		_, err := b.Put(c02bNewRecord(key, e))
		rt.Assert(err == nil, "bbolt/pre-put-ok")
		model[key] = e
	}
	if rt.Bool("pre1") {
		key := []string{"a/b", "b"}[rt.Choice("pre1.key", 2)]
		e := c02bEntry{present: true, data: rt.U8("pre1.data")}
		if rt.Bool("pre1.expired") {
			e.expires = now - 10
		}
		_, err := b.Put(c02bNewRecord(key, e))
		rt.Assert(err == nil, "bbolt/pre-put-ok")
		model[key] = e
	}

	// one operation
	switch op {
	case 0: // get
		key := c02bKeySet[rt.Choice("key", len(c02bKeySet))]
		r, err := b.Get(key)
		if model[key].present {
			rt.Assert(err == nil, "bbolt/get-stored-record")
		} else {
			rt.Assert(errors.Is(err, storage.ErrNotFound), "bbolt/get-missing-is-not-found")
			rt.Assert(r == nil, "bbolt/get-missing-returns-nothing")
		}
	case 1: // put
		key := c02bKeySet[rt.Choice("key", len(c02bKeySet))]
		e := c02bSymEntry("new", now)
		_, err := b.Put(c02bNewRecord(key, e))
		rt.Assert(err == nil, "bbolt/put-ok")
		model[key] = e
	case 2: // delete
		key := c02bKeySet[rt.Choice("key", len(c02bKeySet))]
		rt.Assert(b.Delete(key) == nil, "bbolt/delete-ok")
		model[key] = c02bEntry{}
	case 3: // batch: one put, one deleted record
		shadow := rt.Bool("shadowdelete")
		batch, errs := b.PutMany(shadow)
		k1 := c02bKeySet[rt.Choice("key", len(c02bKeySet))]
		e1 := c02bSymEntry("new", now)
		batch <- c02bNewRecord(k1, e1)
		if !shadow && e1.deleted != 0 {
			model[k1] = c02bEntry{} // a deleted record in a batch is removed at once
		} else {
			model[k1] = e1
		}
		k2 := "b"
		e2 := c02bEntry{present: true, deleted: now, data: 7}
		batch <- c02bNewRecord(k2, e2)
		if shadow {
			model[k2] = e2
		} else {
			model[k2] = c02bEntry{}
		}
		close(batch)
		rt.Assert(<-errs == nil, "bbolt/batch-ok")
	case 4: // query: exactly the valid records below the prefix
		prefix := []string{"", "a", "a/", "ab", "b", "c"}[rt.Choice("prefix", 6)]
		it, err := b.Query(query.New("t:"+prefix), local, internal)
		rt.Assert(err == nil, "bbolt/query-ok")
		if err != nil {
			return
		}
		seen := map[string]int{}
		for r := range it.Next {
			seen[r.DatabaseKey()]++
		}
		rt.Assert(it.Err() == nil, "bbolt/query-no-error")
		for _, k := range c02bKeySet {
			want := 0
			if c02bValid(model[k], now) && c02bHasPrefix(k, prefix) && c02bPermitted(model[k], local, internal) {
				want = 1
			}
			rt.Assert(seen[k] == want, "bbolt/query-yields-exactly-the-visible-records-below-the-prefix")
		}
	case 5: // record maintenance
		shadow := rt.Bool("shadowdelete")
		threshold := now - 500
		before := map[string]c02bEntry{}
		for k, e := range model {
			before[k] = e
		}
		err := b.MaintainRecordStates(context.Background(), time.Unix(threshold, 0), shadow)
		rt.Assert(err == nil, "bbolt/maintenance-ok")
		for _, k := range c02bKeySet {
			e := model[k]
			if !e.present {
				continue
			}
			switch {
			case e.deleted == 0 && e.expires > 0 && e.expires < now:
				if shadow {
					e.deleted = e.expires
					model[k] = e
				} else {
					model[k] = c02bEntry{}
				}
			case e.deleted > 0 && (!shadow || e.deleted < threshold):
				model[k] = c02bEntry{}
			}
		}
		// never changes what is visible
		for _, k := range c02bKeySet {
			rt.Assert(c02bValid(before[k], now) == c02bValid(model[k], now), "bbolt/maintenance-model-keeps-visibility")
			if c02bValid(before[k], now) {
				r, err := b.Get(k)
				rt.Assert(err == nil, "bbolt/maintenance-keeps-visible-records")
				if err == nil {
					rt.Assert(r.Meta().CheckValidity(), "bbolt/maintenance-keeps-visible-records-valid")
				}
			}
		}
	case 6: // purge: nothing visible below the prefix is left, the rest is untouched
		shadow := rt.Bool("shadowdelete")
		prefix := []string{"", "a", "a/", "ab", "c"}[rt.Choice("prefix", 5)]
		n, err := b.Purge(context.Background(), query.New("t:"+prefix), local, internal, shadow)
		rt.Assert(err == nil, "bbolt/purge-ok")
		purged := 0
		for _, k := range c02bKeySet {
			e := model[k]
			if e.present && e.deleted == 0 && c02bHasPrefix(k, prefix) && c02bPermitted(e, local, internal) {
				purged++
				if shadow {
					e.deleted = now
					model[k] = e
				} else {
					model[k] = c02bEntry{}
				}
			}
		}
		rt.Assert(n == purged, "bbolt/purge-count")
	}

	// final comparison of every key with the map
	for _, k := range c02bKeySet {
		e := model[k]
		r, err := b.Get(k)
		if !e.present {
			rt.Assert(errors.Is(err, storage.ErrNotFound), "bbolt/final-absent")
			continue
		}
		rt.Assert(err == nil, "bbolt/final-present")
		if err != nil {
			continue
		}
		m := r.Meta()
		rt.Assert(m.Expires == e.expires, "bbolt/final-expires")
		if e.deleted == now {
			rt.Assert(m.Deleted >= now, "bbolt/final-deleted-now")
		} else {
			rt.Assert(m.Deleted == e.deleted, "bbolt/final-deleted")
		}
		w, ok := r.(*record.Wrapper)
		rt.Assert(ok, "bbolt/final-is-wrapper")
		if ok {
			if e.deleted != 0 {
				rt.Assert(len(w.Data) == 0, "bbolt/final-deleted-record-has-no-data")
			} else {
				rt.Assert(len(w.Data) == 1 && w.Data[0] == e.data, "bbolt/final-data")
			}
		}
	}
	_ = b.Shutdown()
	rt.Reach("bbolt-end")
}

// ---- C03 on the bbolt backend: queries and purges never list or remove a
// protected record for a caller without the privilege (run by the C03 check) ----

func VerifC03_BBoltProtectedRecords() {
	rt.NoTimers()
	rt.SchedYieldOnly(true)
	rt.FsFaults(0)
	st, err := NewBBolt("t", rt.Root("/data/t"))
	rt.Assert(err == nil, "bboltprot/open")
	if err != nil {
		return
	}
	b := st.(*BBolt)
	now := time.Now().Unix()
	rt.Assume(now > 1<<30+2000)
	rt.Assume(now < 1<<31-2000)
	prot := c02bEntry{present: true, data: 1, secret: rt.Bool("secret"), crown: rt.Bool("crownjewel")}
	open := c02bEntry{present: true, data: 2}
	_, err = b.Put(c02bNewRecord("a/p", prot))
	rt.Assert(err == nil, "bboltprot/put")
	_, err = b.Put(c02bNewRecord("a/o", open))
	rt.Assert(err == nil, "bboltprot/put-open")
	local, internal := rt.Bool("local"), rt.Bool("internal")
	permitted := c02bPermitted(prot, local, internal)
	if rt.Bool("purge") {
		shadow := rt.Bool("shadowdelete")
		n, err := b.Purge(context.Background(), query.New("t:a/"), local, internal, shadow)
		rt.Assert(err == nil, "bboltprot/purge-ok")
		r, gerr := b.Get("a/p")
		if permitted {
			rt.Assert(n == 2, "bboltprot/purge-count-with-permission")
		} else {
			rt.Assert(n == 1, "bboltprot/purge-counts-only-permitted-records")
			rt.Assert(gerr == nil, "bboltprot/denied-record-survives-the-purge")
			if gerr == nil {
				rt.Assert(!r.Meta().IsDeleted(), "bboltprot/denied-record-not-marked-deleted")
			}
		}
	} else {
		it, err := b.Query(query.New("t:a/"), local, internal)
		rt.Assert(err == nil, "bboltprot/query-ok")
		if err != nil {
			return
		}
		sawProt, sawOpen := 0, 0
		for r := range it.Next {
			switch r.DatabaseKey() {
			case "a/p":
				sawProt++
			case "a/o":
				sawOpen++
			}
		}
		rt.Assert(sawOpen == 1, "bboltprot/open-record-listed")
		if permitted {
			rt.Assert(sawProt == 1, "bboltprot/permitted-record-listed")
		} else {
			rt.Assert(sawProt == 0, "bboltprot/denied-record-never-listed")
		}
	}
	_ = b.Shutdown()
	rt.Reach("bboltprot-end")
}
