package fstree

// C02 harness (file-tree backend): a query reads exactly the files whose key
// starts with the query's key prefix (the walk and the directory listing are
// the file-system stub; file contents are arbitrary).

import (
	"errors"

	"github.com/safing/portbase/database/query"
	"github.com/safing/portbase/database/record"
	"github.com/safing/portbase/database/storage"
	rt "github.com/safing/portbase/zz_verifrt"
)

func VerifC02_FstreeQueryPrefix() {
	root := rt.Root("/r/db")
	fst := &FSTree{name: "t", basePath: root}
	// a key space with shared prefixes and path separators (prefix-free at
	// segment boundaries; "c" and "a/x" are complete keys that other keys
	// extend within the same segment)
	files := []string{"a/b1", "a/b2", "a/x", "a/x1", "ab/y", "c", "c1", "d/e/f"}
	dirs := []string{"a", "ab", "d", "d/e"}
	for _, d := range dirs {
		rt.WalkEntry(root+"/"+d, true)
	}
	for _, f := range files {
		rt.WalkEntry(root+"/"+f, false)
		// the stored files hold really marshalled records
		w, _ := record.NewWrapper("t:"+f, &record.Meta{}, 'J', []byte("{}"))
		w.UpdateMeta()
		data, err := w.MarshalRecord(w)
		if err != nil {
			rt.Assert(false, "fstreeprefix/setup")
			return
		}
		rt.FsFile(root+"/"+f, data)
	}
	// prefixes built from the same alphabet
	n := 3
	if rt.Thorough() {
		n = 4
	}
	prefix := rt.StrN("prefix", 0, n)
	for i := 0; i < len(prefix); i++ {
		c := prefix[i]
		rt.Assume(rt.Any(c == 'a', c == 'b', c == 'c', c == 'd', c == 'e', c == '/', c == '1', c == 'x'))
	}
	// prefixes that the backend turns into a path: no empty or dot segments
	for i := 0; i+1 < len(prefix); i++ {
		rt.Assume(!rt.All(prefix[i] == '/', prefix[i+1] == '/'))
	}
	rt.Assume(len(prefix) == 0 || prefix[0] != '/')
	rt.FsFaults(0)
	rt.WalkEntry(root, true)
	rt.FsStatFromWalk(true) // a path exists iff it is one of the entries above
	q := query.New("t:" + prefix)
	if _, err := q.Check(); err != nil {
		return
	}
	it, err := fst.Query(q, true, true)
	rt.Assert(err == nil, "fstreeprefix/query-ok")
	if err != nil {
		return
	}
	got := map[string]bool{}
	for r := range it.Next {
		got[r.DatabaseKey()] = true
	}
	// which files were read? (natively: which records were returned)
	read := map[string]bool{}
	if !rt.Symbolic() {
		for _, f := range files {
			read[root+"/"+f] = got[f]
		}
	}
	for i := 0; i < rt.FsLen(); i++ {
		if rt.FsOp(i) == "readfile" {
			read[rt.FsPath(i)] = true
		}
	}
	// a prefix below which nothing is stored - also one that names no existing
	// directory, or runs through a record - is an empty result, not an error
	// (with no record read, no record can have failed to load)
	anyRead := false
	for _, f := range files {
		anyRead = anyRead || read[root+"/"+f]
	}
	if !anyRead {
		rt.Assert(it.Err() == nil, "fstreeprefix/no-error-for-a-prefix-without-records")
	}
	walkFailed := it.Err() != nil
	rt.Assert(!walkFailed, "fstreeprefix/query-finishes-without-error")
	for _, f := range files {
		matches := len(f) >= len(prefix) && rt.EqStr(f[:len(prefix)], prefix)
		if read[root+"/"+f] {
			rt.Assert(matches, "fstreeprefix/only-keys-with-the-prefix-are-read")
		} else if !walkFailed {
			rt.Assert(!matches, "fstreeprefix/every-key-with-the-prefix-is-read")
		}
		// and the records handed out are exactly those
		rt.Assert(got[f] == matches, "fstreeprefix/exactly-the-records-with-the-prefix-are-returned")
	}
	rt.Reach("fstreeprefix-end")
}

// C03 (file-tree backend): a query lists a record only to an interface that
// may read it, for every combination of the record's flags and the
// interface's options. The stored files hold really marshalled records.
func VerifC03_FstreeProtectedRecords() {
	root := rt.Root("/r/db")
	fst := &FSTree{name: "t", basePath: root}
	type rec struct {
		key           string
		secret, jewel bool
	}
	recs := []rec{{"plain", false, false}, {"secret", true, false}, {"jewel", false, true}, {"both", true, true}, {"sub/secret", true, false}}
	rt.WalkEntry(root, true)
	rt.WalkEntry(root+"/sub", true)
	for _, r := range recs {
		m := &record.Meta{}
		m.Update()
		if r.secret {
			m.MakeSecret()
		}
		if r.jewel {
			m.MakeCrownJewel()
		}
		w, err := record.NewWrapper("t:"+r.key, m, 'J', []byte("{}"))
		if err != nil {
			rt.Assert(false, "fstreeperm/setup")
			return
		}
		data, err := w.MarshalRecord(w)
		if err != nil {
			rt.Assert(false, "fstreeperm/setup")
			return
		}
		rt.FsFile(root+"/"+r.key, data)
		rt.WalkEntry(root+"/"+r.key, false)
	}
	rt.FsFaults(0)
	rt.FsStatFromWalk(true)
	local, internal := rt.Bool("local"), rt.Bool("internal")
	prefix := []string{"", "s", "sub/"}[rt.Choice("prefix", 3)]
	q := query.New("t:" + prefix)
	if _, err := q.Check(); err != nil {
		return
	}
	it, err := fst.Query(q, local, internal)
	rt.Assert(err == nil, "fstreeperm/query-ok")
	if err != nil {
		return
	}
	got := map[string]int{}
	for r := range it.Next {
		got[r.DatabaseKey()]++
	}
	rt.Assert(it.Err() == nil, "fstreeperm/query-finishes-without-error")
	for _, r := range recs {
		allowed := (!r.secret || internal) && (!r.jewel || local)
		matches := len(r.key) >= len(prefix) && r.key[:len(prefix)] == prefix
		if allowed && matches {
			rt.Assert(got[r.key] == 1, "fstreeperm/readable-record-listed-once")
		} else {
			rt.Assert(got[r.key] == 0, "fstreeperm/protected-record-not-listed")
		}
	}
	rt.Reach("fstreeperm-end")
}

// get / exists on keys that are not stored - among them keys that name a
// directory of the tree or run through a record's file: not found, as with a
// plain map (the stored key set is prefix-free at segment boundaries; the key
// asked for need not be)
func VerifC02_FstreeGetMissingKeys() {
	root := rt.Root("/r/db")
	fst := &FSTree{name: "t", basePath: root}
	files := []string{"a/b", "c"}
	rt.WalkEntry(root, true)
	rt.WalkEntry(root+"/a", true)
	for _, f := range files {
		rt.WalkEntry(root+"/"+f, false)
		w, _ := record.NewWrapper("t:"+f, &record.Meta{}, 'J', []byte("{}"))
		w.UpdateMeta()
		data, err := w.MarshalRecord(w)
		if err != nil {
			rt.Assert(false, "fstreeget/setup")
			return
		}
		rt.FsFile(root+"/"+f, data)
	}
	rt.FsFaults(0)
	rt.FsStatFromWalk(true)
	key := []string{"a/b", "c", "a", "a/b/c", "c/d", "x", "a/x"}[rt.Choice("key", 7)]
	stored := key == "a/b" || key == "c"
	r, err := fst.Get(key)
	if stored {
		rt.Assert(err == nil && r != nil, "fstreeget/stored-key-found")
	} else {
		rt.Assert(errors.Is(err, storage.ErrNotFound), "fstreeget/key-that-is-not-stored-is-not-found")
	}
	rt.Reach("fstreeget-end")
}
