package fstree

// C02 harness (file-tree backend): a query reads exactly the files whose key
// starts with the query's key prefix (the walk and the directory listing are
// the file-system stub; file contents are arbitrary).

import (
	"github.com/safing/portbase/database/query"
	"github.com/safing/portbase/database/record"
	rt "github.com/safing/portbase/zz_verifrt"
)

func VerifC02_FstreeQueryPrefix() {
	root := rt.Root("/r/db")
	fst := &FSTree{name: "t", basePath: root}
	// a key space with shared prefixes and path separators (prefix-free at
	// segment boundaries)
	files := []string{"a/b1", "a/b2", "a/x", "ab/y", "c", "d/e/f"}
	dirs := []string{"a", "ab", "d", "d/e"}
	for _, d := range dirs {
		rt.WalkEntry(root+"/"+d, true)
	}
	for _, f := range files {
		rt.WalkEntry(root+"/"+f, false)
	}
	if !rt.Symbolic() {
		// natively the records really exist
		for _, f := range files {
			w, _ := record.NewWrapper("t:"+f, &record.Meta{}, 'J', []byte("{}"))
			w.UpdateMeta()
			_, _ = fst.Put(w)
		}
	}
	// prefixes built from the same alphabet
	n := 3
	if rt.Thorough() {
		n = 4
	}
	prefix := rt.StrN("prefix", 0, n)
	for i := 0; i < len(prefix); i++ {
		c := prefix[i]
		rt.Assume(rt.Any(c == 'a', c == 'b', c == 'c', c == 'd', c == 'e', c == '/', c == '1', c == 'x'))
	}
	// prefixes that the backend turns into a path: no empty or dot segments
	for i := 0; i+1 < len(prefix); i++ {
		rt.Assume(!rt.All(prefix[i] == '/', prefix[i+1] == '/'))
	}
	rt.Assume(len(prefix) == 0 || prefix[0] != '/')
	rt.FsFaults(0)
	rt.WalkEntry(root, true)
	rt.FsStatFromWalk(true) // a path exists iff it is one of the entries above
	q := query.New("t:" + prefix)
	if _, err := q.Check(); err != nil {
		return
	}
	it, err := fst.Query(q, true, true)
	rt.Assert(err == nil, "fstreeprefix/query-ok")
	if err != nil {
		return
	}
	got := map[string]bool{}
	for r := range it.Next {
		got[r.DatabaseKey()] = true
	}
	// which files were read? (natively: which records were returned)
	read := map[string]bool{}
	if !rt.Symbolic() {
		for _, f := range files {
			read[root+"/"+f] = got[f]
		}
	}
	for i := 0; i < rt.FsLen(); i++ {
		if rt.FsOp(i) == "readfile" {
			read[rt.FsPath(i)] = true
		}
	}
	// a prefix below which nothing is stored - also one that names no existing
	// directory, or runs through a record - is an empty result, not an error
	// (with no record read, no record can have failed to load)
	anyRead := false
	for _, f := range files {
		anyRead = anyRead || read[root+"/"+f]
	}
	if !anyRead {
		rt.Assert(it.Err() == nil, "fstreeprefix/no-error-for-a-prefix-without-records")
	}
	walkFailed := it.Err() != nil
	for _, f := range files {
		matches := len(f) >= len(prefix) && rt.EqStr(f[:len(prefix)], prefix)
		if read[root+"/"+f] {
			rt.Assert(matches, "fstreeprefix/only-keys-with-the-prefix-are-read")
		} else if !walkFailed {
			rt.Assert(!matches, "fstreeprefix/every-key-with-the-prefix-is-read")
		}
	}
	rt.Reach("fstreeprefix-end")
}
