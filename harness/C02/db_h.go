package database

// C02 harness: Interface/Controller on the hashmap backend behave like one
// key -> record map with the visibility rule "deleted or expired => not found".

import (
	"context"
	"errors"
	"sync"
	"time"

	"github.com/safing/portbase/database/accessor"
	"github.com/safing/portbase/database/query"
	"github.com/safing/portbase/database/record"
	"github.com/safing/portbase/database/storage/hashmap"
	rt "github.com/safing/portbase/zz_verifrt"
)

type c02Rec struct {
	record.Base
	sync.Mutex
	N int64
}

type c02Acc struct{ r *c02Rec }

func (a *c02Acc) Get(key string) (interface{}, bool)       { return a.r.N, key == "N" }
func (a *c02Acc) GetString(key string) (string, bool)       { return "", false }
func (a *c02Acc) GetStringArray(key string) ([]string, bool) { return nil, false }
func (a *c02Acc) GetInt(key string) (int64, bool)           { return a.r.N, key == "N" }
func (a *c02Acc) GetFloat(key string) (float64, bool)       { return 0, false }
func (a *c02Acc) GetBool(key string) (bool, bool)           { return false, false }
func (a *c02Acc) Exists(key string) bool                    { return key == "N" }
func (a *c02Acc) Set(key string, value interface{}) error   { return errors.New("no") }
func (a *c02Acc) Type() string                              { return "verif" }

func (r *c02Rec) GetAccessor(self record.Record) accessor.Accessor { return &c02Acc{r} }

func c02Setup(shadowDelete bool) *Controller {
	initialized.Set()
	shuttingDown.UnSet()
	st, _ := hashmap.NewHashMap("t", "")
	c := newController(&Database{Name: "t", ShadowDelete: shadowDelete}, st, shadowDelete)
	controllersLock.Lock()
	controllers = map[string]*Controller{"t": c}
	controllersLock.Unlock()
	return c
}

// model entry
type c02Entry struct {
	n       int64
	expires int64
	deleted bool
	present bool
}

var c02Keys = []string{"a", "a/b", "ab", "b:c"}

func c02Visible(e c02Entry, now int64) bool {
	return rt.All(e.present, !e.deleted, rt.Any(e.expires == 0, e.expires >= now))
}

func VerifC02_MapModel() {
	if rt.Thorough() {
		c02MapModel(2, 1)
	} else {
		c02MapModel(1, 1)
	}
}

// histories of two operations (thorough tier only)
func VerifC02_MapModelHistory2() {
	if rt.Thorough() {
		c02MapModel(1, 2)
	} else {
		rt.Reach("model-end")
	}
}

func c02MapModel(maxPre, steps int) {
	rt.NoTimers()
	rt.SchedYieldOnly(true)
	shadow := rt.Bool("shadowdelete")
	c := c02Setup(shadow)
	db := NewInterface(&Options{Local: true, Internal: true})
	model := map[string]c02Entry{}
	now := time.Now().Unix()

	// pre-state: up to two stored records with symbolic metadata
	nPre := rt.Len("pre", 0, maxPre)
	for i := 0; i < nPre; i++ {
		tag := "pre" + string(rune('0'+i))
		key := c02Keys[rt.Choice(tag+".key", len(c02Keys))]
		r := &c02Rec{N: rt.I64(tag + ".N")}
		r.SetKey("t:" + key)
		r.UpdateMeta()
		exp := rt.Choice(tag+".expiry", 3) // none, past, future
		e := c02Entry{n: r.N, present: true}
		switch exp {
		case 1:
			r.Meta().Expires = now - 10
			e.expires = now - 10
		case 2:
			r.Meta().Expires = now + 1000
			e.expires = now + 1000
		}
		switch rt.Choice(tag+".deleted", 3) {
		case 1:
			r.Meta().Deleted = now - 5
			e.deleted = true
		case 2:
			// pending relative expiry (negative value): the record is visible
			r.Meta().Deleted = -60
		}
		_, _ = c.storage.Put(r)
		model[key] = e
	}

	for s := 0; s < steps; s++ {
		tag := "op" + string(rune('0'+s))
		key := c02Keys[rt.Choice(tag+".key", len(c02Keys))]
		e := model[key]
		vis := c02Visible(e, now)
		nOps := 10
		if steps > 1 {
			nOps = 8 // (histories of two operations: without the batch put and the relative expiry)
		}
		switch rt.Choice(tag, nOps) {
		case 9: // batch put of a live record, or of the deleted version of a record
			r := &c02Rec{N: rt.I64(tag + ".N")}
			r.SetKey("t:" + key)
			r.UpdateMeta()
			deleted := rt.Bool(tag + ".deleted")
			if deleted {
				r.Meta().Deleted = now - 1
			}
			put := db.PutMany("t")
			rt.Assert(put(r) == nil, "model/batch-put-accepted")
			rt.Assert(put(nil) == nil, "model/batch-finished-ok")
			model[key] = c02Entry{n: r.N, present: true, deleted: deleted}
		case 8: // relative expiry (60 s, or 0 = switch the self-updating expiry off): the record stays visible
			d := int64(60 * rt.Choice(tag+".ttl", 2))
			err := db.SetRelativateExpiry("t:"+key, d)
			if vis {
				rt.Assert(err == nil, "model/setrelativeexpiry-visible-ok")
				if st, serr := c.storage.Get(key); serr == nil {
					// the stored metadata records the new setting (a pending
					// relative expiry is a negative Deleted value)
					rt.Assert(st.Meta().Deleted == -d, "model/relative-expiry-setting-stored")
				}
			} else {
				rt.Assert(errors.Is(err, ErrNotFound), "model/setrelativeexpiry-invisible-is-not-found")
			}
		case 0: // get
			r, err := db.Get("t:" + key)
			if vis {
				rt.Assert(err == nil, "model/get-visible-record")
				if err == nil {
					rt.Assert(r.(*c02Rec).N == e.n, "model/get-returns-latest-data")
				}
			} else {
				rt.Assert(errors.Is(err, ErrNotFound), "model/get-invisible-is-not-found")
			}
		case 1: // exists
			ex, err := db.Exists("t:" + key)
			rt.Assert(err == nil, "model/exists-ok")
			rt.Assert(ex == vis, "model/exists-iff-visible")
		case 2, 3: // put / put-new
			r := &c02Rec{N: rt.I64(tag + ".N")}
			r.SetKey("t:" + key)
			var err error
			if rt.Choice(tag+".new", 2) == 1 {
				err = db.PutNew(r)
			} else {
				err = db.Put(r)
			}
			rt.Assert(err == nil, "model/put-ok")
			model[key] = c02Entry{n: r.N, present: true}
		case 4: // delete
			err := db.Delete("t:" + key)
			if vis {
				rt.Assert(err == nil, "model/delete-visible-ok")
				e.deleted = true
				model[key] = e
			} else {
				rt.Assert(errors.Is(err, ErrNotFound), "model/delete-invisible-is-not-found")
			}
		case 5: // absolute expiry
			past := rt.Bool(tag + ".past")
			at := now + 1000
			if past {
				at = now - 10
			}
			err := db.SetAbsoluteExpiry("t:"+key, at)
			if vis {
				rt.Assert(err == nil, "model/setexpiry-visible-ok")
				e.expires = at
				model[key] = e
			} else {
				rt.Assert(errors.Is(err, ErrNotFound), "model/setexpiry-invisible-is-not-found")
			}
		case 6: // maintenance never changes what is visible
			before := map[string]bool{}
			for _, k := range c02Keys {
				before[k] = c02Visible(model[k], now)
			}
			threshold := time.Unix(now-1000+int64(rt.Choice(tag+".threshold", 3))*1000, 0)
			rt.Assert(c.MaintainRecordStates(context.Background(), threshold) == nil, "model/maintenance-ok")
			for _, k := range c02Keys {
				_, err := db.Get("t:" + k)
				rt.Assert((err == nil) == before[k], "model/maintenance-keeps-visibility")
				// only deleted or expired records are physically removed
				if before[k] {
					_, serr := c.storage.Get(k)
					rt.Assert(serr == nil, "model/maintenance-removes-only-dead-records")
				}
			}
		case 7: // query by prefix (and optional condition)
			prefix := []string{"", "a", "a/", "b"}[rt.Choice(tag+".prefix", 4)]
			q := query.New("t:" + prefix)
			cond := rt.Bool(tag + ".cond")
			if cond {
				q.Where(query.Where("N", query.GreaterThan, 0))
			}
			it, err := db.Query(q)
			rt.Assert(err == nil, "model/query-ok")
			got := map[string]int{}
			for r := range it.Next {
				got[r.DatabaseKey()]++
			}
			rt.Assert(it.Err() == nil, "model/query-no-error")
			for _, k := range c02Keys {
				me := model[k]
				match := len(k) >= len(prefix) && k[:len(prefix)] == prefix
				want := rt.All(match, c02Visible(me, now), rt.Implies(cond, me.n > 0))
				rt.Assert((got[k] == 1) == want, "model/query-yields-exactly-visible-matching-records")
				rt.Assert(got[k] <= 1, "model/query-no-duplicates")
			}
		}
	}
	// final agreement on every key
	for _, k := range c02Keys {
		r, err := db.Get("t:" + k)
		e := model[k]
		if c02Visible(e, now) {
			rt.Assert(err == nil, "model/final-visible")
			if err == nil {
				rt.Assert(r.(*c02Rec).N == e.n, "model/final-data")
			}
		} else {
			rt.Assert(errors.Is(err, ErrNotFound), "model/final-not-found")
		}
	}
	rt.Reach("model-end")
}

// ---- an exclusively used read cache never serves a record past its expiry ----

func VerifC02_CachedExpiry() {
	rt.SchedYieldOnly(true)
	shadow := rt.Bool("shadowdelete")
	c := c02Setup(shadow)
	cached := NewInterface(&Options{Local: true, Internal: true, CacheSize: 4})
	now := time.Now().Unix()
	r := &c02Rec{N: 7}
	r.SetKey("t:a")
	r.UpdateMeta()
	// expiry: none, in the past, this very second, 1 or 2 seconds ahead
	var expires int64
	switch rt.Choice("expiry", 5) {
	case 1:
		expires = now - 10
	case 2:
		expires = now
	case 3:
		expires = now + 1
	case 4:
		expires = now + 2
	}
	// or: cached without an expiry, which is then set through the same interface
	setLater := rt.Bool("expiry-set-after-caching")
	if !setLater {
		r.Meta().Expires = expires
	}
	// the record enters the cache through a write or through a read
	if rt.Bool("viaPut") {
		rt.Assert(cached.Put(r) == nil, "cachedexpiry/put-ok")
		// Put refreshes the meta data but keeps the expiry
		if !setLater {
			rt.Assert(r.Meta().Expires == expires, "cachedexpiry/put-keeps-expiry")
		}
	} else {
		_, _ = c.storage.Put(r)
		_, _ = cached.Get("t:a")
	}
	if setLater && expires != 0 {
		err := cached.SetAbsoluteExpiry("t:a", expires)
		rt.Assert(err == nil, "cachedexpiry/setexpiry-ok")
	}
	// the clock advances between the operations (a cache entry with zero time
	// to live is dead only once the clock has moved on: on the frozen virtual
	// clock a read "at the same instant" would still see it)
	time.Sleep(time.Millisecond)
	wait := rt.Choice("wait", 4)
	time.Sleep(time.Duration(wait) * time.Second)
	now2 := time.Now().Unix()
	visible := rt.Any(expires == 0, expires >= now2)
	got, err := cached.Get("t:a")
	if visible {
		rt.Assert(err == nil, "cachedexpiry/visible-record-found")
		if err == nil {
			rt.Assert(got.(*c02Rec).N == 7, "cachedexpiry/data")
		}
	} else {
		rt.Assert(errors.Is(err, ErrNotFound), "cachedexpiry/expired-record-not-found-through-cache")
	}
	ex, err := cached.Exists("t:a")
	rt.Assert(err == nil, "cachedexpiry/exists-ok")
	rt.Assert(ex == visible, "cachedexpiry/exists-iff-visible")
	rt.Reach("cachedexpiry-end")
}

// ---- a storage error during a query (hashmap: the consumer stalls for more
// than a second with more matches than the stream buffers) is reported once
// the stream has ended: a truncated result is never taken for a complete one ----

func VerifC02_QueryErrorReported() {
	rt.SchedYieldOnly(true)
	c := c02Setup(false)
	db := NewInterface(&Options{Local: true, Internal: true})
	total := 10 + rt.Choice("extra", 4) // 10 records fit the stream buffer
	for i := 0; i < total; i++ {
		r := &c02Rec{N: int64(i)}
		r.SetKey("t:q/" + string(rune('a'+i)))
		r.UpdateMeta()
		_, _ = c.storage.Put(r)
	}
	it, err := db.Query(query.New("t:q/"))
	rt.Assert(err == nil, "queryerr/query-ok")
	if err != nil {
		return
	}
	// the consumer stalls
	stall := rt.Choice("stall", 2)
	if stall == 1 {
		time.Sleep(3 * time.Second)
	}
	count := 0
	for range it.Next {
		count++
	}
	rt.Assert(count <= total, "queryerr/no-more-than-stored")
	rt.Assert(count == total || it.Err() != nil, "queryerr/truncated-stream-reports-an-error")
	if stall == 0 {
		rt.Assert(count == total && it.Err() == nil, "queryerr/prompt-consumer-gets-everything")
	}
	rt.Reach("queryerr-end")
}

// ---- delayed write cache: gets through the caching interface always see the
// latest write; after a flush the storage (any other interface, queries) does ----

func VerifC02_DelayedWrites() {
	rt.NoTimers()
	rt.SchedYieldOnly(true)
	c02Setup(rt.Bool("shadowdelete"))
	// a small cache, and one so large that a few pending writes are below 1% of it
	size := []int{4, 256}[rt.Choice("cachesize", 2)]
	cached := NewInterface(&Options{Local: true, Internal: true, CacheSize: size, DelayCachedWrites: "t"})
	plain := NewInterface(&Options{Local: true, Internal: true})
	keys := []string{"a", "b"}
	type entry struct {
		present bool
		n       int64
	}
	model := map[string]entry{}
	steps := 3
	if rt.Thorough() {
		steps = 4
	}
	for s := 0; s < steps; s++ {
		tag := "op" + string(rune('0'+s))
		key := keys[rt.Choice(tag+".key", len(keys))]
		switch rt.Choice(tag, 4) {
		case 0: // put
			r := &c02Rec{N: rt.I64(tag + ".N")}
			r.SetKey("t:" + key)
			rt.Assert(cached.Put(r) == nil, "delayed/put-ok")
			model[key] = entry{true, r.N}
		case 1: // delete
			err := cached.Delete("t:" + key)
			if model[key].present {
				rt.Assert(err == nil, "delayed/delete-ok")
				model[key] = entry{}
			} else {
				rt.Assert(errors.Is(err, ErrNotFound), "delayed/delete-missing-is-not-found")
			}
		case 2: // get through the caching interface: always the latest write
			r, err := cached.Get("t:" + key)
			if model[key].present {
				rt.Assert(err == nil, "delayed/get-sees-latest-write")
				if err == nil {
					rt.Assert(r.(*c02Rec).N == model[key].n, "delayed/get-latest-data")
				}
			} else {
				rt.Assert(errors.Is(err, ErrNotFound), "delayed/get-missing-is-not-found")
			}
		case 3: // flush: now every interface and every query sees the writes
			cached.FlushCache()
			for _, k := range keys {
				r, err := plain.Get("t:" + k)
				if model[k].present {
					rt.Assert(err == nil, "delayed/flushed-write-visible-to-other-interfaces")
					if err == nil {
						rt.Assert(r.(*c02Rec).N == model[k].n, "delayed/flushed-data")
					}
				} else {
					rt.Assert(errors.Is(err, ErrNotFound), "delayed/flushed-delete-visible-to-other-interfaces")
				}
			}
			it, err := plain.Query(query.New("t:"))
			rt.Assert(err == nil, "delayed/query-ok")
			n := 0
			for range it.Next {
				n++
			}
			want := 0
			for _, k := range keys {
				if model[k].present {
					want++
				}
			}
			rt.Assert(n == want, "delayed/query-after-flush-yields-the-written-records")
			rt.Reach("delayed-flushed")
		}
	}
	rt.Reach("delayed-end")
}

// ---- batch writes and purges through an interface with an exclusively used
// read cache: the cache never serves what the batch write replaced or the
// purge removed ----

// c02PurgeStore: the hashmap backend plus a purge built from its own query and
// delete (the hashmap backend has none; the purging backends are third-party
// databases outside the encoder's reach).
type c02PurgeStore struct {
	*hashmap.HashMap
}

func (s *c02PurgeStore) Purge(ctx context.Context, q *query.Query, local, internal, shadowDelete bool) (int, error) {
	it, err := s.HashMap.Query(q, local, internal)
	if err != nil {
		return 0, err
	}
	var keys []string
	for r := range it.Next {
		keys = append(keys, r.DatabaseKey())
	}
	if it.Err() != nil {
		return 0, it.Err()
	}
	for _, k := range keys {
		_ = s.HashMap.Delete(k)
	}
	return len(keys), nil
}

func VerifC02_CachedBatchPurge() {
	rt.SchedYieldOnly(true)
	initialized.Set()
	shuttingDown.UnSet()
	st, _ := hashmap.NewHashMap("t", "")
	store := &c02PurgeStore{st.(*hashmap.HashMap)}
	ctl := newController(&Database{Name: "t"}, store, false)
	controllersLock.Lock()
	controllers = map[string]*Controller{"t": ctl}
	controllersLock.Unlock()

	opts := &Options{Local: true, Internal: true, CacheSize: 4}
	delayed := rt.Bool("delayed-writes")
	if delayed {
		opts.DelayCachedWrites = "t"
	}
	cached := NewInterface(opts)
	plain := NewInterface(&Options{Local: true, Internal: true})

	// t:a enters the cache through a write or a read; t:b is only stored
	a := &c02Rec{N: 1}
	a.SetKey("t:a")
	if rt.Bool("viaPut") {
		rt.Assert(cached.Put(a) == nil, "cachedbatch/put-ok")
	} else {
		rt.Assert(plain.Put(a) == nil, "cachedbatch/plain-put-ok")
		_, err := cached.Get("t:a")
		rt.Assert(err == nil, "cachedbatch/first-get-ok")
	}
	b := &c02Rec{N: 2}
	b.SetKey("t:b")
	rt.Assert(plain.Put(b) == nil, "cachedbatch/plain-put-b-ok")

	wantA, presentA, presentB := int64(1), true, true
	switch rt.Choice("op", 3) {
	case 0: // batch write of a new version of t:a
		a2 := &c02Rec{N: rt.I64("N2")}
		a2.SetKey("t:a")
		put := cached.PutMany("t")
		rt.Assert(put(a2) == nil, "cachedbatch/batch-put-accepted")
		rt.Assert(put(nil) == nil, "cachedbatch/batch-finished")
		wantA = a2.N
	case 1: // purge of everything below t:a
		n, err := cached.Purge(context.Background(), query.New("t:a"))
		rt.Assert(err == nil, "cachedbatch/purge-ok")
		rt.Assert(n == 1, "cachedbatch/purge-count")
		presentA = false
	case 2: // purge of the whole database
		n, err := cached.Purge(context.Background(), query.New("t:"))
		rt.Assert(err == nil, "cachedbatch/purge-all-ok")
		rt.Assert(n == 2, "cachedbatch/purge-all-count")
		presentA, presentB = false, false
	}
	if delayed && rt.Bool("flush") {
		cached.FlushCache()
	}

	for _, iface := range []*Interface{cached, plain} {
		if iface == plain && delayed {
			// other interfaces see delayed writes only after a flush
			cached.FlushCache()
		}
		got, err := iface.Get("t:a")
		if presentA {
			rt.Assert(err == nil, "cachedbatch/latest-write-found")
			if err == nil {
				rt.Assert(got.(*c02Rec).N == wantA, "cachedbatch/get-returns-latest-write")
			}
		} else {
			rt.Assert(errors.Is(err, ErrNotFound), "cachedbatch/purged-record-not-found")
			ex, err := iface.Exists("t:a")
			rt.Assert(err == nil, "cachedbatch/exists-ok")
			rt.Assert(!ex, "cachedbatch/purged-record-does-not-exist")
		}
		_, err = iface.Get("t:b")
		if presentB {
			rt.Assert(err == nil, "cachedbatch/untouched-record-found")
		} else {
			rt.Assert(errors.Is(err, ErrNotFound), "cachedbatch/purged-b-not-found")
		}
	}
	rt.Reach("cachedbatch-end")
}

// ---- a query running while a stored record is written again (G2: one
// preemption at any synchronisation operation): both finish, the query yields
// the record ----

// c02SlowRec: natively its lock is held for a moment, so that the other
// goroutine reaches its own locks in the meantime.
type c02SlowRec struct {
	c02Rec
	pauseAt int // natively: the n-th Lock call signals and pauses (0 = never)
	locks   int
	locked  chan struct{}
}

func (r *c02SlowRec) Lock() {
	r.c02Rec.Lock()
	if r.pauseAt > 0 && !rt.Symbolic() {
		r.locks++
		if r.locks == r.pauseAt {
			close(r.locked)
			rt.NativePause()
		}
	}
}

func VerifC02_QueryDuringRewrite() {
	rt.NoTimers()
	rt.SchedYieldOnly(true)
	rt.Preemptions(1)
	ctl := c02Setup(rt.Bool("shadowdelete"))
	iface := NewInterface(&Options{Local: true, Internal: true})
	a := &c02SlowRec{}
	a.N = 1
	a.SetKey("t:a")
	rt.Assert(iface.Put(a) == nil, "rewrite/put-ok")
	// the other side: a query, or record maintenance finding the record expired
	maintain := rt.Bool("maintenance")
	if maintain {
		a.Meta().Expires = time.Now().Unix() - 10
	}
	done := make(chan error, 1)
	op := rt.Choice("op", 3)
	if maintain {
		op = 0 // (the other operations do not find an expired record)
	}
	// the lock under which the record is handed to the storage: the second one in Put
	a.locked = make(chan struct{})
	a.pauseAt = 1
	if op == 0 {
		a.pauseAt = 2
	}
	go func() {
		// the stored record (the same object, as Get returns it) is written again
		switch op {
		case 0:
			done <- iface.Put(a)
		case 1:
			done <- iface.SetAbsoluteExpiry("t:a", time.Now().Unix()+100)
		default:
			done <- iface.MakeCrownJewel("t:a")
		}
	}()
	if !rt.Symbolic() {
		<-a.locked // natively: the writer holds the record's lock by now
	}
	if maintain {
		// maintenance marks the expired record (shadow delete) or removes it
		rt.Assert(ctl.MaintainRecordStates(context.Background(), time.Now()) == nil, "rewrite/maintenance-ok")
	} else {
		it, err := iface.Query(query.New("t:"))
		rt.Assert(err == nil, "rewrite/query-ok")
		n := 0
		for range it.Next {
			n++
		}
		rt.Assert(it.Err() == nil, "rewrite/query-finished-without-error")
		rt.Assert(n == 1, "rewrite/query-yields-the-record")
	}
	werr := <-done // a deadlock of the two shows here
	if !maintain {
		rt.Assert(werr == nil, "rewrite/write-ok")
	}
	a.pauseAt = 0
	rt.Reach("rewrite-end")
}
