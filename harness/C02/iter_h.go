package iterator

// C02 harness (iterator clause): a storage error handed to Finish is seen by a
// consumer that reads Err() after the result stream has ended - for every
// interleaving of producer and consumer (preemption bound 2).

import (
	"errors"

	rt "github.com/safing/portbase/zz_verifrt"
)

func VerifC02_IteratorErrorHandOver() {
	rt.NoTimers()
	rt.Preemptions(2)
	it := New()
	storageErr := errors.New("storage failed")
	go func() {
		it.Finish(storageErr)
	}()
	// consumer: drain, then ask for the error
	for range it.Next {
	}
	rt.Assert(it.Err() == storageErr, "iterator/error-visible-once-stream-ended")
	rt.Reach("iterator-end")
}

func VerifC02_IteratorCancel() {
	rt.NoTimers()
	rt.Preemptions(2)
	it := New()
	go it.Cancel()
	go it.Finish(nil)
	<-it.Done
	for range it.Next {
	}
	rt.Assert(it.Err() == nil, "iterator/no-error-after-clean-finish")
	// cancel twice / finish after cancel never panics (close of closed channel)
	it.Cancel()
	rt.Reach("iteratorcancel-end")
}
