package modules

// C06 harnesses: a panic in managed code is contained, reported and leaves
// accounting intact.

import (
	"container/list"
	"context"

	"sync/atomic"
	"time"

	rt "github.com/safing/portbase/zz_verifrt"
)

type c06Struct struct{ A int }

// an error value that is slow to format natively: the recovering code spends
// time between recovering and delivering the error
type c06SlowErr struct{}

func (c06SlowErr) Error() string {
	rt.NativePause()
	return "boom"
}

// panicValue: one of error, string, runtime error, arbitrary struct, nil
func c06Panic(kind int) {
	switch kind {
	case 0:
		panic(error(c06SlowErr{}))
	case 1:
		panic("boom")
	case 2:
		var s []int
		_ = s[3] // index out of range
	case 3:
		panic(c06Struct{7})
	case 4:
		panic(nil)
	case 5: // an error value that other code compares against
		panic(error(context.Canceled))
	case 6:
		panic(error(c06Wrap{context.Canceled}))
	case 7:
		panic(error(c06Wrap{ErrRestartNow}))
	case 8: // an error interface holding a nil pointer whose Error method dereferences it
		var e *c06PtrErr
		panic(error(e))
	case 9: // an error object of the module system itself (not a panic report)
		panic(c06Other.NewErrorMessage("inner", context.Canceled))
	case 10: // the error of a nested worker passed on as a panic
		panic(c06Other.NewInfoMessage("something happened"))
	}
}

// another module, whose error objects are used as panic values
var c06Other = &Module{Name: "other"}

const c06Kinds = 11

type c06PtrErr struct{ msg string }

func (e *c06PtrErr) Error() string { return e.msg }

// an error wrapping another one
type c06Wrap struct{ err error }

func (w c06Wrap) Error() string { return "wrapped" }
func (w c06Wrap) Unwrap() error { return w.err }

func c06Module() (*Module, chan *ModuleError) {
	SetStdErrReporting(false)
	lastReportedError = nil
	ch := make(chan *ModuleError, 8)
	SetErrorReportingChannel(ch)
	m := initNewModule("m", nil, nil, nil)
	m.status = StatusOnline
	close(m.startComplete)
	return m, ch
}

func c06CheckReported(ch chan *ModuleError, tag string) {
	rt.Assert(len(ch) >= 1, tag+"/reported-through-channel")
	last := GetLastReportedError()
	rt.Assert(last != nil, tag+"/last-reported-error-set")
	if last != nil {
		rt.Assert(last.Severity == "panic", tag+"/severity-panic")
		rt.Assert(last.StackTrace != "", tag+"/stack-trace-set")
		rt.Assert(last.ModuleName == "m", tag+"/module-name")
	}
}

func VerifC06_Worker() {
	rt.SchedYieldOnly(true)
	m, ch := c06Module()
	kind := rt.Choice("panic", c06Kinds)
	blocking := rt.Bool("blocking")
	pre := atomic.LoadInt32(m.workerCnt)
	fn := func(ctx context.Context) error {
		c06Panic(kind)
		return nil
	}
	if blocking {
		err := m.RunWorker("w", fn)
		isPanic, me := IsPanic(err)
		rt.Assert(isPanic, "worker/error-identifies-as-panic")
		if isPanic {
			rt.Assert(me.Severity == "panic", "worker/severity")
			if kind != 4 {
				rt.Assert(me.PanicValue != nil, "worker/panic-value-set")
			}
			rt.Assert(me.StackTrace != "", "worker/stack-trace")
		}
	} else {
		m.StartWorker("w", fn)
		time.Sleep(time.Millisecond) // quiesce: fires when everything else has blocked or ended
	}
	c06CheckReported(ch, "worker")
	rt.Assert(atomic.LoadInt32(m.workerCnt) == pre, "worker/counter-restored")
	rt.Reach("worker-end")
}

func VerifC06_ServiceWorker() {
	rt.SchedYieldOnly(true)
	m, ch := c06Module()
	kind := rt.Choice("panic", c06Kinds)
	// with module management on, the module may be enabled directly, as a
	// dependency only, or already switched off but not yet stopped by a
	// management pass: as long as it is online and not stopping, its service
	// workers are restarted
	mgmt := rt.Choice("management", 4)
	moduleMgmtEnabled.SetTo(mgmt > 0)
	m.enabled.SetTo(mgmt == 1)
	m.enabledAsDependency.SetTo(mgmt == 2)
	defer moduleMgmtEnabled.UnSet()
	runs := 0
	m.StartServiceWorker("sw", time.Millisecond, func(ctx context.Context) error {
		runs++
		if runs == 1 {
			c06Panic(kind)
		}
		<-ctx.Done()
		return nil
	})
	// let it run, fail, back off (virtual timer) and restart
	time.Sleep(10 * time.Millisecond)
	rt.Assert(runs == 2, "serviceworker/restarted-after-panic")
	c06CheckReported(ch, "serviceworker")
	rt.Assert(atomic.LoadInt32(m.workerCnt) == 1, "serviceworker/still-counted-once")
	// the module can still be stopped
	reports := make(chan *report)
	m.stop(reports)
	rep := <-reports
	rt.Assert(rep.err == nil, "serviceworker/stop-ok")
	rt.Assert(m.Status() == StatusOffline, "serviceworker/offline-after-stop")
	rt.Assert(atomic.LoadInt32(m.workerCnt) == 0, "serviceworker/counter-zero-after-stop")
	rt.Reach("serviceworker-end")
}

func VerifC06_MicroTask() {
	rt.NoTimers()
	rt.SchedYieldOnly(true)
	m, ch := c06Module()
	atomic.StoreInt32(microTasks, 0)
	kind := rt.Choice("panic", c06Kinds)
	err := m.RunHighPriorityMicroTask("mt", func(ctx context.Context) error {
		c06Panic(kind)
		return nil
	})
	isPanic, me := IsPanic(err)
	rt.Assert(isPanic, "microtask/error-identifies-as-panic")
	if isPanic {
		rt.Assert(me.TaskType == "microtask", "microtask/task-type")
	}
	c06CheckReported(ch, "microtask")
	rt.Assert(atomic.LoadInt32(m.microTaskCnt) == 0, "microtask/module-counter-restored")
	rt.Assert(atomic.LoadInt32(microTasks) == 0, "microtask/global-counter-restored")
	rt.Reach("microtask-end")
}

func VerifC06_Task() {
	rt.SchedYieldOnly(true)
	m, ch := c06Module()
	kind := rt.Choice("panic", c06Kinds)
	runs := 0
	t := m.NewTask("t", func(ctx context.Context, t *Task) error {
		runs++
		if runs == 1 {
			c06Panic(kind)
		}
		return nil
	}).MaxDelay(0)
	// run the task the way the queue handler does: take the submitted task
	// from the queue, then runWithLocking
	taskQueue = list.New()
	prioritizedTaskQueue = list.New()
	taskSchedule = list.New()
	runNext := func() {
		t.Queue()
		queuesLock.Lock()
		e := taskQueue.Front()
		taskQueue.Remove(e)
		queuesLock.Unlock()
		e.Value.(*Task).runWithLocking()
	}
	go func() {
		for {
			taskTimeslot <- struct{}{}
		}
	}()
	runNext()
	queueWg.Wait()
	c06CheckReported(ch, "task")
	rt.Assert(atomic.LoadInt32(m.taskCnt) == 0, "task/counter-restored")
	t.lock.Lock()
	rt.Assert(!t.executing, "task/not-marked-executing")
	rt.Assert(!t.canceled, "task/not-cancelled")
	t.lock.Unlock()
	// the panicked task can run again
	runNext()
	queueWg.Wait()
	t.lock.Lock() // (the run's clean-up holds the task's lock until it is done)
	t.lock.Unlock()
	rt.Assert(runs == 2, "task/can-run-again")
	rt.Assert(atomic.LoadInt32(m.taskCnt) == 0, "task/counter-restored-after-the-second-run")
	rt.Reach("task-end")
}

func VerifC06_Lifecycle() {
	rt.NoTimers()
	rt.SchedYieldOnly(true)
	// one preemption at any synchronisation operation (G2): the goroutine
	// waiting for the routine may run between the routine's finish signal and
	// the delivery of its error
	if rt.Thorough() {
		rt.Preemptions(2)
	} else {
		rt.Preemptions(1)
	}
	SetStdErrReporting(false)
	modules = make(map[string]*Module)
	modulesLocked.UnSet()
	moduleMgmtEnabled.UnSet()
	shutdownFlag.UnSet()
	ch := make(chan *ModuleError, 8)
	SetErrorReportingChannel(ch)
	phase := rt.Choice("phase", 3)
	kind := rt.Choice("panic", c06Kinds)
	// the start routine may have launched a (healthy) worker before it panics:
	// the worker ends when the failed start cancels the module's context
	withWorker := phase == 1 && rt.Bool("start-routine-launched-a-worker")
	workerEnded := make(chan struct{})
	cb := func(p int) func() error {
		return func() error {
			if p == 1 && withWorker {
				modules["m"].StartWorker("healthy", func(ctx context.Context) error {
					<-ctx.Done()
					close(workerEnded)
					return nil
				})
			}
			if p == phase {
				c06Panic(kind)
			}
			return nil
		}
	}
	// the module with the panicking routine may depend on a healthy module (which
	// is prepared and started before it and stopped after it) and have a healthy
	// dependent (the other way round)
	healthyBase, healthyTop := rt.Bool("healthy-dependency"), rt.Bool("healthy-dependent")
	ok := func() error { return nil }
	var deps []string
	if healthyBase {
		Register("base", ok, ok, ok)
		deps = []string{"base"}
	}
	m := Register("m", cb(0), cb(1), cb(2), deps...)
	if healthyTop {
		Register("top", ok, ok, ok, "m")
	}
	_ = initDependencies()
	err := prepareModules()
	if phase == 0 {
		rt.Assert(err != nil, "lifecycle/prep-panic-returns-error")
		rt.Assert(len(ch) >= 1, "lifecycle/prep-panic-reported")
		rt.Reach("lifecycle-prep")
		return
	}
	rt.Assert(err == nil, "lifecycle/prep-ok")
	err = startModules()
	if phase == 1 {
		rt.Assert(err != nil, "lifecycle/start-panic-returns-error")
		rt.Assert(len(ch) >= 1, "lifecycle/start-panic-reported")
		shutdownFlag.Set()
		_ = stopModules()
		rt.Assert(m.Status() != StatusOnline, "lifecycle/not-online-after-failed-start-and-shutdown")
		if withWorker {
			// the failed start cancelled the module's context: the worker
			// comes to its end (or this wait is reported as a deadlock), and
			// its bookkeeping must not crash the process
			<-workerEnded
			for i := 0; i < 2; i++ {
				y := make(chan struct{})
				go func() { y <- struct{}{} }()
				<-y
			}
			rt.Reach("lifecycle-worker-of-the-failed-start-ended")
		}
		rt.Reach("lifecycle-start")
		return
	}
	rt.Assert(err == nil, "lifecycle/start-ok")
	shutdownFlag.Set()
	err = stopModules()
	rt.Assert(err != nil, "lifecycle/stop-panic-returns-error")
	rt.Assert(len(ch) >= 1, "lifecycle/stop-panic-reported")
	rt.Assert(m.Status() == StatusOffline, "lifecycle/offline-after-panicking-stop")
	rt.Reach("lifecycle-stop")
}

// a panicking item next to healthy ones (G1): the healthy ones are unaffected
func VerifC06_AmongHealthy() {
	rt.SchedYieldOnly(true)
	if rt.Thorough() {
		rt.Preemptions(1)
	}
	m, ch := c06Module()
	kind := rt.Choice("panic", c06Kinds)
	pos := rt.Choice("pos", 3)
	done := 0
	for i := 0; i < 3; i++ {
		i := i
		m.StartWorker("w", func(ctx context.Context) error {
			rt.Yield()
			if i == pos {
				c06Panic(kind)
			}
			done++
			return nil
		})
	}
	time.Sleep(time.Millisecond)
	rt.Assert(done == 2, "among/healthy-items-complete")
	rt.Assert(len(ch) == 1, "among/exactly-one-report")
	rt.Assert(atomic.LoadInt32(m.workerCnt) == 0, "among/counter-zero")
	rt.Reach("among-end")
}

// a lifecycle routine panicking during a management pass: contained, reported,
// and the pass returns an error (also when the other phase of the pass succeeds)
func VerifC06_ManagementPass() {
	rt.NoTimers()
	rt.SchedYieldOnly(true)
	if rt.Thorough() {
		rt.Preemptions(1)
	}
	SetStdErrReporting(false)
	modules = make(map[string]*Module)
	modulesLocked.UnSet()
	moduleMgmtEnabled.UnSet()
	shutdownFlag.UnSet()
	ch := make(chan *ModuleError, 8)
	SetErrorReportingChannel(ch)
	kind := rt.Choice("panic", c06Kinds)
	panicInStop := rt.Bool("panic-in-stop")
	armed := false
	victim := Register("victim", nil, func() error {
		if armed && !panicInStop {
			c06Panic(kind)
		}
		return nil
	}, func() error {
		if armed && panicInStop {
			c06Panic(kind)
		}
		return nil
	})
	healthy := Register("healthy", nil, func() error { return nil }, func() error { return nil })
	moduleMgmtEnabled.Set()
	rt.Assert(initDependencies() == nil && prepareModules() == nil, "mgmtpass/setup")
	// first pass: the module whose stop will panic is online
	victim.SetEnabled(panicInStop)
	healthy.SetEnabled(!panicInStop)
	rt.Assert(ManageModules() == nil, "mgmtpass/first-pass-ok")
	// second pass: the victim is stopped (or started) and panics; the other
	// module is started (or stopped) successfully in the same pass
	armed = true
	victim.SetEnabled(!panicInStop)
	healthy.SetEnabled(panicInStop)
	err := ManageModules()
	rt.Assert(err != nil, "mgmtpass/panic-returns-error")
	rt.Assert(len(ch) >= 1, "mgmtpass/panic-reported")
	rt.Assert(victim.Status() != StatusOnline, "mgmtpass/panicked-module-not-online")
	armed = false
	shutdownFlag.Set()
	_ = stopModules()
	rt.Reach("mgmtpass-end")
}
