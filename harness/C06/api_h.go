package api

// C06 harness (HTTP API): a panic in a request handler - before or after it
// started its response - does not escape the main handler, is reported
// through the module error channel as a panic carrying the value, and the
// request is answered.

import (
	"context"
	"errors"
	"net/http"
	"net/url"

	"github.com/gorilla/mux"
	"github.com/safing/portbase/modules"
	rt "github.com/safing/portbase/zz_verifrt"
	"github.com/tevino/abool"
)

var c06Route http.Handler

// VerifModel_mux_Router_Match replaces (*mux.Router).Match under the engine.
func VerifModel_mux_Router_Match(_ *mux.Router, _ *http.Request, match *mux.RouteMatch) bool {
	match.Handler = c06Route
	return c06Route != nil
}

type c06RW struct {
	h     http.Header
	codes []int
	wrote int
}

func (w *c06RW) Header() http.Header         { return w.h }
func (w *c06RW) Write(b []byte) (int, error) { w.wrote++; return len(b), nil }
func (w *c06RW) WriteHeader(code int)        { w.codes = append(w.codes, code) }

type c06PanicValue struct{ n int }

type c06Handler struct {
	stage int // how far the response got before the panic
	kind  int // panic value
}

func (h *c06Handler) ReadPermission(*http.Request) Permission  { return PermitAnyone }
func (h *c06Handler) WritePermission(*http.Request) Permission { return PermitAnyone }
func (h *c06Handler) ServeHTTP(w http.ResponseWriter, r *http.Request) {
	switch h.stage {
	case 1:
		_, _ = w.Write([]byte("partial"))
	case 2:
		w.WriteHeader(http.StatusOK)
	case 3:
		w.WriteHeader(http.StatusOK)
		_, _ = w.Write([]byte("partial"))
	case 4:
		w.WriteHeader(http.StatusAccepted)
	case 5:
		http.Error(w, "went wrong", http.StatusBadRequest)
	}
	switch h.kind {
	case 0:
		panic(errors.New("handler failed badly"))
	case 1:
		panic("handler string panic")
	case 2:
		var s []int
		_ = s[h.stage+7] // runtime error
	case 4: // error values that other code gives a special meaning
		panic(http.ErrAbortHandler)
	case 5:
		panic(error(c06WrapErr{http.ErrAbortHandler}))
	case 6:
		panic(error(c06WrapErr{context.Canceled}))
	case 7:
		panic(nil)
	default:
		panic(c06PanicValue{42})
	}
}

type c06WrapErr struct{ err error }

func (w c06WrapErr) Error() string { return "wrapped" }
func (w c06WrapErr) Unwrap() error { return w.err }

func VerifC06_APIHandlerPanic() {
	modules.SetStdErrReporting(false)
	// globals normally set by the package's start routine
	dev := rt.Bool("devmode")
	devMode = func() bool { return dev }
	if ErrAPIAccessDeniedMessage == nil {
		ErrAPIAccessDeniedMessage = errors.New("")
	}
	if authFnSet == nil {
		authFnSet = abool.New()
	}
	if rt.Symbolic() {
		// (net/http's package init is not executed by the engine)
		http.ErrAbortHandler = errors.New("net/http: abort Handler")
	}
	ch := make(chan *modules.ModuleError, 8)
	modules.SetErrorReportingChannel(ch)
	h := &c06Handler{stage: rt.Choice("stage", 6), kind: rt.Choice("kind", 8)}
	mh := &mainHandler{}
	if rt.Symbolic() {
		mh.mux = &mux.Router{}
		c06Route = h
	} else {
		mh.mux = mux.NewRouter()
		mh.mux.Handle("/api/v1/thing", h)
	}
	method := []string{"GET", "POST"}[rt.Choice("method", 2)]
	r := &http.Request{Method: method, Header: http.Header{}, Host: "app.local:817", RemoteAddr: "192.0.2.1:1234"}
	r.URL = &url.URL{Path: "/api/v1/thing"}
	r.RequestURI = "/api/v1/thing"
	r = r.WithContext(context.Background())
	w := &c06RW{h: http.Header{}}

	err := mh.handle(w, r) // an escaping panic is a violation
	rt.Assert(err == nil, "apipanic/no-internal-error")

	rt.Assert(len(ch) == 1, "apipanic/reported-through-the-module-error-channel-once")
	if len(ch) >= 1 {
		me := <-ch
		isPanic, _ := modules.IsPanic(me)
		rt.Assert(isPanic, "apipanic/identifies-itself-as-a-panic")
		rt.Assert(me.Severity == "panic", "apipanic/severity-panic")
		rt.Assert(me.StackTrace != "", "apipanic/carries-a-stack-trace")
		if h.kind != 7 {
			rt.Assert(me.PanicValue != nil, "apipanic/carries-the-panic-value")
		}
		if h.kind == 1 {
			s, ok := me.PanicValue.(string)
			rt.Assert(ok && s == "handler string panic", "apipanic/panic-value-is-the-one-raised")
		}
	}
	// the request is answered: a response that had not begun gets a 500
	if h.stage == 0 {
		rt.Assert(len(w.codes) == 1 && w.codes[0] == 500, "apipanic/unanswered-request-gets-500")
	}
	rt.Reach("apipanic-end")
}
