package updater

// C19 harnesses: version selection, blacklisting and purge against the
// documented order. Versions are real semver objects with concrete numbers
// (the order among them is chosen by the harness), all flags are symbolic.

import (
	"github.com/safing/portbase/utils"
	rt "github.com/safing/portbase/zz_verifrt"
)

func c19Registry(storage string) *ResourceRegistry {
	reg := &ResourceRegistry{Name: "t", resources: make(map[string]*Resource)}
	reg.storageDir = utils.NewDirStructure(storage, 0o755)
	reg.tmpDir = reg.storageDir.ChildDir("tmp", 0o700)
	reg.Online = rt.Bool("online")
	reg.DevMode = rt.Bool("devmode")
	reg.UsePreReleases = rt.Bool("usepre")
	return reg
}

var c19Numbers = []string{"0", "1.0.1", "1.0.2", "1.0.3", "1.0.4", "1.0.5", "1.0.6"}

// addVersion appends a version with the given rank (0 = dev version 0.0.0)
// and symbolic flags, bypassing AddVersion's file-system probing.
func addVersion(res *Resource, rank int, tag string) *ResourceVersion {
	if err := res.AddVersion(c19Numbers[rank], false, false, false); err != nil {
		rt.Assert(false, "setup/addversion")
	}
	rv := res.Versions[len(res.Versions)-1]
	rv.Available = rt.Bool(tag + ".available")
	rv.PreRelease = rt.Bool(tag + ".prerelease")
	rv.Blacklisted = rt.Bool(tag + ".blacklisted")
	return rv
}

func rankOf(rv *ResourceVersion) int {
	for i, n := range c19Numbers {
		if i == 0 {
			if rv.VersionNumber == "0.0.0" {
				return 0
			}
			continue
		}
		if rv.VersionNumber == n {
			return i
		}
	}
	return -1
}

// reference: versions ordered newest first
func newestFirst(vs []*ResourceVersion) []*ResourceVersion {
	out := append([]*ResourceVersion{}, vs...)
	for i := 0; i < len(out); i++ {
		for j := i + 1; j < len(out); j++ {
			if rankOf(out[j]) > rankOf(out[i]) {
				out[i], out[j] = out[j], out[i]
			}
		}
	}
	return out
}

// ---- fork-free reference (symbolic flags are never branched on) ----

func b2u(b bool) uint64 { return rt.IteU64(b, 1, 0) }

func refSelectable(res *Resource, rv *ResourceVersion) bool {
	auto := false
	if res.Index != nil {
		auto = res.Index.AutoDownload
	}
	return rt.All(!rv.Blacklisted, rt.Any(rv.Available, rt.All(res.registry.Online, auto)))
}

const none = ^uint64(0)

// firstWhere returns the index of the first true entry (none if there is none).
func firstWhere(conds []bool) uint64 {
	r := none
	for i := len(conds) - 1; i >= 0; i-- {
		r = rt.IteU64(conds[i], uint64(i), r)
	}
	return r
}

// refSelectIdx returns the index (into vs, newest first) the documented order
// prescribes.
func refSelectIdx(res *Resource, vs []*ResourceVersion) uint64 {
	n := len(vs)
	devOK := make([]bool, n)
	curSel := make([]bool, n)
	anySel := make([]bool, n)
	stableSel := make([]bool, n)
	for i, rv := range vs {
		devOK[i] = rt.All(res.registry.DevMode, rankOf(rv) == 0, rv.Available)
		curSel[i] = rt.All(rv.CurrentRelease, refSelectable(res, rv))
		anySel[i] = rt.All(res.registry.UsePreReleases, refSelectable(res, rv))
		stableSel[i] = rt.All(!rv.PreRelease, refSelectable(res, rv))
	}
	r := uint64(0) // last resort: newest version
	if s := firstWhere(stableSel); true {
		r = rt.IteU64(s != none, s, r)
	}
	if s := firstWhere(anySel); true {
		r = rt.IteU64(s != none, s, r)
	}
	if s := firstWhere(curSel); true {
		r = rt.IteU64(s != none, s, r)
	}
	if s := firstWhere(devOK); true {
		r = rt.IteU64(s != none, s, r)
	}
	return r
}

func indexIn(vs []*ResourceVersion, rv *ResourceVersion) uint64 {
	for i, x := range vs {
		if x == rv {
			return uint64(i)
		}
	}
	return none
}

// buildResource creates n versions with distinct ranks in a harness-chosen
// insertion order.
func buildResource(n int, withDev bool) *Resource {
	reg := c19Registry("/s/updates")
	res := reg.newResource("a/b.zip")
	switch rt.Choice("index", 3) {
	case 1:
		res.Index = &Index{AutoDownload: false}
	case 2:
		res.Index = &Index{AutoDownload: true}
	}
	// ranks: either {1..n} or (with a dev version) {0..n-1}; insertion order is
	// one of: ascending, descending, rotated (selectVersion must sort)
	lo := 1
	if withDev && n > 0 && rt.Bool("hasdev") {
		lo = 0
	}
	ord := rt.Choice("order", 3)
	for i := 0; i < n; i++ {
		var r int
		switch ord {
		case 0:
			r = lo + i
		case 1:
			r = lo + n - 1 - i
		default:
			r = lo + (i+1)%n
		}
		addVersion(res, r, "v"+string(rune('0'+i)))
	}
	// at most one current release
	cur := rt.Choice("current", n+1)
	if cur < n {
		res.Versions[cur].CurrentRelease = true
	}
	return res
}

func VerifC19_SelectVersion() {
	n := 2
	if rt.Thorough() {
		n = 3
	}
	res := buildResource(rt.Len("n", 0, n), true)
	order := newestFirst(res.Versions)
	res.selectVersion()
	if len(order) == 0 {
		rt.Assert(res.SelectedVersion == nil, "select/empty-selects-nothing")
		rt.Reach("select-empty")
		return
	}
	want := refSelectIdx(res, order)
	rt.Observe("selected", indexIn(order, res.SelectedVersion))
	rt.ObserveStr("selected-version", res.SelectedVersion.VersionNumber)
	rt.Assert(indexIn(order, res.SelectedVersion) == want, "select/matches-documented-order")
	// sorted newest first afterwards
	for i := 0; i+1 < len(res.Versions); i++ {
		rt.Assert(rankOf(res.Versions[i]) > rankOf(res.Versions[i+1]), "select/sorted-newest-first")
	}
	// outside dev mode a blacklisted version is selected only as last resort
	s := res.SelectedVersion
	lastResort := true
	for _, rv := range order {
		// nothing is selectable in the enabled classes
		lastResort = rt.All(lastResort, rt.Any(!refSelectable(res, rv), rt.All(rv.PreRelease, !res.registry.UsePreReleases, !rv.CurrentRelease)))
	}
	rt.Assert(rt.Implies(rt.All(s.Blacklisted, !res.registry.DevMode), rt.All(lastResort, s == order[0])), "select/blacklisted-only-as-last-resort")
	rt.Reach("select-end")
}

func VerifC19_Blacklist() {
	n := 2
	if rt.Thorough() {
		n = 3
	}
	res := buildResource(rt.Len("n", 1, n), true)
	target := res.Versions[rt.Choice("target", len(res.Versions))]
	valid := uint64(0)
	for _, rv := range res.Versions {
		valid += b2u(rt.All(rankOf(rv) != 0, !rv.Blacklisted))
	}
	wasBlacklisted := target.Blacklisted
	err := res.Blacklist(target.VersionNumber)
	rt.ObserveBool("refused", err != nil)
	rt.Observe("selected", indexIn(newestFirst(res.Versions), res.SelectedVersion))
	rt.Assert((err != nil) == (valid <= 1), "blacklist/refused-iff-last-valid-version")
	if err != nil {
		rt.Assert(target.Blacklisted == wasBlacklisted, "blacklist/refused-leaves-flag")
		rt.Reach("blacklist-refused")
		return
	}
	rt.Assert(target.Blacklisted, "blacklist/marked")
	order := newestFirst(res.Versions)
	rt.Assert(indexIn(order, res.SelectedVersion) == refSelectIdx(res, order), "blacklist/reselected-per-documented-order")
	rt.Reach("blacklist-end")
}

// Purge: versions sorted newest first (as after selectVersion), flags and the
// active/selected versions symbolic.
func VerifC19_Purge() {
	storage := rt.Root("/s/updates")
	reg := c19Registry(storage)
	res := reg.newResource("a/b.zip")
	n := 5
	if rt.Thorough() {
		n = 6
	}
	cnt := rt.Len("n", 3, n)
	// (with an index that downloads automatically and the registry online,
	// versions that are not on disk are selectable - not kept files; quick
	// tier: with four versions)
	if (cnt == 4 || rt.Thorough()) && rt.Bool("auto-download-index") {
		res.Index = &Index{AutoDownload: true}
	}
	// versions known from an index only are not on disk: none, or a run of one
	// or two versions anywhere in the list (thorough: any subset)
	gapAt, gapLen := cnt, 2
	anySubset := rt.Thorough() && cnt <= 4
	if !anySubset && (cnt <= 4 || rt.Thorough()) {
		// (quick tier: with five versions all are on disk; thorough tier: any
		// subset with up to four versions, a run of two with five or six)
		gapAt = rt.Choice("unavailable-from", cnt+1)
	}
	// the versions were added newest first (as a selection leaves them), or
	// oldest first with no selection since
	ascending := rt.Bool("added-oldest-first")
	for i := 0; i < cnt; i++ {
		rank := cnt - i
		if ascending {
			rank = i + 1
		}
		rv := addVersion(res, rank, "v"+string(rune('0'+i)))
		// purging is paused while blacklisted versions exist: covered by one flag
		rv.Blacklisted = false
		if anySubset {
			rv.Available = rt.Bool("available" + string(rune('0'+i)))
		} else {
			rv.Available = !(i >= gapAt && i < gapAt+gapLen)
		}
		if rv.Available {
			rt.FsCreateFile(rv.storagePath())
		}
	}
	if rt.Bool("blacklisted") {
		res.Versions[rt.Choice("blidx", cnt)].Blacklisted = true
	}
	if s := rt.Choice("selected", cnt+1); s < cnt {
		res.SelectedVersion = res.Versions[s]
	}
	if a := rt.Choice("active", cnt+1); a < cnt {
		res.ActiveVersion = res.Versions[a]
	}
	keep := int(int8(rt.U8("keep")))
	before := append([]*ResourceVersion{}, res.Versions...)
	active, selected := res.ActiveVersion, res.SelectedVersion
	rt.FsFaults(0)

	res.Purge(keep)

	removed := func(rv *ResourceVersion) bool { return rt.FsRemoved(rv.storagePath()) }
	if active != nil {
		rt.Assert(!removed(active), "purge/active-version-kept")
	}
	if selected != nil {
		rt.Assert(!removed(selected), "purge/selected-version-kept")
	}
	// newest stable version (fork-free): not a pre-release and every newer one is
	stableSeen := false
	further, furtherKept := uint64(0), uint64(0)
	if ascending {
		// newest first
		for i, j := 0, len(before)-1; i < j; i, j = i+1, j-1 {
			before[i], before[j] = before[j], before[i]
		}
	}
	for _, rv := range before {
		isNewestStable := rt.All(!rv.PreRelease, !stableSeen)
		stableSeen = rt.Any(stableSeen, !rv.PreRelease)
		rt.Assert(rt.Implies(isNewestStable, !removed(rv)), "purge/newest-stable-kept")
		isFurther := rt.All(rv != active, rv != selected, !isNewestStable, rv.Available)
		further += b2u(isFurther)
		furtherKept += b2u(rt.All(isFurther, !removed(rv)))
	}
	// at least `keep` further versions survive (as far as there are any)
	want := uint64(0)
	if keep > 0 {
		want = uint64(keep)
	}
	want = rt.IteU64(want > further, further, want)
	rt.Assert(furtherKept >= want, "purge/keeps-requested-number-of-further-versions")
	// listed as available => file still exists
	for _, rv := range res.Versions {
		if rv.Available {
			rt.Assert(!removed(rv), "purge/listed-available-implies-file-exists")
		}
	}
	rt.Reach("purge-end")
}

func VerifC19_GetSelectedVersions() {
	reg := c19Registry("/s/updates")
	cnt := rt.Len("resources", 0, 2)
	ids := []string{"a/b.zip", "c/d.exe"}
	for i := 0; i < cnt; i++ {
		res := reg.newResource(ids[i])
		addVersion(res, 1+i, "r"+string(rune('0'+i)))
		res.selectVersion()
		reg.resources[ids[i]] = res
	}
	got := reg.GetSelectedVersions()
	rt.Assert(len(got) == cnt, "getselected/one-entry-per-resource")
	for i := 0; i < cnt; i++ {
		rt.Assert(got[ids[i]] == reg.resources[ids[i]].SelectedVersion.VersionNumber, "getselected/value")
	}
	rt.Reach("getselected-end")
}

// resources added through the registry (an index's map of identifiers to
// versions), some with a version string that is refused: the refused ones
// leave nothing behind that selection or the list of selected versions trip
// over, the others are selected
func VerifC19_RegistryAddResources() {
	reg := c19Registry("/s/updates")
	reg.Online = true
	badFirst := rt.Bool("refused-version-for-a-new-resource")
	badLater := rt.Bool("refused-version-for-a-known-resource")
	versions := map[string]string{"a/good.zip": "1.0.0"}
	if badFirst {
		versions["a/bad.zip"] = "1.x"
	}
	err := reg.AddResources(versions, nil, true, true, false)
	rt.Assert((err != nil) == badFirst, "registryadd/refused-version-reported")
	if badLater {
		rt.Assert(reg.AddResources(map[string]string{"a/good.zip": "2.y"}, nil, true, false, false) != nil, "registryadd/refused-version-reported")
	}
	reg.SelectVersions()
	got := reg.GetSelectedVersions() // (a panic here is a violation)
	rt.Assert(got["a/good.zip"] == "1.0.0", "registryadd/accepted-version-selected")
	if v, listed := got["a/bad.zip"]; listed {
		rt.Assert(v != "", "registryadd/no-resource-without-a-version-listed")
	}
	_, gerr := reg.GetFile("a/bad.zip")
	rt.Assert(gerr != nil, "registryadd/refused-resource-has-no-file")
	rt.Reach("registryadd-end")
}

// the dev version next to a pre-release that sorts below it (0.0.0-beta): in
// dev mode the locally available dev version is selected all the same
func VerifC19_DevVersionAmongLowerPreReleases() {
	reg := c19Registry("/s/updates")
	reg.DevMode = rt.Bool("devmode")
	reg.UsePreReleases = rt.Bool("usepre")
	res := reg.newResource("a/b.zip")
	names := []string{"0", "0.0.0-beta", "1.0.0", "0.0.0-alpha.1"}
	n := 2 + rt.Choice("more", 3)
	order := rt.Choice("order", 2)
	var dev *ResourceVersion
	for i := 0; i < n; i++ {
		k := i
		if order == 1 {
			k = n - 1 - i
		}
		if err := res.AddVersion(names[k], false, false, false); err != nil {
			rt.Assert(false, "devbelow/setup")
			return
		}
		rv := res.Versions[len(res.Versions)-1]
		rv.Available = rt.Bool("available" + string(rune('0'+k)))
		rv.PreRelease = k == 1 || k == 3
		if k == 0 {
			dev = rv
		}
	}
	res.selectVersion()
	rt.Assert(res.SelectedVersion != nil, "devbelow/something-selected")
	if reg.DevMode && dev.Available {
		rt.Assert(res.SelectedVersion == dev, "devbelow/available-dev-version-selected-in-dev-mode")
	}
	rt.Reach("devbelow-end")
}

// ---- versioned file names <-> (identifier, version) without loss ----

func VerifC19_FileNames() {
	ids := []string{"a/b.zip", "a/b", "b.exe", "all/intel/geoip/geoipv4.mmdb.gz", "x/assets.tar.gz", "d/.hidden", "d/name.", "deep/er/path/file-name_x.dat",
		// directories that carry a version tag themselves (the same as the file's, another one)
		"pkg/bundle_v1-2-3/app.zip", "pkg_v0-10-0/sub_v1-2-3-beta/app"}
	versioned := []string{"a/b_v1-2-3.zip", "a/b_v1-2-3", "b_v1-2-3.exe", "all/intel/geoip/geoipv4_v1-2-3.mmdb.gz", "x/assets_v1-2-3.tar.gz", "d/_v1-2-3.hidden", "d/name_v1-2-3.", "deep/er/path/file-name_x_v1-2-3.dat",
		"pkg/bundle_v1-2-3/app_v1-2-3.zip", "pkg_v0-10-0/sub_v1-2-3-beta/app_v1-2-3"}
	vers := []string{"1.2.3", "0.10.0", "20.1.2", "1.2.3-beta", "0.3.1-b"}
	i := rt.Choice("id", len(ids))
	v := vers[rt.Choice("version", len(vers))]
	p := GetVersionedPath(ids[i], v)
	if v == "1.2.3" {
		rt.Assert(p == versioned[i], "filenames/version-goes-before-the-first-dot-of-the-file-name")
	}
	id2, v2, ok := GetIdentifierAndVersion(p)
	rt.Assert(ok, "filenames/versioned-path-parses")
	rt.Assert(id2 == ids[i], "filenames/identifier-recovered")
	rt.Assert(v2 == v, "filenames/version-recovered")
	// and back again
	rt.Assert(GetVersionedPath(id2, v2) == p, "filenames/path-recovered")
	// the storage path of a version found on disk is the file it was found as
	reg := c19Registry("/s/updates")
	res := reg.newResource(id2)
	rv := &ResourceVersion{resource: res, VersionNumber: v2}
	rt.Assert(rv.versionedPath() == p, "filenames/version-points-at-the-scanned-file")
	// a name without a version is not taken for a versioned file
	_, _, ok = GetIdentifierAndVersion(ids[i])
	rt.Assert(!ok, "filenames/unversioned-name-rejected")
	rt.Reach("filenames-end")
}

// the same with symbolic file stems and version digits (regular expression
// matching runs in the engine's interpreter over the compiled program)
func VerifC19_FileNamesSymbolic() {
	stem := rt.StrN("stem", 1, 2)
	for i := 0; i < len(stem); i++ {
		c := stem[i]
		rt.Assume(rt.Any(rt.All(c >= 'a', c <= 'z'), rt.All(c >= '0', c <= '9'), c == '_', c == '-'))
	}
	ext := []string{"", ".zip", ".tar.gz", "."}[rt.Choice("ext", 4)]
	dir := []string{"", "a/", "a/b/"}[rt.Choice("dir", 3)]
	id := dir + stem + ext
	d := func(name string) string {
		c := rt.U8(name)
		rt.Assume(rt.All(c >= '0', c <= '9'))
		return string([]byte{c})
	}
	v := d("major") + "." + d("minor") + "." + d("patch")
	if rt.Bool("two-digit-major") {
		v = d("major2") + v
	}
	if rt.Bool("suffix") {
		c := rt.U8("suffixchar")
		rt.Assume(rt.All(c >= 'a', c <= 'z'))
		v += "-" + string([]byte{c})
	}
	p := GetVersionedPath(id, v)
	rt.ObserveStr("versioned", p)
	id2, v2, ok := GetIdentifierAndVersion(p)
	rt.ObserveBool("ok", ok)
	rt.Assert(ok, "filenames/versioned-path-parses")
	if ok {
		rt.ObserveStr("identifier", id2)
		rt.ObserveStr("version", v2)
		rt.Assert(rt.EqStr(id2, id), "filenames/identifier-recovered")
		rt.Assert(rt.EqStr(v2, v), "filenames/version-recovered")
		rt.Assert(rt.EqStr(GetVersionedPath(id2, v2), p), "filenames/path-recovered")
	}
	// the other direction: a file found on disk -> pair -> the same file name
	dashed := ""
	for i := 0; i < len(v); i++ {
		if v[i] == '.' {
			dashed += "-"
		} else {
			dashed += string([]byte{v[i]})
		}
	}
	onDisk := dir + stem + "_v" + dashed + ext
	id3, v3, ok3 := GetIdentifierAndVersion(onDisk)
	rt.Assert(ok3, "filenames/file-on-disk-parses")
	if ok3 {
		rt.Assert(rt.EqStr(GetVersionedPath(id3, v3), onDisk), "filenames/file-on-disk-recovered")
	}
	rt.Reach("filenames-symbolic-end")
}

// ---- histories of AddVersion: one entry per version, at most one current
// release (the one named by the latest call that set it), flags accumulate;
// then the selection follows the documented order on that state ----

func VerifC19_AddVersionHistory() {
	reg := c19Registry("/s/updates")
	res := reg.newResource("a/b.zip")
	steps := 3
	n := rt.Len("calls", 1, steps)
	current := -1 // rank of the version named by the latest current-release call
	avail := map[int]bool{}
	added := map[int]bool{}
	for s := 0; s < n; s++ {
		tag := "add" + string(rune('0'+s))
		// (rank 0: the dev version, spelled "0" as in the file name name_v0.ext)
		rank := rt.Choice(tag+".version", 4)
		a, cur := rt.Bool(tag+".available"), rt.Bool(tag+".current")
		if rt.Bool(tag + ".unparsable") {
			// a version string that is no version: refused, nothing changes
			rt.Assert(res.AddVersion("not-a-version", a, cur, false) != nil, "addversion/unparsable-refused")
			flagged := 0
			for _, rv := range res.Versions {
				if rv.CurrentRelease {
					flagged++
					rt.Assert(rankOf(rv) == current, "addversion/refused-call-keeps-the-current-release")
				}
			}
			if current >= 0 {
				rt.Assert(flagged == 1, "addversion/refused-call-keeps-the-current-release-flag")
			}
			continue
		}
		rt.Assert(res.AddVersion(c19Numbers[rank], a, cur, false) == nil, "addversion/ok")
		added[rank] = true
		if a {
			avail[rank] = true
		}
		if cur {
			current = rank
		}
		// state after every call
		seen := map[string]bool{}
		flagged := 0
		for _, rv := range res.Versions {
			rt.Assert(!seen[rv.VersionNumber], "addversion/one-entry-per-version")
			seen[rv.VersionNumber] = true
			if rv.CurrentRelease {
				flagged++
				rt.Assert(current >= 0 && rankOf(rv) == current, "addversion/current-release-is-the-latest-one-named")
			}
			for r := 0; r <= 3; r++ {
				if rankOf(rv) == r {
					rt.Assert(rv.Available == avail[r], "addversion/available-flag-accumulates")
				}
			}
		}
		want := 0
		if current >= 0 {
			want = 1
		}
		rt.Assert(flagged == want, "addversion/exactly-one-current-release")
		cnt := 0
		for r := 0; r <= 3; r++ {
			if added[r] {
				cnt++
			}
		}
		rt.Assert(len(res.Versions) == cnt, "addversion/version-count")
	}
	// the selection on the resulting state: the current release if it is selectable
	res.selectVersion()
	if current >= 0 && res.SelectedVersion != nil {
		for _, rv := range res.Versions {
			if rv.CurrentRelease && rv.isSelectable() && !reg.DevMode {
				rt.Assert(res.SelectedVersion == rv, "addversion/selectable-current-release-is-selected")
			}
		}
	}
	rt.Reach("addversion-end")
}
