package api

// C13 harnesses: every database-API message gets the replies its protocol
// prescribes.

import (
	"bytes"
	"time"

	"github.com/safing/portbase/database"
	"github.com/safing/portbase/database/record"
	_ "github.com/safing/portbase/database/storage/hashmap"
	"github.com/safing/portbase/utils"
	rt "github.com/safing/portbase/zz_verifrt"
)

var c13Replies [][]byte

// when set, called from the sending goroutine for every reply
var c13OnReply func(data []byte)

// when set, sending a "done" reply blocks until the gate is closed
var c13SendGate chan struct{}

func c13Setup() *DatabaseAPI {
	c13Replies = nil
	rt.FsFaults(0)
	rt.FsStatDirs(true)
	// a real database with the in-memory backend
	_ = database.Initialize(utils.NewDirStructure(rt.Root("/data"), 0o755))
	_, err := database.Register(&database.Database{Name: "tdb", Description: "t", StorageType: "hashmap"})
	rt.Assert(err == nil, "setup/register-database")
	c13SendGate = nil
	c13OnReply = nil
	api := CreateDatabaseAPI(func(data []byte) {
		c13Replies = append(c13Replies, append([]byte{}, data...))
		if c13OnReply != nil {
			c13OnReply(data)
		}
		if c13SendGate != nil && bytes.HasSuffix(data, []byte("|done")) {
			<-c13SendGate // a slow connection: the writer blocks on this reply
		}
	})
	return &api
}

func c13Split(msg []byte) (opID, kind, rest []byte) {
	parts := bytes.SplitN(msg, []byte("|"), 3)
	if len(parts) > 0 {
		opID = parts[0]
	}
	if len(parts) > 1 {
		kind = parts[1]
	}
	if len(parts) > 2 {
		rest = parts[2]
	}
	return
}

func c13Kind(reply []byte) string {
	_, k, _ := c13Split(reply)
	return string(k)
}

// ---- O1: dispatch is total; malformed messages get exactly one error reply ----

func VerifC13_Dispatch() {
	rt.SchedYieldOnly(true)
	api := c13Setup()
	n := 6
	if rt.Thorough() {
		n = 8
	}
	msg := rt.BytesN("msg", 0, n)
	for i := range msg {
		// printable ASCII keeps the method names reachable and the paths few
		rt.Assume(msg[i] >= 0x20)
		rt.Assume(msg[i] < 0x7f)
	}
	api.Handle(msg)
	rt.Quiesce(time.Second)
	// never a crash (escaping panics are violations); malformed -> one error reply
	seps := 0
	for _, c := range msg {
		if c == '|' {
			seps++
		}
	}
	if seps == 0 || (seps == 1 && !bytes.HasSuffix(msg, []byte("|cancel"))) {
		rt.Assert(len(c13Replies) == 1, "dispatch/malformed-gets-exactly-one-reply")
		if len(c13Replies) == 1 {
			rt.Assert(c13Kind(c13Replies[0]) == "error", "dispatch/malformed-gets-error")
		}
	}
	// every reply to a message with an operation ID starts with that ID
	opID, _, _ := c13Split(msg)
	if seps >= 2 {
		for _, r := range c13Replies {
			rt.Assert(bytes.HasPrefix(r, append(append([]byte{}, opID...), '|')), "dispatch/reply-carries-opid")
		}
		rt.Assert(len(c13Replies) <= 1, "dispatch/at-most-one-reply-to-a-short-request")
	}
	rt.Reach("dispatch-end")
}

// write requests that lack the payload separator: one error reply, which
// carries the request's operation ID (the ID was readable)
func VerifC13_WriteWithoutPayload() {
	rt.SchedYieldOnly(true)
	api := c13Setup()
	method := []string{"create", "update", "insert"}[rt.Choice("method", 3)]
	key := rt.StrN("key", 0, 3)
	for i := 0; i < len(key); i++ {
		rt.Assume(key[i] != '|')
		rt.Assume(key[i] >= 0x20)
		rt.Assume(key[i] < 0x7f)
	}
	api.Handle(c13Msg("op9", method, key))
	rt.Quiesce(time.Second)
	rt.Assert(len(c13Replies) == 1, "nopayload/exactly-one-reply")
	if len(c13Replies) == 1 {
		rt.Assert(c13Kind(c13Replies[0]) == "error", "nopayload/error-reply")
		rt.Assert(bytes.HasPrefix(c13Replies[0], []byte("op9|")), "nopayload/reply-carries-opid")
	}
	rt.Reach("nopayload-end")
}

// ---- O2: request/response operations answer exactly once ----

func c13Msg(op, method, arg string) []byte { return []byte(op + "|" + method + "|" + arg) }

func VerifC13_RequestResponse() {
	rt.SchedYieldOnly(true)
	api := c13Setup()
	// seed one JSON record through the API itself
	seedJSON := rt.Bool("seed.json")
	format := byte('J')
	if !seedJSON {
		format = 'M'
	}
	api.Handle(append(c13Msg("s1", "create", "tdb:a|"), format, '{', '}'))
	rt.Quiesce(time.Second)
	rt.Assert(len(c13Replies) == 1 && c13Kind(c13Replies[0]) == "success", "reqresp/seed-created")
	c13Replies = nil
	// known finding region: insert on a record that has no accessor (not JSON)
	rt.Region("C13-insert-on-record-without-accessor", !seedJSON)
	key := []string{"tdb:a", "tdb:missing", "nodb:x", ""}[rt.Choice("key", 4)]
	var msg []byte
	wantKinds := []string{"success", "error"}
	switch rt.Choice("method", 5) {
	case 0:
		msg = c13Msg("op7", "get", key)
		wantKinds = []string{"ok", "error"}
	case 1:
		msg = append(c13Msg("op7", "create", key+"|"), 'J', '{', '}')
	case 2:
		msg = append(c13Msg("op7", "update", key+"|"), 'J', '{', '}')
	case 3:
		msg = append(c13Msg("op7", "insert", key+"|"), []byte(`{"k":"v"}`)...)
	case 4:
		msg = c13Msg("op7", "delete", key)
	}
	api.Handle(msg)
	rt.Quiesce(time.Second)
	rt.Assert(len(c13Replies) == 1, "reqresp/exactly-one-reply")
	if len(c13Replies) == 1 {
		k := c13Kind(c13Replies[0])
		rt.Assert(k == wantKinds[0] || k == wantKinds[1], "reqresp/reply-kind")
		rt.Assert(bytes.HasPrefix(c13Replies[0], []byte("op7|")), "reqresp/reply-carries-opid")
	}
	rt.Reach("reqresp-end")
}

// ---- O3: query / sub / qsub sequencing ----

func c13Seed(api *DatabaseAPI, keys ...string) {
	c13SeedFormat(api, 'J', keys...)
}

func c13SeedFormat(api *DatabaseAPI, format byte, keys ...string) {
	for _, k := range keys {
		api.Handle(append(c13Msg("seed", "create", k+"|"), format, '{', '}'))
		rt.Quiesce(time.Second)
	}
	c13Replies = nil
}

func VerifC13_Query() {
	rt.SchedYieldOnly(true)
	api := c13Setup()
	k := rt.Len("records", 0, 2)
	// records in a format with (JSON) or without (MsgPack) field access
	json := rt.Bool("json-records")
	format := byte('J')
	if !json {
		format = 'M'
	}
	c13SeedFormat(api, format, []string{"tdb:q/1", "tdb:q/2"}[:k]...)
	cancel := rt.Bool("cancel")
	// with a condition no record satisfies, the result is empty
	where := rt.Bool("where")
	if where {
		api.Handle(c13Msg("q9", "query", "query tdb:q/ where nosuchfield exists"))
		k = 0
	} else {
		api.Handle(c13Msg("q9", "query", "query tdb:q/"))
	}
	if cancel {
		api.Handle([]byte("q9|cancel"))
	}
	rt.Quiesce(time.Second)
	oks, terminal := 0, 0
	for i, r := range c13Replies {
		rt.Assert(bytes.HasPrefix(r, []byte("q9|")), "query/reply-carries-opid")
		switch c13Kind(r) {
		case "ok", "warning": // warning: the record could not be serialized
			oks++
			if !cancel {
				rt.Assert(terminal == 0, "query/no-record-after-terminal-reply")
			}
		case "done", "error":
			terminal++
			_ = i
		default:
			rt.Assert(false, "query/unexpected-reply-kind")
		}
	}
	if !cancel {
		rt.Assert(oks == k, "query/one-ok-per-matching-record")
		rt.Assert(terminal == 1, "query/exactly-one-done-or-error")
		if terminal == 1 {
			rt.Assert(c13Kind(c13Replies[len(c13Replies)-1]) == "done", "query/terminated-by-done")
		}
	} else {
		rt.Assert(oks <= k, "query/cancelled-no-extra-records")
	}
	rt.Reach("query-end")
}

// a query (or the query phase of a qsub) whose result stream breaks off with an
// error - the in-memory backend gives up when the client stalls for more than
// a second with more than ten records outstanding - is ended by exactly one
// error reply, nothing after it
func VerifC13_QueryStreamFailure() {
	rt.SchedYieldOnly(true)
	rt.CodecFaults(false)
	api := c13Setup()
	keys := []string{}
	for i := 0; i < 13; i++ {
		keys = append(keys, "tdb:q/"+string(rune('a'+i)))
	}
	c13Seed(api, keys...)
	// the client stalls on the first record for three seconds
	stalled := false
	stall := 3 * time.Second
	if !rt.Symbolic() {
		stall = 1500 * time.Millisecond // (longer than the backend's one second)
	}
	c13OnReply = func(data []byte) {
		if !stalled && bytes.Contains(data, []byte("|ok|")) {
			stalled = true
			time.Sleep(stall)
		}
	}
	method := []string{"query", "qsub"}[rt.Choice("method", 2)]
	api.Handle(c13Msg("q9", method, "query tdb:q/"))
	rt.Quiesce(20 * time.Second)
	rt.Quiesce(20 * time.Second) // (natively 3 s in all: twice the client's stall)
	terminal, afterError := 0, 0
	last := ""
	sawError := false
	for _, r := range c13Replies {
		rt.Assert(bytes.HasPrefix(r, []byte("q9|")), "streamfailure/reply-carries-opid")
		if sawError {
			afterError++
		}
		switch c13Kind(r) {
		case "done", "error":
			terminal++
			last = c13Kind(r)
			if last == "error" {
				sawError = true
			}
		}
	}
	if sawError {
		rt.Assert(terminal == 1, "streamfailure/exactly-one-terminal-reply")
		rt.Assert(afterError == 0, "streamfailure/nothing-after-the-error")
	}
	rt.ObserveStr("last", last)
	if method == "qsub" && !sawError {
		api.Handle([]byte("q9|cancel"))
		rt.Quiesce(time.Second)
	}
	if sawError {
		// the operation has ended: its ID is free for a new subscription
		c13OnReply = nil
		at := len(c13Replies)
		api.Handle(c13Msg("q9", "sub", "query tdb:q/"))
		rt.Quiesce(time.Second)
		api.Handle(append(c13Msg("w1", "create", "tdb:q/new|"), 'J', '{', '}'))
		rt.Quiesce(time.Second)
		api.Handle([]byte("q9|cancel"))
		rt.Quiesce(time.Second)
		announced, dones := 0, 0
		for _, r := range c13Replies[at:] {
			if !bytes.HasPrefix(r, []byte("q9|")) {
				continue
			}
			switch c13Kind(r) {
			case "new", "upd":
				announced++
			case "done":
				dones++
			case "error":
				rt.Assert(false, "streamfailure/id-of-the-ended-operation-can-be-used-again")
			}
		}
		rt.Assert(announced == 1, "streamfailure/new-subscription-under-the-id-announces-the-write")
		rt.Assert(dones == 1, "streamfailure/new-subscription-ends-with-done")
	}
	rt.Reach("streamfailure-end")
}

// a second sub / qsub with the operation ID of a subscription that is still
// active: the ID keeps standing for one subscription - after its cancel there
// is one done, and nothing is announced under that ID any more
func VerifC13_DuplicateOperationID() {
	rt.SchedYieldOnly(true)
	rt.CodecFaults(false)
	api := c13Setup()
	api.Handle(c13Msg("s5", "sub", "query tdb:s/"))
	rt.Quiesce(time.Second)
	second := []string{"sub", "qsub"}[rt.Choice("second", 2)]
	api.Handle(c13Msg("s5", second, "query tdb:"))
	rt.Quiesce(time.Second)
	api.Handle(append(c13Msg("w1", "create", "tdb:s/new|"), 'J', '{', '}'))
	rt.Quiesce(time.Second)
	api.Handle([]byte("s5|cancel"))
	rt.Quiesce(time.Second)
	atCancel := len(c13Replies)
	dones := 0
	for _, r := range c13Replies {
		if bytes.HasPrefix(r, []byte("s5|")) && c13Kind(r) == "done" {
			dones++
		}
	}
	rt.Assert(dones == 1, "dupid/one-done-after-the-cancel")
	// a further change is not announced under the cancelled ID
	api.Handle(append(c13Msg("w2", "create", "tdb:s/later|"), 'J', '{', '}'))
	rt.Quiesce(time.Second)
	for _, r := range c13Replies[atCancel:] {
		rt.Assert(!bytes.HasPrefix(r, []byte("s5|")), "dupid/nothing-announced-after-the-cancel")
	}
	rt.Reach("dupid-end")
}

func VerifC13_Sub() {
	rt.SchedYieldOnly(true)
	api := c13Setup()
	c13Seed(api, "tdb:s/old")
	api.Handle(c13Msg("s5", "sub", "query tdb:s/"))
	// possibly a second subscription whose query overlaps: both see every change
	two := rt.Bool("second-overlapping-subscription")
	if two {
		rt.CodecFaults(false) // (serialising the records does not fail here: fewer paths)
		api.Handle(c13Msg("s6", "sub", "query tdb:"))
	}
	rt.Quiesce(time.Second)
	rt.Assert(len(c13Replies) == 0, "sub/no-reply-before-changes")
	// changes: a new record, an update, a delete - and one outside the prefix
	api.Handle(append(c13Msg("w1", "create", "tdb:s/new|"), 'J', '{', '}'))
	rt.Quiesce(time.Second)
	api.Handle(append(c13Msg("w2", "update", "tdb:other/x|"), 'J', '{', '}'))
	rt.Quiesce(time.Second)
	// delete the record created above: later, or within the same second
	target := "tdb:s/old"
	if rt.Bool("delete-the-new-record") {
		target = "tdb:s/new"
	}
	sameSecond := rt.Bool("same-second")
	if sameSecond {
		// a record created and deleted within one second (time stamps have
		// one-second resolution)
		api.Handle(append(c13Msg("w4", "create", "tdb:s/tmp|"), 'J', '{', '}'))
		rt.Quiesce(time.Millisecond)
		api.Handle(c13Msg("w5", "delete", "tdb:s/tmp"))
		rt.Quiesce(time.Second)
	}
	api.Handle(c13Msg("w3", "delete", target))
	rt.Quiesce(time.Second)
	api.Handle([]byte("s5|cancel"))
	rt.Quiesce(time.Second)
	if two {
		api.Handle([]byte("s6|cancel"))
		rt.Quiesce(time.Second)
		var kinds6 []string
		for _, r := range c13Replies {
			if bytes.HasPrefix(r, []byte("s6|")) {
				kinds6 = append(kinds6, c13Kind(r))
			}
		}
		dels := 0
		for _, k := range kinds6 {
			if k == "del" {
				dels++
			}
		}
		wantDels := 1
		if sameSecond {
			wantDels = 2
		}
		rt.Assert(dels == wantDels, "sub/second-subscription-sees-every-delete")
		rt.Assert(len(kinds6) > 0 && kinds6[len(kinds6)-1] == "done", "sub/second-subscription-ends-with-done")
	}
	var kinds []string
	for _, r := range c13Replies {
		if bytes.HasPrefix(r, []byte("s5|")) {
			kinds = append(kinds, c13Kind(r))
		}
	}
	if sameSecond {
		rt.Assert(len(kinds) == 5, "sub/notifications-then-done")
		if len(kinds) == 5 {
			rt.Assert(kinds[1] == "new" || kinds[1] == "upd" || kinds[1] == "warning", "sub/second-create-notified")
			rt.Assert(kinds[2] == "del" || kinds[2] == "warning", "sub/same-second-delete-notified-as-delete")
			kinds = []string{kinds[0], kinds[3], kinds[4]}
		}
	}
	rt.Assert(len(kinds) == 3, "sub/notifications-then-done")
	if len(kinds) == 3 {
		// "warning" replaces a notification whose record could not be serialized
		rt.Assert(kinds[0] == "new" || kinds[0] == "upd" || kinds[0] == "warning", "sub/first-is-new-or-upd")
		rt.Assert(kinds[1] == "del" || kinds[1] == "warning", "sub/delete-notified")
		rt.Assert(kinds[2] == "done", "sub/done-after-cancel")
	}
	rt.Reach("sub-end")
}

// a subscriber whose connection has stalled (its feed has filled up) does not
// wedge writers: a matching write is still answered, exactly once
func VerifC13_StalledSubscriberDoesNotWedgeWriters() {
	rt.SchedYieldOnly(true)
	rt.CodecFaults(false)
	api := c13Setup()
	api.Handle(c13Msg("s5", "sub", "query tdb:s/"))
	rt.Quiesce(time.Second)
	// the client stops reading: replies of the subscription block
	gate := make(chan struct{})
	c13OnReply = func(data []byte) {
		if bytes.HasPrefix(data, []byte("s5|")) {
			<-gate
		}
	}
	api.Handle(append(c13Msg("w0", "create", "tdb:s/first|"), 'J', '{', '}'))
	rt.Quiesce(time.Second) // the subscription's handler is stuck sending the notification
	api.subsLock.Lock()
	sub := api.subs["s5"]
	api.subsLock.Unlock()
	rt.Assert(sub != nil, "stalled/subscription-registered")
	if sub == nil {
		return
	}
	// updates pile up behind it until the feed is full
	filler, err := record.NewWrapper("tdb:s/filler", nil, 'J', []byte("{}"))
	rt.Assert(err == nil, "stalled/setup")
	for len(sub.Feed) < cap(sub.Feed) {
		sub.Feed <- filler
	}
	before := len(c13Replies)
	api.Handle(append(c13Msg("w1", "create", "tdb:s/new|"), 'J', '{', '}'))
	rt.Quiesce(time.Second)
	n := 0
	for _, r := range c13Replies[before:] {
		if bytes.HasPrefix(r, []byte("w1|")) {
			n++
			rt.Assert(c13Kind(r) == "success", "stalled/write-succeeds")
		}
	}
	rt.Assert(n == 1, "stalled/write-answered-exactly-once")
	// another request on the same connection is served as well
	api.Handle(c13Msg("g1", "get", "tdb:s/new"))
	rt.Quiesce(time.Second)
	got := false
	for _, r := range c13Replies[before:] {
		if bytes.HasPrefix(r, []byte("g1|ok|")) {
			got = true
		}
	}
	rt.Assert(got, "stalled/get-still-served")
	close(gate)
	rt.Reach("stalled-end")
}

// ---- O5: cancels racing with each other and with the connection shutdown:
// nothing crashes, the subscription ends exactly once ----

func VerifC13_CancelRaces() {
	rt.SchedYieldOnly(false) // every blocking point is a scheduling choice
	api := c13Setup()
	api.Handle(c13Msg("s5", "sub", "query tdb:s/"))
	rt.Quiesce(time.Second)
	variant := rt.Choice("variant", 4)
	switch variant {
	case 3: // second cancel while the final "done" is still being written
		c13SendGate = make(chan struct{})
		api.Handle([]byte("s5|cancel"))
		rt.Quiesce(time.Second)
		api.Handle([]byte("s5|cancel"))
		rt.Quiesce(time.Second)
		close(c13SendGate)
	case 0: // the same subscription cancelled twice
		api.Handle([]byte("s5|cancel"))
		api.Handle([]byte("s5|cancel"))
	case 1: // cancel, then the connection goes away
		api.Handle([]byte("s5|cancel"))
		close(api.shutdownSignal)
	case 2: // the connection goes away while the subscription is live
		close(api.shutdownSignal)
	}
	rt.Quiesce(time.Second)
	done, errs := 0, 0
	for _, r := range c13Replies {
		if bytes.HasPrefix(r, []byte("s5|")) {
			switch c13Kind(r) {
			case "done":
				done++
			case "error":
				errs++
			default:
				rt.Assert(false, "cancelraces/only-done-or-error-replies")
			}
		}
	}
	rt.Assert(done <= 1, "cancelraces/at-most-one-done")
	if variant == 0 || variant == 3 {
		rt.Assert(done == 1, "cancelraces/cancelled-subscription-ends-with-done")
		rt.Assert(errs <= 1, "cancelraces/second-cancel-at-most-one-error")
	}
	api.subsLock.Lock()
	rt.Assert(len(api.subs) == 0, "cancelraces/subscription-removed")
	api.subsLock.Unlock()
	rt.Reach("cancelraces-end")
}

// a cancel sent right behind its sub / qsub (the requests of one connection are
// handled concurrently): whichever handler runs first, the subscription is
// cancelled - nothing is announced under the ID afterwards
func VerifC13_CancelRightBehindSub() {
	rt.SchedYieldOnly(false) // every blocking point is a scheduling choice
	rt.CodecFaults(false)
	api := c13Setup()
	method := []string{"sub", "qsub"}[rt.Choice("method", 2)]
	api.Handle(c13Msg("s5", method, "query tdb:s/"))
	api.Handle([]byte("s5|cancel"))
	rt.Quiesce(time.Second)
	before := len(c13Replies)
	api.Handle(append(c13Msg("w1", "create", "tdb:s/new|"), 'J', '{', '}'))
	rt.Quiesce(time.Second)
	for _, r := range c13Replies[before:] {
		rt.Assert(!bytes.HasPrefix(r, []byte("s5|")), "cancelbehind/nothing-announced-after-the-cancel")
	}
	api.subsLock.Lock()
	rt.Assert(len(api.subs) == 0, "cancelbehind/subscription-removed")
	api.subsLock.Unlock()
	rt.Reach("cancelbehind-end")
}

// ---- qsub: a matching write that lands while the query phase is still
// running is not lost: it shows up as a notification after the query replies ----

func VerifC13_QsubWriteDuringQuery() {
	rt.SchedYieldOnly(true)
	rt.CodecFaults(false) // serialising the (JSON) records for the replies does not fail
	api := c13Setup()
	k := 1 + rt.Choice("records", 2)
	c13Seed(api, []string{"tdb:q/1", "tdb:q/2"}[:k]...)
	target := []string{"tdb:q/1", "tdb:q/2", "tdb:q/new"}[rt.Choice("target", 3)]
	written := false
	c13OnReply = func(data []byte) {
		// the client writes when it sees the first record of the query phase
		if !written && bytes.HasPrefix(data, []byte("q7|ok|")) {
			written = true
			api.Handle(append(c13Msg("w8", "update", target+"|"), 'J', '{', '}'))
			rt.Quiesce(time.Second) // the write completes while this reply is being sent
		}
	}
	api.Handle(c13Msg("q7", "qsub", "query tdb:q/"))
	rt.Quiesce(3 * time.Second)
	api.Handle([]byte("q7|cancel"))
	rt.Quiesce(time.Second)
	rt.Assert(written, "qsubwrite/write-issued-during-query-phase")
	var kinds []string
	success := false
	for _, r := range c13Replies {
		if bytes.HasPrefix(r, []byte("q7|")) {
			kinds = append(kinds, c13Kind(r))
		}
		if bytes.HasPrefix(r, []byte("w8|success")) {
			success = true
		}
	}
	rt.Assert(success, "qsubwrite/write-succeeded")
	// ok x k, done, one notification for the write, done after cancel
	notified := 0
	for _, kd := range kinds {
		if kd == "upd" || kd == "new" || kd == "warning" {
			notified++
		}
	}
	rt.Assert(notified == 1, "qsubwrite/write-during-query-phase-is-notified-once")
	rt.Assert(len(kinds) > 0 && kinds[len(kinds)-1] == "done", "qsubwrite/ends-with-done")
	rt.Reach("qsubwrite-end")
}

// ---- qsub cancelled while its query phase is still running: the whole
// operation ends - no subscription keeps running behind the client's back ----

func VerifC13_QsubCancelDuringQuery() {
	rt.SchedYieldOnly(true)
	rt.CodecFaults(false)
	api := c13Setup()
	k := 1 + rt.Choice("records", 2)
	c13Seed(api, []string{"tdb:q/1", "tdb:q/2"}[:k]...)
	cancelled := false
	c13OnReply = func(data []byte) {
		// the client cancels when it sees the first record of the query phase
		if !cancelled && bytes.HasPrefix(data, []byte("q7|ok|")) {
			cancelled = true
			api.Handle([]byte("q7|cancel"))
			rt.Quiesce(time.Second)
		}
	}
	api.Handle(c13Msg("q7", "qsub", "query tdb:q/"))
	rt.Quiesce(3 * time.Second)
	rt.Assert(cancelled, "qsubcancel/cancel-issued-during-query-phase")
	before := len(c13Replies)
	// a matching write after the cancel is not announced any more
	api.Handle(append(c13Msg("w8", "update", "tdb:q/1|"), 'J', '{', '}'))
	rt.Quiesce(time.Second)
	for _, r := range c13Replies[before:] {
		rt.Assert(!bytes.HasPrefix(r, []byte("q7|")), "qsubcancel/nothing-announced-after-the-cancel")
	}
	api.subsLock.Lock()
	rt.Assert(len(api.subs) == 0, "qsubcancel/no-subscription-left-running")
	api.subsLock.Unlock()
	rt.Reach("qsubcancel-end")
}
