package api

// C13 harness (API bridge): a record written to the injected API bridge
// database - as the database API does for "create"/"update" on its keys - is
// answered with a response record or an error, whatever its fields hold; it
// never panics (handlePut runs in a bare goroutine: a panic ends the process).

import (
	"errors"
	"io"
	"net/http"
	"net/http/httptest"
	"net/url"

	rt "github.com/safing/portbase/zz_verifrt"
)

type c13BridgeHandler struct{}

func (c13BridgeHandler) ServeHTTP(w http.ResponseWriter, r *http.Request) { w.WriteHeader(200) }

func c13TokenByte(c byte) bool {
	return rt.Any(
		rt.All(c >= 'a', c <= 'z'), rt.All(c >= 'A', c <= 'Z'), rt.All(c >= '0', c <= '9'),
		c == '!', c == '#', c == '$', c == '%', c == '&', c == '\'', c == '*', c == '+',
		c == '-', c == '.', c == '^', c == '_', c == '`', c == '|', c == '~')
}

// VerifModel_httptest_NewRequest: httptest.NewRequest parses the textual
// request line "<method> <target> HTTP/1.0" and panics when that fails: the
// method has to be a non-empty HTTP token, the target a request URI.
func VerifModel_httptest_NewRequest(method, target string, body io.Reader) *http.Request {
	ok := len(method) > 0
	for i := 0; i < len(method); i++ {
		ok = rt.All(ok, c13TokenByte(method[i]))
	}
	if !ok {
		panic("invalid NewRequest arguments; malformed HTTP request")
	}
	u, err := VerifModel_url_ParseRequestURI(target)
	if err != nil {
		panic("invalid NewRequest arguments")
	}
	return &http.Request{Method: method, URL: u, RequestURI: target, Header: http.Header{}, Host: "example.com"}
}

func VerifModel_url_ParseRequestURI(raw string) (*url.URL, error) {
	if raw == "" || raw[0] != '/' {
		return nil, errors.New("invalid URI for request")
	}
	return &url.URL{Path: raw}, nil
}

func VerifModel_url_URL_String(u *url.URL) string { return u.Path }

// VerifModel_http_NewRequest: http.NewRequest refuses a method that is not an
// HTTP token (and, with the targets used here, nothing else).
func VerifModel_http_NewRequest(method, target string, body io.Reader) (*http.Request, error) {
	ok := true
	for i := 0; i < len(method); i++ {
		ok = rt.All(ok, c13TokenByte(method[i]))
	}
	if !ok {
		return nil, errors.New("net/http: invalid method")
	}
	if method == "" {
		method = "GET"
	}
	return &http.Request{Method: method, URL: &url.URL{Path: target}, Header: http.Header{}}, nil
}

// VerifModel_httptest_NewRecorder: a recorder with code 200 by default.
func VerifModel_httptest_NewRecorder() *httptest.ResponseRecorder {
	return &httptest.ResponseRecorder{HeaderMap: http.Header{}, Code: 200}
}

func VerifC13_BridgeRequestTotal() {
	server.Handler = c13BridgeHandler{}
	method := rt.StrN("method", 0, 3)
	r := &EndpointBridgeRequest{Path: "ping", Method: method}
	r.SetKey(apiDatabaseName + ":ping")
	ebs := &endpointBridgeStorage{}
	resp, err := ebs.Put(r) // an escaping panic is a violation
	rt.ObserveBool("accepted", err == nil)
	if err == nil {
		rt.Assert(resp != nil, "bridge/accepted-request-has-a-response-record")
	}
	rt.Reach("bridgetotal-end")
}
